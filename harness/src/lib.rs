//! Shared helpers for the per-property harness binaries (src/bin/cXX.rs).
#[path = "lib_util.rs"]
pub mod util;
pub mod exec;
pub use util::*;
pub mod scopedump;
pub mod walk;
pub mod gen_walker;
pub mod gen_pstr_consts;
