//! Harness binary for property C16 (line protocol; see /verif/vlib/BUILDER_GUIDE.md).
fn main() {
  eprintln!("c16: not implemented yet");
  std::process::exit(2);
}
