//! Protocols of C16 (server text edits apply cleanly):
//!   `diff <old> <new>`            hook `verif_hooks_c16::list_diff` (the private `list_differ::compute`
//!                                 of crates/samlang-services/src/ast_differ.rs) on integer lists
//!   workspace / server commands   `new`, `src`, `init`, `upd`, `rm`, `mv`, `qa`, `qc`, `errs`, `eval`,
//!                                 `mdiff` — real `ServerState`, `rewrite::code_actions`,
//!                                 `completion::auto_complete`, fresh re-analysis of a spliced text.
//! Strings cross the protocol hex-encoded. One answer line per input line.
use samlang_ast::{Location, Position};
use samlang_errors::{CompileTimeError, ErrorDetail, ErrorSet};
use samlang_heap::{Heap, ModuleReference};
use samlang_services::{completion, rewrite, server_state::ServerState, verif_hooks_c16 as hooks};
use samverif_harness::util::*;
use std::collections::HashMap;
use std::panic::{AssertUnwindSafe, catch_unwind};

fn parse_list(s: &str) -> Vec<i64> {
  if s == "-" { Vec::new() } else { s.split(',').map(|x| x.parse().unwrap()).collect() }
}

fn join<T: ToString>(xs: &[T]) -> String {
  xs.iter().map(|x| x.to_string()).collect::<Vec<_>>().join(",")
}

fn show_script(script: &[(i32, hooks::PlainChange)]) -> String {
  if script.is_empty() {
    return "-".to_string();
  }
  script
    .iter()
    .map(|(p, c)| match c {
      hooks::PlainChange::Insert { items, has_separator, leading_separator } => format!(
        "I@{p}[{}]s{}l{}",
        join(items),
        if *has_separator { 1 } else { 0 },
        if *leading_separator { 1 } else { 0 }
      ),
      hooks::PlainChange::Delete(a) => format!("D@{p}[{a}]"),
      hooks::PlainChange::Replace(a, b) => format!("R@{p}[{a}>{b}]"),
    })
    .collect::<Vec<_>>()
    .join(";")
}

fn mod_ref(heap: &mut Heap, dotted: &str) -> ModuleReference {
  heap.alloc_module_reference_from_string_vec(dotted.split('.').map(|s| s.to_string()).collect())
}

fn loc_str(l: &Location) -> String {
  format!("{}:{}-{}:{}", l.start.0, l.start.1, l.end.0, l.end.1)
}

fn show_edits(edits: &[(Location, String)]) -> String {
  if edits.is_empty() {
    return "-".to_string();
  }
  edits
    .iter()
    .map(|(l, t)| format!("{}={}", loc_str(l), hex(t.as_bytes())))
    .collect::<Vec<_>>()
    .join(",")
}

fn show_errors(heap: &Heap, errors: &[CompileTimeError], sources: &HashMap<ModuleReference, String>) -> String {
  if errors.is_empty() {
    return "-".to_string();
  }
  let mut out: Vec<String> = errors
    .iter()
    .map(|e| {
      let kind = match &e.detail {
        ErrorDetail::InvalidSyntax(_) => "S".to_string(),
        // name + the module in which the class was looked up (the document itself, or the module
        // an import of the document names)
        ErrorDetail::CannotResolveClass { module_reference, name } => {
          format!(
            "U:{}:{}",
            hex(name.as_str(heap).as_bytes()),
            hex(module_reference.pretty_print(heap).as_bytes())
          )
        }
        _ => "O".to_string(),
      };
      let msg = e.to_ide_format(heap, sources).ide_error;
      format!("{kind}@{}@{}", loc_str(&e.location), hex(msg.as_bytes()))
    })
    .collect();
  out.sort();
  out.join(",")
}

/// Summary of a text as a samlang module, parsed on its own heap: syntax-error count, import list
/// (module + members, in order), each toplevel pretty-printed on its own, all comment texts.
fn summarize(text: &str) -> String {
  let mut heap = Heap::new();
  let mut errors = ErrorSet::new();
  let m = samlang_parser::parse_source_module_from_text(
    text,
    ModuleReference::DUMMY,
    &mut heap,
    &mut errors,
  );
  let nsyn = errors.errors().iter().filter(|e| e.is_syntax_error()).count();
  let imports: Vec<String> = m
    .imports
    .iter()
    .map(|i| {
      format!(
        "{}:{}",
        i.imported_module.pretty_print(&heap),
        i.imported_members.iter().map(|id| id.name.as_str(&heap).to_string()).collect::<Vec<_>>().join("+")
      )
    })
    .collect();
  let tops: Vec<String> = m
    .toplevels
    .iter()
    .map(|t| hex(samlang_printer::pretty_print_toplevel(&heap, 100, &m.comment_store, t).as_bytes()))
    .collect();
  let mut comments: Vec<String> = m
    .comment_store
    .all_comments()
    .iter()
    .flat_map(|n| n.iter())
    .map(|c| hex(c.text.as_str(&heap).as_bytes()))
    .collect();
  comments.sort();
  format!(
    "syn={} imports={} tops={} comments={}",
    nsyn,
    if imports.is_empty() { "-".to_string() } else { imports.join(",") },
    if tops.is_empty() { "-".to_string() } else { tops.join(",") },
    if comments.is_empty() { "-".to_string() } else { comments.join(",") }
  )
}

fn main() {
  std::panic::set_hook(Box::new(|_| {}));
  let mut pending: Vec<(String, String)> = Vec::new();
  let mut state: Option<ServerState> = None;
  for_each_line(|line| {
    let t: Vec<&str> = line.split(' ').collect();
    let r = catch_unwind(AssertUnwindSafe(|| -> String {
      match t[0] {
        "diff" => {
          let (old, new) = (parse_list(t[1]), parse_list(t[2]));
          show_script(&hooks::list_diff(&old, &new))
        }
        "new" => {
          pending.clear();
          state = None;
          "ok".to_string()
        }
        "src" => {
          pending.push((t[1].to_string(), unhex_str(t[2])));
          "ok".to_string()
        }
        "init" => {
          let mut heap = Heap::new();
          let sources: HashMap<ModuleReference, String> =
            pending.iter().map(|(m, s)| (mod_ref(&mut heap, m), s.clone())).collect();
          state = Some(ServerState::new(heap, false, sources));
          "ok".to_string()
        }
        "upd" => {
          let st = state.as_mut().unwrap();
          let m = mod_ref(&mut st.heap, t[1]);
          st.update(vec![(m, unhex_str(t[2]))]);
          "ok".to_string()
        }
        "rm" => {
          let st = state.as_mut().unwrap();
          let m = mod_ref(&mut st.heap, t[1]);
          st.remove(&[m]);
          "ok".to_string()
        }
        "mv" => {
          let st = state.as_mut().unwrap();
          let a = mod_ref(&mut st.heap, t[1]);
          let b = mod_ref(&mut st.heap, t[2]);
          st.rename_module(vec![(a, b)]);
          "ok".to_string()
        }
        // current text of a module as the server holds it
        "text" => {
          let st = state.as_mut().unwrap();
          let m = mod_ref(&mut st.heap, t[1]);
          match st.string_sources.get(&m) {
            Some(s) => format!("t:{}", hex(s.as_bytes())),
            None => "none".to_string(),
          }
        }
        "errs" => {
          let st = state.as_mut().unwrap();
          let m = mod_ref(&mut st.heap, t[1]);
          show_errors(&st.heap, st.get_errors(&m), &st.string_sources)
        }
        // quick-fix code actions for a range
        "qa" => {
          let st = state.as_mut().unwrap();
          let m = mod_ref(&mut st.heap, t[1]);
          let p: Vec<u32> = t[2..6].iter().map(|x| x.parse().unwrap()).collect();
          let loc = Location { module_reference: m, start: Position(p[0], p[1]), end: Position(p[2], p[3]) };
          let actions = rewrite::code_actions(st, loc);
          if actions.is_empty() {
            return "-".to_string();
          }
          actions
            .iter()
            .map(|a| match a {
              rewrite::CodeAction::Quickfix { title, edits } => {
                format!("{}|{}", hex(title.as_bytes()), show_edits(edits))
              }
            })
            .collect::<Vec<_>>()
            .join(";")
        }
        // completion items that carry additional edits
        "qc" => {
          let st = state.as_mut().unwrap();
          let m = mod_ref(&mut st.heap, t[1]);
          let pos = Position(t[2].parse().unwrap(), t[3].parse().unwrap());
          let items = completion::auto_complete(st, &m, pos);
          let total = items.len();
          let with: Vec<String> = items
            .iter()
            .filter(|i| !i.additional_edits.is_empty())
            .map(|i| {
              format!(
                "{}|{}|{}",
                hex(i.label.as_bytes()),
                hex(i.detail.as_bytes()),
                show_edits(&i.additional_edits)
              )
            })
            .collect();
          // labels of the items that carry no additional edit
          let without: Vec<String> = items
            .iter()
            .filter(|i| i.additional_edits.is_empty())
            .map(|i| hex(i.label.as_bytes()))
            .collect();
          format!(
            "n={} {} plain={}",
            total,
            if with.is_empty() { "-".to_string() } else { with.join(";") },
            if without.is_empty() { "-".to_string() } else { without.join(",") }
          )
        }
        // fresh analysis of the workspace with one module's text replaced: errors of that module
        // + structural summary of the text
        "eval" => {
          let st = state.as_ref().unwrap();
          let text = unhex_str(t[2]);
          let mut heap = Heap::new();
          let mut sources: HashMap<ModuleReference, String> = HashMap::new();
          let target = mod_ref(&mut heap, t[1]);
          for (m, s) in st.string_sources.iter() {
            let name = m.pretty_print(&st.heap);
            let m2 = mod_ref(&mut heap, &name);
            sources.insert(m2, s.clone());
          }
          sources.insert(target, text.clone());
          let fresh = ServerState::new(heap, false, sources);
          format!(
            "errs={} {}",
            show_errors(&fresh.heap, fresh.get_errors(&target), &fresh.string_sources),
            summarize(&text)
          )
        }
        // go-to-definition targets of a list of positions, on a fresh server of the workspace with one
        // module's text replaced: `defs <mod> <hextext> <l:c,l:c,...>` -> per position `module@hex(first
        // 40 bytes of the target)` or `-`
        "defs" => {
          let st = state.as_ref().unwrap();
          let text = unhex_str(t[2]);
          let mut heap = Heap::new();
          let mut sources: HashMap<ModuleReference, String> = HashMap::new();
          let target = mod_ref(&mut heap, t[1]);
          for (m, s) in st.string_sources.iter() {
            let name = m.pretty_print(&st.heap);
            let m2 = mod_ref(&mut heap, &name);
            sources.insert(m2, s.clone());
          }
          sources.insert(target, text);
          let fresh = ServerState::new(heap, false, sources);
          if t[3] == "-" {
            return "-".to_string();
          }
          t[3]
            .split(',')
            .map(|p| {
              let (l, c) = p.split_once(':').unwrap();
              let pos = Position(l.parse().unwrap(), c.parse().unwrap());
              let r = catch_unwind(AssertUnwindSafe(|| {
                samlang_services::query::definition_location(&fresh, &target, pos)
              }));
              match r {
                Ok(Some(loc)) => {
                  let src = fresh.string_sources.get(&loc.module_reference).cloned().unwrap_or_default();
                  let line = src.split('\n').nth(loc.start.0 as usize).unwrap_or("");
                  let from = (loc.start.1 as usize).min(line.len());
                  let snippet: String = line.as_bytes()[from..].iter().take(40).map(|b| *b as char).collect();
                  format!("{}@{}", loc.module_reference.pretty_print(&fresh.heap), hex(snippet.as_bytes()))
                }
                Ok(None) => "-".to_string(),
                Err(_) => "panic".to_string(),
              }
            })
            .collect::<Vec<_>>()
            .join(",")
        }
        // module diff between two texts (old -> new), edits positioned in the old text
        "mdiff" => {
          let (a, b) = (unhex_str(t[1]), unhex_str(t[2]));
          let mut heap = Heap::new();
          let mut es = ErrorSet::new();
          let old = samlang_parser::parse_source_module_from_text(&a, ModuleReference::DUMMY, &mut heap, &mut es);
          let new = samlang_parser::parse_source_module_from_text(&b, ModuleReference::DUMMY, &mut heap, &mut es);
          if es.has_errors() {
            return "skip".to_string();
          }
          show_edits(&hooks::module_diff_edits(&heap, ModuleReference::DUMMY, &old, &new))
        }
        "sum" => summarize(&unhex_str(t[1])),
        // the whole module pretty-printed (text of the full-document edit)
        "pmod" => {
          let text = unhex_str(t[1]);
          let mut heap = Heap::new();
          let mut es = ErrorSet::new();
          let m = samlang_parser::parse_source_module_from_text(&text, ModuleReference::DUMMY, &mut heap, &mut es);
          if es.has_errors() {
            return "skip".to_string();
          }
          hex(samlang_printer::pretty_print_source_module(&heap, 100, &m).as_bytes())
        }
        // locations of the toplevels of a text + each rendered the way `to_edit` renders it
        "tlocs" => {
          let text = unhex_str(t[1]);
          let mut heap = Heap::new();
          let mut es = ErrorSet::new();
          let m = samlang_parser::parse_source_module_from_text(&text, ModuleReference::DUMMY, &mut heap, &mut es);
          if es.has_errors() {
            return "skip".to_string();
          }
          if m.toplevels.is_empty() {
            return "-".to_string();
          }
          m.toplevels
            .iter()
            .map(|tl| {
              let printed = samlang_printer::pretty_print_toplevel(&heap, 100, &m.comment_store, tl);
              format!("{}={}", loc_str(&tl.loc()), hex(printed.trim_end().as_bytes()))
            })
            .collect::<Vec<_>>()
            .join(",")
        }
        // locations of the imports of a text + each import rendered the way `to_edit` renders it
        "ilocs" => {
          let text = unhex_str(t[1]);
          let mut heap = Heap::new();
          let mut es = ErrorSet::new();
          let m = samlang_parser::parse_source_module_from_text(&text, ModuleReference::DUMMY, &mut heap, &mut es);
          if es.has_errors() {
            return "skip".to_string();
          }
          if m.imports.is_empty() {
            return "-".to_string();
          }
          m.imports
            .iter()
            .map(|i| {
              let printed = samlang_printer::pretty_print_import(&heap, 100, &m.comment_store, i);
              format!("{}={}", loc_str(&i.loc), hex(printed.trim_end().as_bytes()))
            })
            .collect::<Vec<_>>()
            .join(",")
        }
        _ => "bad-op".to_string(),
      }
    }));
    match r {
      Ok(s) => s,
      Err(e) => format!("panic:{}", hex(panic_msg(&e).as_bytes())),
    }
  });
}
