//! Harness binary for property C10 (line protocol; see /verif/vlib/BUILDER_GUIDE.md).
fn main() {
  eprintln!("c10: not implemented yet");
  std::process::exit(2);
}
