//! Protocol `lsphist` (C10): drives the real `samlang_services::server_state::ServerState`
//! (crates/samlang-services/src/server_state.rs) through histories of update / rename_module /
//! remove, and evaluates the real checker as a pure function for the model's table.
//!
//! Module names: `[A-Za-z0-9.]+` (dots separate parts), `@` = ModuleReference::ROOT.
//! Lines:
//!   def <cid> <hex>            register a content; answer `imports=<a,b|-> perr=<n>`
//!   new <m>=<cid> ...          ServerState::new on these sources           -> observation
//!   upd <m>=<cid> ...          ServerState::update (one batch)              -> observation
//!   ren <old>:<new> ...        ServerState::rename_module (one batch)       -> observation
//!   rem <m> ...                ServerState::remove (one batch)              -> observation
//!   fresh <m>=<cid> ...        a brand-new ServerState on these sources (does not touch the
//!                              incremental one)                             -> observation
//!   chk <m> <cid> <k>=<m'>~<cid'>|<k>=! ...   type_check_module(m, parse(cid as m), G) with
//!                              G[k] = build_module_signature(m', parse(cid' as m')), or the
//!                              builtin signature for `k=!`                 -> `k:tok,...`
//!   perr <m> <cid>             parse errors of the content parsed as module m -> `tok,...`
//!   graph <m>=<imp,imp|-> ... // <dirty> ...   (hook H5) parses one text per module that imports exactly
//!                              the listed modules, then DependencyGraph::new(parsed).affected_set(dirty)
//!                              -> sorted names `a,b,...` or `-`
//! Observation = `<name>=<bits><tok,tok,...|->/<fullhash>` for every module name mentioned so far in
//! this history (sorted); bits = digit 0..7: 1 = key of parsed_modules (all_modules()), 2 = key of
//! string_sources, 4 = key of checked_modules (hook H5); tok = hash of (location, IDE text,
//! reference locations) of one error; fullhash = hash of the complete `to_ide_format` rendering
//! (with source snippets) of the module's sorted error list.  `panic:<msg>` if the call panicked.
use samlang_checker::type_::GlobalSignature;
use samlang_errors::{CompileTimeError, ErrorSet};
use samlang_heap::{Heap, ModuleReference};
use samlang_services::server_state::ServerState;
use samverif_harness::util::*;
use std::collections::{BTreeSet, HashMap};
use std::panic::{AssertUnwindSafe, catch_unwind};

fn fnv(s: &str) -> u64 {
  let mut h: u64 = 0xcbf29ce484222325;
  for b in s.as_bytes() {
    h ^= *b as u64;
    h = h.wrapping_mul(0x100000001b3);
  }
  h
}

/// Canonicalisation: the list of missing members in `MissingClassMemberDefinitions` comes out of a
/// HashMap iteration (order differs from call to call, also between two fresh servers): every
/// maximal run of lines starting with "- " is sorted.
fn canon(s: &str) -> String {
  let mut out: Vec<&str> = Vec::new();
  let mut run: Vec<&str> = Vec::new();
  for l in s.split('\n') {
    if l.starts_with("- ") {
      run.push(l);
    } else {
      run.sort();
      out.append(&mut run);
      out.push(l);
    }
  }
  run.sort();
  out.append(&mut run);
  out.join("\n")
}

fn mod_of(heap: &mut Heap, name: &str) -> ModuleReference {
  if name == "@" {
    ModuleReference::ROOT
  } else {
    heap.alloc_module_reference_from_string_vec(name.split('.').map(|s| s.to_string()).collect())
  }
}

fn name_of(heap: &Heap, m: &ModuleReference) -> String {
  if *m == ModuleReference::ROOT { "@".to_string() } else { m.pretty_print(heap) }
}

/// Structural token of one error: location, IDE message, reference locations (no source snippets).
fn struct_text(
  e: &CompileTimeError,
  heap: &Heap,
  sources: &HashMap<ModuleReference, String>,
) -> String {
  let f = e.to_ide_format(heap, sources);
  let refs: Vec<String> = f.reference_locs.iter().map(|l| l.pretty_print(heap)).collect();
  format!("{}|{}|{}", f.location.pretty_print(heap), canon(&f.ide_error), refs.join(";"))
}

fn tok(s: &str) -> String {
  format!("{:012x}", fnv(s) & 0xffff_ffff_ffff)
}

struct Sess {
  state: Option<ServerState>,
  names: BTreeSet<String>,
}

/// Hypothesis `NamesStable` (Model/Incremental.lean `EChecker`), dynamically: every heap string the retained state
/// holds (parsed modules, checked modules, global signatures; C11's generated exhaustive walker) is still readable,
/// and interning its text again gives the SAME handle.  Side-effect free unless the hypothesis is already broken.
fn names_stable(st: &mut ServerState) -> String {
  use samlang_services::verif_hooks_c11 as hk;
  use samverif_harness::walk::Walk;
  let mut all = Vec::new();
  for m in hk::parsed_modules(st).values() {
    m.walk(&mut all);
  }
  for m in hk::checked_modules(st).values() {
    m.walk(&mut all);
  }
  hk::global_cx(st).walk(&mut all);
  let mut seen = std::collections::HashSet::new();
  let (mut n, mut dead, mut moved, mut example) = (0usize, 0usize, 0usize, String::new());
  for p in all {
    if samlang_heap::verif_hooks::pstr_repr(p).is_ok() || !seen.insert(p) {
      continue; // inline strings are values
    }
    n += 1;
    match catch_unwind(AssertUnwindSafe(|| p.as_str(&st.heap).to_string())) {
      Err(_) => {
        dead += 1;
        if example.is_empty() {
          example = format!("{p:?}");
        }
      }
      Ok(text) => {
        if st.heap.alloc_string(text.clone()) != p {
          moved += 1;
          if example.is_empty() {
            example = text;
          }
        }
      }
    }
  }
  if dead == 0 && moved == 0 {
    format!("#names=ok:{n}")
  } else {
    format!("#names=BAD:{n}:dead{dead}:moved{moved}:{}", hex(example.as_bytes()))
  }
}

/// The STORED dependency graph (hook `ServerState::verif_dep_graph_edges`): `#graph=<m>><imp>,<imp>;...` for the
/// forward map, or `#graph=BADREV:…` if the reverse map is not the inverse of the forward map.
fn graph_dump(st: &ServerState) -> String {
  let (fwd, rev) = st.verif_dep_graph_edges();
  let mut f: Vec<(String, Vec<String>)> = fwd
    .iter()
    .map(|(m, es)| {
      let mut v: Vec<String> = es.iter().map(|e| name_of(&st.heap, e)).collect();
      v.sort();
      (name_of(&st.heap, m), v)
    })
    .collect();
  f.sort();
  let mut inv: BTreeSet<(String, String)> = BTreeSet::new();
  for (m, es) in &f {
    for e in es {
      inv.insert((e.clone(), m.clone()));
    }
  }
  let mut r: BTreeSet<(String, String)> = BTreeSet::new();
  for (x, ms) in &rev {
    for m in ms {
      r.insert((name_of(&st.heap, x), name_of(&st.heap, m)));
    }
  }
  if r != inv {
    return format!("#graph=BADREV:{}", r.symmetric_difference(&inv).count());
  }
  let body: Vec<String> = f
    .iter()
    .map(|(m, es)| format!("{}>{}", m, if es.is_empty() { "-".to_string() } else { es.join(",") }))
    .collect();
  format!("#graph={}", if body.is_empty() { "-".to_string() } else { body.join(";") })
}

fn observe(st: &ServerState, names: &BTreeSet<String>, verbose: bool) -> String {
  let mut present: HashMap<String, ModuleReference> = HashMap::new();
  for m in st.all_modules() {
    present.insert(name_of(&st.heap, m), *m);
  }
  let checked: std::collections::HashSet<ModuleReference> =
    samlang_services::verif_hooks_c10::module_maps(st).1.into_iter().collect();
  let mut all: BTreeSet<String> = names.clone();
  all.extend(present.keys().cloned());
  let mut parts = Vec::new();
  for n in &all {
    let m = if n == "@" {
      Some(ModuleReference::ROOT)
    } else {
      st.heap.get_allocated_module_reference_opt(n.split('.').map(|s| s.to_string()).collect())
    };
    let errs: &[CompileTimeError] = match &m {
      Some(m) => st.get_errors(m),
      None => &[],
    };
    let mut toks: Vec<String> = Vec::new();
    let mut fulls: Vec<String> = Vec::new();
    for e in errs {
      let f = e.to_ide_format(&st.heap, &st.string_sources);
      let s = struct_text(e, &st.heap, &st.string_sources);
      fulls.push(format!("{}\n{}", s, canon(&f.full_error)));
      toks.push(if verbose { hex(s.as_bytes()) } else { tok(&s) });
    }
    toks.sort();
    toks.dedup();
    fulls.sort();
    fulls.dedup();
    let mut bits = 0u8;
    if present.contains_key(n) {
      bits |= 1;
    }
    if let Some(m) = &m {
      if st.string_sources.contains_key(m) {
        bits |= 2;
      }
      if checked.contains(m) {
        bits |= 4;
      }
    }
    let flag = (b'0' + bits) as char;
    parts.push(format!(
      "{}={}{}/{:012x}",
      n,
      flag,
      if toks.is_empty() { "-".to_string() } else { toks.join(",") },
      fnv(&fulls.join("\u{1}")) & 0xffff_ffff_ffff
    ));
  }
  parts.join(" ")
}

fn main() {
  std::panic::set_hook(Box::new(|_| {}));
  let verbose = std::env::args().any(|a| a == "-v");
  let mut contents: HashMap<String, String> = HashMap::new();
  let mut sess = Sess { state: None, names: BTreeSet::new() };
  for_each_line(|line| {
    let t: Vec<&str> = line.split(' ').collect();
    let get = |cid: &str| contents.get(cid).cloned().unwrap_or_default();
    match t[0] {
      "def" => {
        let text = unhex_str(t[2]);
        let mut heap = Heap::new();
        let m = mod_of(&mut heap, "Zz");
        let mut es = ErrorSet::new();
        let r = catch_unwind(AssertUnwindSafe(|| {
          samlang_parser::parse_source_module_from_text(&text, m, &mut heap, &mut es)
        }));
        contents.insert(t[1].to_string(), text);
        match r {
          Ok(parsed) => {
            let imps: Vec<String> =
              parsed.imports.iter().map(|i| name_of(&heap, &i.imported_module)).collect();
            format!(
              "imports={} perr={}",
              if imps.is_empty() { "-".to_string() } else { imps.join(",") },
              es.errors().len()
            )
          }
          Err(e) => format!("panic:{}", hex(panic_msg(&e).as_bytes())),
        }
      }
      "new" | "fresh" => {
        let mut heap = Heap::new();
        let mut srcs = HashMap::new();
        let mut names = BTreeSet::new();
        for kv in &t[1..] {
          let (n, cid) = kv.split_once('=').unwrap();
          names.insert(n.to_string());
          srcs.insert(mod_of(&mut heap, n), get(cid));
        }
        match catch_unwind(AssertUnwindSafe(|| ServerState::new(heap, false, srcs))) {
          Ok(st) => {
            if t[0] == "new" {
              sess.names = names;
              let mut st = st;
              let o = observe(&st, &sess.names, verbose);
              let ns = catch_unwind(AssertUnwindSafe(|| names_stable(&mut st)))
                .unwrap_or_else(|_| "#names=BAD:0:panic".to_string());
              let g = graph_dump(&st);
              sess.state = Some(st);
              format!("{o} {ns} {g}")
            } else {
              let mut ns = sess.names.clone();
              ns.extend(names);
              catch_unwind(AssertUnwindSafe(|| observe(&st, &ns, verbose)))
                .unwrap_or_else(|e| format!("panic:{}", hex(panic_msg(&e).as_bytes())))
            }
          }
          Err(e) => format!("panic:{}", hex(panic_msg(&e).as_bytes())),
        }
      }
      "upd" | "ren" | "rem" => {
        let Some(st) = sess.state.as_mut() else { return "no-state".to_string() };
        let names = &mut sess.names;
        let r = catch_unwind(AssertUnwindSafe(|| match t[0] {
          "upd" => {
            let mut ups = Vec::new();
            for kv in &t[1..] {
              let (n, cid) = kv.split_once('=').unwrap();
              names.insert(n.to_string());
              ups.push((mod_of(&mut st.heap, n), get(cid)));
            }
            st.update(ups);
            String::new()
          }
          "ren" => {
            let mut rs = Vec::new();
            for kv in &t[1..] {
              let (a, b) = kv.split_once(':').unwrap();
              names.insert(a.to_string());
              names.insert(b.to_string());
              let ma = mod_of(&mut st.heap, a);
              let mb = mod_of(&mut st.heap, b);
              rs.push((ma, mb));
            }
            st.rename_module(rs);
            String::new()
          }
          "rem" => {
            let mut ms = Vec::new();
            for n in &t[1..] {
              names.insert(n.to_string());
              ms.push(mod_of(&mut st.heap, n));
            }
            st.remove(&ms);
            String::new()
          }
          _ => String::new(),
        }));
        match r {
          Ok(_) => catch_unwind(AssertUnwindSafe(|| {
            let o = observe(st, names, verbose);
            format!("{o} {} {}", names_stable(st), graph_dump(st))
          }))
          .unwrap_or_else(|e| format!("panic:{}", hex(panic_msg(&e).as_bytes()))),
          Err(e) => {
            // a panicked ServerState is not used any further
            sess.state = None;
            format!("panic:{}", hex(panic_msg(&e).as_bytes()))
          }
        }
      }
      "graph" => {
        let r = catch_unwind(AssertUnwindSafe(|| {
          let mut heap = Heap::new();
          let sep = t.iter().position(|x| *x == "//").unwrap_or(t.len());
          let mut parsed = HashMap::new();
          for kv in &t[1..sep] {
            let (n, imps) = kv.split_once('=').unwrap();
            let m = mod_of(&mut heap, n);
            let text: String = if imps == "-" {
              String::new()
            } else {
              imps.split(',').map(|i| format!("import {{ X }} from {i}\n")).collect()
            };
            let mut es = ErrorSet::new();
            parsed.insert(
              m,
              samlang_parser::parse_source_module_from_text(&text, m, &mut heap, &mut es),
            );
          }
          let dirty: Vec<ModuleReference> =
            t[(sep + 1).min(t.len())..].iter().map(|n| mod_of(&mut heap, n)).collect();
          let mut out: Vec<String> = samlang_services::verif_hooks_c10::affected_set(&parsed, dirty)
            .iter()
            .map(|m| name_of(&heap, m))
            .collect();
          out.sort();
          if out.is_empty() { "-".to_string() } else { out.join(",") }
        }));
        r.unwrap_or_else(|e| format!("panic:{}", hex(panic_msg(&e).as_bytes())))
      }
      "perr" => {
        let mut heap = Heap::new();
        let m = mod_of(&mut heap, t[1]);
        let text = get(t[2]);
        let mut es = ErrorSet::new();
        let r = catch_unwind(AssertUnwindSafe(|| {
          samlang_parser::parse_source_module_from_text(&text, m, &mut heap, &mut es);
        }));
        if r.is_err() {
          return "panic".to_string();
        }
        let srcs = HashMap::from([(m, text)]);
        let mut toks: Vec<String> = es
          .errors()
          .iter()
          .map(|e| {
            let s = struct_text(e, &heap, &srcs);
            if verbose { hex(s.as_bytes()) } else { tok(&s) }
          })
          .collect();
        toks.sort();
        toks.dedup();
        if toks.is_empty() { "-".to_string() } else { toks.join(",") }
      }
      "chk" => {
        let r = catch_unwind(AssertUnwindSafe(|| {
          let mut heap = Heap::new();
          let m = mod_of(&mut heap, t[1]);
          let text = get(t[2]);
          let mut scratch = ErrorSet::new();
          let parsed =
            samlang_parser::parse_source_module_from_text(&text, m, &mut heap, &mut scratch);
          let mut g: GlobalSignature = HashMap::new();
          let mut srcs = HashMap::from([(m, text)]);
          for kv in &t[3..] {
            let (k, v) = kv.split_once('=').unwrap();
            let km = mod_of(&mut heap, k);
            if v == "!" {
              g.insert(km, samlang_checker::type_::create_builtin_module_signature());
              continue;
            }
            let (m2, c2) = v.split_once('~').unwrap();
            let mm = mod_of(&mut heap, m2);
            let text2 = get(c2);
            let mut scratch2 = ErrorSet::new();
            let p2 =
              samlang_parser::parse_source_module_from_text(&text2, mm, &mut heap, &mut scratch2);
            g.insert(km, samlang_checker::build_module_signature(mm, &p2));
            srcs.entry(km).or_insert(text2);
          }
          let mut es = ErrorSet::new();
          samlang_checker::type_check_module(m, &parsed, &g, &mut es);
          let mut toks: Vec<String> = es
            .errors()
            .iter()
            .map(|e| {
              let s = struct_text(e, &heap, &srcs);
              format!(
                "{}:{}{}",
                name_of(&heap, &e.location.module_reference),
                if e.is_syntax_error() { "SYN" } else { "" },
                if verbose { hex(s.as_bytes()) } else { tok(&s) }
              )
            })
            .collect();
          toks.sort();
          toks.dedup();
          if toks.is_empty() { "-".to_string() } else { toks.join(",") }
        }));
        r.unwrap_or_else(|e| format!("panic:{}", hex(panic_msg(&e).as_bytes())))
      }
      other => format!("bad-op {other}"),
    }
  });
}

