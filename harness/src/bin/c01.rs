//! Harness binary for property C01 (line protocol; see /verif/vlib/BUILDER_GUIDE.md).
fn main() {
  eprintln!("c01: not implemented yet");
  std::process::exit(2);
}
