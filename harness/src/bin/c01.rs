//! Harness binary for property C01 (compiled code behaves as the source semantics prescribe).
//!
//! Protocols (answers compared line by line with lean/Driver/C01.lean):
//!   layout HEX(source of module Test)   real parser + checker + HIR lowering + generics
//!       specialisation (hook H2); answer: every specialised type definition `_Test_*`,
//!       sorted by encoded name: `name=S<n>` (struct) or `name=E:I,U(name),B<n>` (enum layout)
//!   tailrec | a,b;c,d | <MIR text>      real mir_tail_recursion_rewrite on every function
//!   cpe     | a,b;c,d | <MIR text>      real mir_constant_param_elimination::rewrite_sources
//!       answer: `prog <canonical text of the rewritten program> || <oracle>` where the oracle
//!       part (independent of the Lean model) runs a MIR interpreter before and after the pass
//!       (after: `While` assigns its loop variables sequentially, like wasm_lowering.rs:425-441).
//! The MIR text format, its parser and the interpreter were first written for harness/src/bin/c02.rs.
#![allow(dead_code)]
use samlang_ast::hir::BinaryOperator as B;
use samlang_ast::mir::*;
use samlang_heap::{Heap, PStr};
use samverif_harness::util::*;
use std::collections::HashMap;
use std::panic::{AssertUnwindSafe, catch_unwind};

fn op_of(s: &str) -> Option<B> {
  Some(match s {
    "mul" => B::MUL,
    "div" => B::DIV,
    "mod" => B::MOD,
    "add" => B::PLUS,
    "sub" => B::MINUS,
    "and" => B::LAND,
    "or" => B::LOR,
    "shl" => B::SHL,
    "shr" => B::SHR,
    "xor" => B::XOR,
    "lt" => B::LT,
    "le" => B::LE,
    "gt" => B::GT,
    "ge" => B::GE,
    "eq" => B::EQ,
    "ne" => B::NE,
    _ => return None,
  })
}

fn op_name(o: B) -> &'static str {
  match o {
    B::MUL => "mul",
    B::DIV => "div",
    B::MOD => "mod",
    B::PLUS => "add",
    B::MINUS => "sub",
    B::LAND => "and",
    B::LOR => "or",
    B::SHL => "shl",
    B::SHR => "shr",
    B::XOR => "xor",
    B::LT => "lt",
    B::LE => "le",
    B::GT => "gt",
    B::GE => "ge",
    B::EQ => "eq",
    B::NE => "ne",
  }
}

fn name(heap: &mut Heap, s: &str) -> PStr {
  heap.alloc_string(s.to_string())
}

fn var(heap: &mut Heap, s: &str) -> Expression {
  Expression::var_name(name(heap, s), INT_32_TYPE)
}

/// `i<n>` Int32Literal, `j<n>` Int31Literal, `s<k>` StringName, `v<k>` Variable.
// ---------------------------------------------------------------------------------------------
// Program text -> MIR
// ---------------------------------------------------------------------------------------------

struct Parser<'a> {
  toks: Vec<&'a str>,
  pos: usize,
}

type PResult<T> = Result<T, String>;

impl<'a> Parser<'a> {
  fn next(&mut self) -> PResult<&'a str> {
    let t = self.toks.get(self.pos).copied().ok_or_else(|| "unexpected end".to_string())?;
    self.pos += 1;
    Ok(t)
  }
  fn peek(&self) -> Option<&'a str> {
    self.toks.get(self.pos).copied()
  }
  fn expect(&mut self, s: &str) -> PResult<()> {
    let t = self.next()?;
    if t == s { Ok(()) } else { Err(format!("expected {s} got {t}")) }
  }
  fn num(&mut self) -> PResult<usize> {
    self.next()?.parse::<usize>().map_err(|e| e.to_string())
  }
  fn expr(&mut self, heap: &mut Heap) -> PResult<Expression> {
    let t = self.next()?;
    let c = t.chars().next().unwrap();
    if c == '-' || c.is_ascii_digit() {
      Ok(Expression::Int32Literal(t.parse::<i32>().map_err(|e| e.to_string())?))
    } else if c == 'j' && t.len() > 1 && t[1..].parse::<i32>().is_ok() {
      Ok(Expression::Int31Literal(t[1..].parse::<i32>().unwrap()))
    } else {
      Ok(var(heap, t))
    }
  }
  fn block(&mut self, heap: &mut Heap) -> PResult<Vec<Statement>> {
    self.expect("{")?;
    let s = self.stmts(heap)?;
    self.expect("}")?;
    Ok(s)
  }
  fn stmts(&mut self, heap: &mut Heap) -> PResult<Vec<Statement>> {
    let mut out = Vec::new();
    loop {
      match self.peek() {
        None | Some("}") | Some("ret") => return Ok(out),
        _ => out.push(self.stmt(heap)?),
      }
    }
  }
  fn opt_name(&mut self, heap: &mut Heap) -> PResult<Option<PStr>> {
    let t = self.next()?;
    Ok(if t == "_" { None } else { Some(name(heap, t)) })
  }
  fn stmt(&mut self, heap: &mut Heap) -> PResult<Statement> {
    let k = self.next()?;
    Ok(match k {
      "bin" => {
        let n = self.next()?;
        let n = name(heap, n);
        let o = self.next()?;
        let operator = op_of(o).ok_or_else(|| format!("bad op {o}"))?;
        let e1 = self.expr(heap)?;
        let e2 = self.expr(heap)?;
        Statement::Binary(Binary { name: n, operator, e1, e2 })
      }
      "not" => {
        let n = self.next()?;
        Statement::Not { name: name(heap, n), operand: self.expr(heap)? }
      }
      "cast" => {
        let n = self.next()?;
        Statement::Cast { name: name(heap, n), type_: INT_32_TYPE, assigned_expression: self.expr(heap)? }
      }
      "call" => {
        let f = self.next()?;
        let n = self.num()?;
        let mut arguments = Vec::new();
        for _ in 0..n {
          arguments.push(self.expr(heap)?);
        }
        let return_collector = self.opt_name(heap)?;
        Statement::Call {
          callee: Callee::FunctionName(FunctionNameExpression {
            name: FunctionName { type_name: TypeNameId::EMPTY, fn_name: name(heap, f) },
            type_: Type::new_fn_unwrapped(vec![INT_32_TYPE; n], INT_32_TYPE),
          }),
          arguments,
          return_type: INT_32_TYPE,
          return_collector,
        }
      }
      "if" => {
        let condition = self.expr(heap)?;
        let s1 = self.block(heap)?;
        let s2 = self.block(heap)?;
        let n = self.num()?;
        let mut final_assignments = Vec::new();
        for _ in 0..n {
          let nm = self.next()?;
          let nm = name(heap, nm);
          let e1 = self.expr(heap)?;
          let e2 = self.expr(heap)?;
          final_assignments.push(IfElseFinalAssignment { name: nm, type_: INT_32_TYPE, e1, e2 });
        }
        Statement::IfElse { condition, s1, s2, final_assignments }
      }
      "sif" => {
        let condition = self.expr(heap)?;
        let invert_condition = self.num()? != 0;
        let statements = self.block(heap)?;
        Statement::SingleIf { condition, invert_condition, statements }
      }
      "brk" => Statement::Break(self.expr(heap)?),
      "while" => {
        let n = self.num()?;
        let mut loop_variables = Vec::new();
        for _ in 0..n {
          let nm = self.next()?;
          let nm = name(heap, nm);
          let initial_value = self.expr(heap)?;
          let loop_value = self.expr(heap)?;
          loop_variables.push(GenenalLoopVariable { name: nm, type_: INT_32_TYPE, initial_value, loop_value });
        }
        let statements = self.block(heap)?;
        let break_collector = self.opt_name(heap)?.map(|n| VariableName { name: n, type_: INT_32_TYPE });
        Statement::While { loop_variables, statements, break_collector }
      }
      other => return Err(format!("bad statement {other}")),
    })
  }
  fn function(&mut self, heap: &mut Heap) -> PResult<Function> {
    self.expect("fn")?;
    let f = self.next()?;
    let n = self.num()?;
    let parameters = (0..n).map(|i| name(heap, &format!("p{i}"))).collect();
    let body = self.stmts(heap)?;
    self.expect("ret")?;
    let return_value = self.expr(heap)?;
    self.expect("end")?;
    Ok(Function {
      name: FunctionName { type_name: TypeNameId::EMPTY, fn_name: name(heap, f) },
      parameters,
      type_: Type::new_fn_unwrapped(vec![INT_32_TYPE; n], INT_32_TYPE),
      body,
      return_value,
    })
  }
}

fn parse_program(heap: &mut Heap, text: &str) -> PResult<Vec<Function>> {
  let mut p = Parser { toks: text.split_whitespace().collect(), pos: 0 };
  let mut fs = Vec::new();
  while p.peek().is_some() {
    fs.push(p.function(heap)?);
  }
  if fs.is_empty() { Err("no function".to_string()) } else { Ok(fs) }
}

// ---------------------------------------------------------------------------------------------
// MIR interpreter: the target's semantics (wasm i32 ops, traps), prints as the observable trace
// ---------------------------------------------------------------------------------------------

#[derive(Debug, Clone, PartialEq, Eq)]
enum Stop {
  Trap(String),
  Timeout,
  Bad(String),
}

enum Flow {
  Next,
  Break(i32),
}

struct Machine<'a> {
  /// true: loop variables are assigned one after the other, in declaration order, each reading
  /// the current values (what wasm_lowering.rs:425-441 and the TS printer emit) unless a loop value
  /// is another loop variable, in which case LIR lowering snapshots all values first (c8954cc);
  /// false: all loop values are read first (parallel assignment).
  seq_loop: bool,
  heap: &'a Heap,
  functions: &'a [Function],
  lines: Vec<String>,
  steps: u64,
  limit: u64,
}

fn target_binary(op: B, a: i32, b: i32) -> Result<i32, Stop> {
  Ok(match op {
    B::MUL => a.wrapping_mul(b),
    B::DIV => {
      if b == 0 {
        return Err(Stop::Trap(format!("div0:{a}")));
      }
      if a == i32::MIN && b == -1 {
        return Err(Stop::Trap("divovf".to_string()));
      }
      a / b
    }
    B::MOD => {
      if b == 0 {
        return Err(Stop::Trap(format!("rem0:{a}")));
      }
      a.wrapping_rem(b)
    }
    B::PLUS => a.wrapping_add(b),
    B::MINUS => a.wrapping_sub(b),
    B::LAND => a & b,
    B::LOR => a | b,
    B::SHL => a.wrapping_shl(b as u32),
    B::SHR => ((a as u32).wrapping_shr(b as u32)) as i32,
    B::XOR => a ^ b,
    B::LT => (a < b) as i32,
    B::LE => (a <= b) as i32,
    B::GT => (a > b) as i32,
    B::GE => (a >= b) as i32,
    B::EQ => (a == b) as i32,
    B::NE => (a != b) as i32,
  })
}

impl<'a> Machine<'a> {
  fn eval(&self, env: &HashMap<PStr, i32>, e: &Expression) -> Result<i32, Stop> {
    match e {
      Expression::Int32Literal(n) | Expression::Int31Literal(n) => Ok(*n),
      Expression::StringName(_) => Err(Stop::Bad("string name in int program".into())),
      Expression::Variable(v) => env
        .get(&v.name)
        .copied()
        .ok_or_else(|| Stop::Bad(format!("unbound variable {}", v.name.as_str(self.heap)))),
    }
  }

  fn tick(&mut self) -> Result<(), Stop> {
    self.steps += 1;
    if self.steps > self.limit { Err(Stop::Timeout) } else { Ok(()) }
  }

  fn call(&mut self, f: &FunctionName, args: Vec<i32>, depth: usize) -> Result<i32, Stop> {
    let fname = f.fn_name.as_str(self.heap);
    if f.type_name == TypeNameId::STR && fname == "fromInt" {
      // strings are only ever produced by Str.fromInt and consumed by Process.println in the
      // generated sources: the string is represented by the integer it prints
      return Ok(args.last().copied().unwrap_or(0));
    }
    if f.type_name == TypeNameId::PROCESS && fname == "println" {
      self.lines.push(args.last().copied().unwrap_or(0).to_string());
      return Ok(0);
    }
    if fname == "print" {
      self.lines.push(args.iter().map(|a| a.to_string()).collect::<Vec<_>>().join(" "));
      return Ok(0);
    }
    if depth > 150 {
      return Err(Stop::Timeout);
    }
    let functions = self.functions;
    let func = functions
      .iter()
      .find(|g| g.name == *f)
      .ok_or_else(|| Stop::Bad(format!("unknown function {fname}")))?;
    if func.parameters.len() != args.len() {
      return Err(Stop::Bad(format!("arity mismatch calling {fname}")));
    }
    let mut args = args;
    if depth == 0 {
      // the entry function's own parameters may have been renamed by the pass
      args.truncate(func.parameters.len());
    }
    let mut env: HashMap<PStr, i32> = HashMap::new();
    for (p, a) in func.parameters.iter().zip(args) {
      env.insert(*p, a);
    }
    match self.stmts(&mut env, &func.body, depth)? {
      Flow::Next => {}
      Flow::Break(_) => return Err(Stop::Bad("break outside loop".into())),
    }
    self.eval(&env, &func.return_value)
  }

  fn stmts(&mut self, env: &mut HashMap<PStr, i32>, ss: &[Statement], depth: usize) -> Result<Flow, Stop> {
    for s in ss {
      if let Flow::Break(v) = self.stmt(env, s, depth)? {
        return Ok(Flow::Break(v));
      }
    }
    Ok(Flow::Next)
  }

  fn stmt(&mut self, env: &mut HashMap<PStr, i32>, s: &Statement, depth: usize) -> Result<Flow, Stop> {
    self.tick()?;
    match s {
      Statement::Binary(b) => {
        let a = self.eval(env, &b.e1)?;
        let c = self.eval(env, &b.e2)?;
        env.insert(b.name, target_binary(b.operator, a, c)?);
      }
      Statement::Not { name, operand } => {
        let a = self.eval(env, operand)?;
        env.insert(*name, a ^ 1);
      }
      Statement::Cast { name, type_: _, assigned_expression }
      | Statement::LateInitAssignment { name, assigned_expression } => {
        let a = self.eval(env, assigned_expression)?;
        env.insert(*name, a);
      }
      Statement::LateInitDeclaration { .. } => {}
      Statement::Call { callee, arguments, return_type: _, return_collector } => {
        let mut args = Vec::new();
        for a in arguments {
          args.push(self.eval(env, a)?);
        }
        let r = match callee {
          Callee::FunctionName(f) => self.call(&f.name, args, depth + 1)?,
          Callee::Variable(_) => return Err(Stop::Bad("indirect call".into())),
        };
        if let Some(c) = return_collector {
          env.insert(*c, r);
        }
      }
      Statement::IfElse { condition, s1, s2, final_assignments } => {
        let c = self.eval(env, condition)? != 0;
        if let Flow::Break(v) = self.stmts(env, if c { s1 } else { s2 }, depth)? {
          return Ok(Flow::Break(v));
        }
        let mut vals = Vec::new();
        for fa in final_assignments {
          vals.push(self.eval(env, if c { &fa.e1 } else { &fa.e2 })?);
        }
        for (fa, v) in final_assignments.iter().zip(vals) {
          env.insert(fa.name, v);
        }
      }
      Statement::SingleIf { condition, invert_condition, statements } => {
        let c = (self.eval(env, condition)? != 0) ^ *invert_condition;
        if c {
          if let Flow::Break(v) = self.stmts(env, statements, depth)? {
            return Ok(Flow::Break(v));
          }
        }
      }
      Statement::Break(e) => return Ok(Flow::Break(self.eval(env, e)?)),
      Statement::While { loop_variables, statements, break_collector } => {
        // lir_lowering.rs (fix c8954cc): when a loop value is another loop variable, all new
        // values are first read into fresh temporaries; otherwise the backends assign in order.
        let hazard = loop_variables.iter().any(|v| {
          matches!(&v.loop_value, Expression::Variable(x)
            if x.name != v.name && loop_variables.iter().any(|o| o.name == x.name))
        });
        if self.seq_loop && !hazard {
          for v in loop_variables {
            let x = self.eval(env, &v.initial_value)?;
            env.insert(v.name, x);
          }
          loop {
            self.tick()?;
            if let Flow::Break(v) = self.stmts(env, statements, depth)? {
              if let Some(bc) = break_collector {
                env.insert(bc.name, v);
              }
              break;
            }
            for v in loop_variables {
              let x = self.eval(env, &v.loop_value)?;
              env.insert(v.name, x);
            }
          }
        } else {
          let mut vals = Vec::new();
          for v in loop_variables {
            vals.push(self.eval(env, &v.initial_value)?);
          }
          loop {
            self.tick()?;
            for (v, x) in loop_variables.iter().zip(&vals) {
              env.insert(v.name, *x);
            }
            if let Flow::Break(v) = self.stmts(env, statements, depth)? {
              if let Some(bc) = break_collector {
                env.insert(bc.name, v);
              }
              break;
            }
            vals.clear();
            for v in loop_variables {
              vals.push(self.eval(env, &v.loop_value)?);
            }
          }
        }
      }
      Statement::IsPointer { .. }
      | Statement::IndexedAccess { .. }
      | Statement::StructInit { .. }
      | Statement::ClosureInit { .. } => return Err(Stop::Bad("unsupported statement".into())),
    }
    Ok(Flow::Next)
  }
}

#[derive(Debug, Clone, PartialEq, Eq)]
struct Outcome {
  lines: Vec<String>,
  end: Result<i32, Stop>,
  steps: u64,
}

impl Outcome {
  fn show(&self) -> String {
    let l = if self.lines.is_empty() { "-".to_string() } else { self.lines.join(",").replace(' ', "_") };
    let e = match &self.end {
      Ok(v) => format!("ret:{v}"),
      Err(Stop::Trap(k)) => format!("trap:{k}"),
      Err(Stop::Timeout) => "timeout".to_string(),
      Err(Stop::Bad(m)) => format!("bad:{}", m.replace(' ', "_")),
    };
    format!("{l}|{e}")
  }
}


fn run_entry(heap: &Heap, functions: &[Function], args: &[i32], limit: u64, entry: &str, seq_loop: bool) -> Outcome {
  let mut m = Machine { seq_loop, heap, functions, lines: Vec::new(), steps: 0, limit };
  let main = functions.iter().find(|f| f.name.fn_name.as_str(heap) == entry);
  let end = match main {
    None => Err(Stop::Bad(format!("entry function {entry} disappeared"))),
    Some(f) => {
      let mut a = args.to_vec();
      a.resize(f.parameters.len(), 0);
      m.call(&f.name.clone(), a, 0)
    }
  };
  Outcome { lines: m.lines, end, steps: m.steps }
}

// ---------------------------------------------------------------------------------------------
// Running the real passes
// ---------------------------------------------------------------------------------------------

// ---------------------------------------------------------------------------------------------
// Canonical program text (same grammar as the input; parameters listed by name)
// ---------------------------------------------------------------------------------------------

fn pe(heap: &Heap, e: &Expression) -> String {
  match e {
    Expression::Int32Literal(n) => format!("{n}"),
    Expression::Int31Literal(n) => format!("j{n}"),
    Expression::StringName(p) => format!("str:{}", p.as_str(heap)),
    Expression::Variable(v) => v.name.as_str(heap).to_string(),
  }
}

fn pstmts(heap: &Heap, ss: &[Statement], out: &mut Vec<String>) {
  for s in ss {
    pstmt(heap, s, out);
  }
}

fn pblock(heap: &Heap, ss: &[Statement], out: &mut Vec<String>) {
  out.push("{".into());
  pstmts(heap, ss, out);
  out.push("}".into());
}

fn pstmt(heap: &Heap, s: &Statement, out: &mut Vec<String>) {
  match s {
    Statement::Binary(b) => {
      out.push(format!("bin {} {} {} {}", b.name.as_str(heap), op_name(b.operator), pe(heap, &b.e1), pe(heap, &b.e2)))
    }
    Statement::Not { name, operand } => out.push(format!("not {} {}", name.as_str(heap), pe(heap, operand))),
    Statement::Cast { name, type_: _, assigned_expression } => {
      out.push(format!("cast {} {}", name.as_str(heap), pe(heap, assigned_expression)))
    }
    Statement::Call { callee, arguments, return_type: _, return_collector } => {
      let f = match callee {
        Callee::FunctionName(f) => f.name.fn_name.as_str(heap).to_string(),
        Callee::Variable(v) => format!("var:{}", v.name.as_str(heap)),
      };
      let mut t = format!("call {f} {}", arguments.len());
      for a in arguments {
        t.push(' ');
        t.push_str(&pe(heap, a));
      }
      t.push(' ');
      t.push_str(&return_collector.map(|c| c.as_str(heap).to_string()).unwrap_or("_".into()));
      out.push(t);
    }
    Statement::IfElse { condition, s1, s2, final_assignments } => {
      out.push(format!("if {}", pe(heap, condition)));
      pblock(heap, s1, out);
      pblock(heap, s2, out);
      let mut t = format!("{}", final_assignments.len());
      for fa in final_assignments {
        t.push_str(&format!(" {} {} {}", fa.name.as_str(heap), pe(heap, &fa.e1), pe(heap, &fa.e2)));
      }
      out.push(t);
    }
    Statement::SingleIf { condition, invert_condition, statements } => {
      out.push(format!("sif {} {}", pe(heap, condition), *invert_condition as u8));
      pblock(heap, statements, out);
    }
    Statement::Break(e) => out.push(format!("brk {}", pe(heap, e))),
    Statement::While { loop_variables, statements, break_collector } => {
      let mut t = format!("while {}", loop_variables.len());
      for v in loop_variables {
        t.push_str(&format!(" {} {} {}", v.name.as_str(heap), pe(heap, &v.initial_value), pe(heap, &v.loop_value)));
      }
      out.push(t);
      pblock(heap, statements, out);
      out.push(break_collector.map(|c| c.name.as_str(heap).to_string()).unwrap_or("_".into()));
    }
    _ => out.push("unsupported".into()),
  }
}

fn pfun(heap: &Heap, f: &Function) -> String {
  let mut out = vec![format!("fn {} [", f.name.fn_name.as_str(heap))];
  for p in &f.parameters {
    out.push(p.as_str(heap).to_string());
  }
  out.push("]".into());
  pstmts(heap, &f.body, &mut out);
  out.push(format!("ret {} end", pe(heap, &f.return_value)));
  out.join(" ")
}

fn pprog(heap: &Heap, fs: &[Function]) -> String {
  let mut v: Vec<String> = fs.iter().map(|f| pfun(heap, f)).collect();
  v.sort();
  v.join(" ")
}

fn sources_of(functions: Vec<Function>) -> Sources {
  let main_function_names = functions.iter().take(1).map(|f| f.name).collect();
  Sources {
    symbol_table: SymbolTable::new(),
    global_variables: Vec::new(),
    closure_types: Vec::new(),
    type_definitions: Vec::new(),
    main_function_names,
    functions,
  }
}

fn parse_args(s: &str) -> Vec<Vec<i32>> {
  s.split(';')
    .filter(|t| !t.trim().is_empty())
    .map(|t| t.split(',').filter(|x| !x.trim().is_empty()).map(|x| x.trim().parse::<i32>().unwrap_or(0)).collect())
    .collect()
}

const BEFORE_LIMIT: u64 = 60_000;

/// Oracle: same observable outcome before and after, for every argument vector.
/// Answer: `same|diff … || b/a;b/a;…` (outcome before / after per argument vector).
fn compare_runs(heap: &Heap, before: &[Function], after: &[Function], args: &str) -> String {
  let mut args = parse_args(args);
  if args.is_empty() {
    args.push(Vec::new());
  }
  let (mut timeouts, mut lines, mut compared) = (0, 0, 0);
  let mut first_diff = None;
  let mut per = Vec::new();
  for (i, a) in args.iter().enumerate() {
    let ob = run_entry(heap, before, a, BEFORE_LIMIT, "f0", true);
    if ob.end == Err(Stop::Timeout) {
      timeouts += 1;
      per.push("timeout/-".to_string());
      continue;
    }
    let oa = run_entry(heap, after, a, ob.steps * 20 + 50_000, "f0", true);
    compared += 1;
    lines += ob.lines.len();
    per.push(format!("{}/{}", ob.show(), oa.show()));
    if (ob.lines != oa.lines || ob.end != oa.end) && first_diff.is_none() {
      let a_s = a.iter().map(|x| x.to_string()).collect::<Vec<_>>().join(",");
      first_diff = Some(format!("diff arg={i} args={a_s} before={} after={}", ob.show(), oa.show()));
    }
  }
  let head = first_diff.unwrap_or(format!("same compared={compared} timeouts={timeouts} lines={lines}"));
  format!("{head} || {}", per.join(";"))
}

fn pass_line(pass: &str, rest: &str) -> String {
  let rest = rest.split("##").next().unwrap_or("");
  let parts: Vec<&str> = rest.splitn(3, '|').collect();
  if parts.len() != 3 {
    return "bad-line".to_string();
  }
  let mut heap = Heap::new();
  let before = match parse_program(&mut heap, parts[2]) {
    Ok(f) => f,
    Err(e) => return format!("bad-program {e}"),
  };
  let fs = before.clone();
  let r = catch_unwind(AssertUnwindSafe(|| match pass {
    "tailrec" => fs
      .into_iter()
      .map(|f| samlang_compiler::verif_hooks::tailrec_rewrite(&mut heap, f))
      .collect::<Vec<_>>(),
    _ => samlang_compiler::verif_hooks::eliminate_constant_params(sources_of(fs)).functions,
  }));
  let after = match r {
    Ok(f) => f,
    Err(e) => return format!("panic {}", panic_msg(&e).replace('\n', " ")),
  };
  format!("prog {} || {}", pprog(&heap, &after), compare_runs(&heap, &before, &after, parts[1]))
}

// ---------------------------------------------------------------------------------------------
// layout: the real front end + generics specialisation on a module of class declarations
// ---------------------------------------------------------------------------------------------

fn layout_line(hexsrc: &str) -> String {
  let text = unhex_str(hexsrc);
  let r = catch_unwind(AssertUnwindSafe(|| {
    let mut heap = Heap::new();
    let heap = &mut heap;
    let mut error_set = samlang_errors::ErrorSet::new();
    let mr = heap.alloc_module_reference_from_string_vec(vec!["Test".to_string()]);
    let parsed = samlang_parser::parse_source_module_from_text(&text, mr, heap, &mut error_set);
    let mut parsed_sources = HashMap::new();
    parsed_sources.insert(mr, parsed);
    let checked = samlang_checker::type_check_sources(&parsed_sources, &mut error_set).0;
    if error_set.has_errors() {
      let handles = HashMap::from([(mr, text.to_string())]);
      return format!("errors {}", error_set.pretty_print_error_messages(heap, &handles).replace('\n', " / "));
    }
    let hir = samlang_compiler::verif_hooks::lower_to_hir(heap, &checked);
    let mir = samlang_compiler::verif_hooks::specialize(heap, hir);
    let t = &mir.symbol_table;
    let mut out = Vec::new();
    for d in &mir.type_definitions {
      let n = d.name.encoded_for_test(heap, t);
      if std::env::var("C01_ALL").is_err() && !n.starts_with("Test_") {
        continue;
      }
      let k = match &d.mappings {
        TypeDefinitionMappings::Struct(ts) => format!("S{}", ts.len()),
        TypeDefinitionMappings::Enum(vs) => format!(
          "E:{}",
          vs.iter()
            .map(|v| match v {
              EnumTypeDefinition::Int31 => "I".to_string(),
              EnumTypeDefinition::Unboxed(u) => format!("U({})", u.encoded_for_test(heap, t)),
              EnumTypeDefinition::Boxed(ts) => format!("B{}", ts.len()),
            })
            .collect::<Vec<_>>()
            .join(",")
        ),
      };
      out.push(format!("{n}={k}"));
    }
    out.sort();
    format!("ok {}", out.join(";"))
  }));
  r.unwrap_or_else(|e| format!("panic {}", panic_msg(&e).replace('\n', " ")))
}

// ---------------------------------------------------------------------------------------------
// lirloop: the real MIR -> LIR lowering of a `While` (loop-variable update, fix c8954cc)
// ---------------------------------------------------------------------------------------------

fn lir_e(heap: &Heap, e: &samlang_ast::lir::Expression) -> String {
  use samlang_ast::lir::Expression as E;
  match e {
    E::Int32Literal(n) => format!("{n}"),
    E::Int31Literal(n) => format!("j{n}"),
    E::Variable(n, _) => n.as_str(heap).to_string(),
    _ => "?".to_string(),
  }
}

fn find_while<'a>(ss: &'a [samlang_ast::lir::Statement]) -> Option<&'a samlang_ast::lir::Statement> {
  use samlang_ast::lir::Statement as S;
  for s in ss {
    match s {
      S::While { .. } => return Some(s),
      S::IfElse { s1, s2, .. } => {
        if let Some(w) = find_while(s1).or_else(|| find_while(s2)) {
          return Some(w);
        }
      }
      S::SingleIf { statements, .. } => {
        if let Some(w) = find_while(statements) {
          return Some(w);
        }
      }
      _ => {}
    }
  }
  None
}

/// `lirloop | | <MIR text with one while>`: answer `vars n<-v … | casts t<-e …` (the casts are the
/// `Cast` statements at the end of the lowered loop body).
fn lirloop_line(rest: &str) -> String {
  let rest = rest.split("##").next().unwrap_or("");
  let parts: Vec<&str> = rest.splitn(3, '|').collect();
  if parts.len() != 3 {
    return "bad-line".to_string();
  }
  let mut heap = Heap::new();
  let fs = match parse_program(&mut heap, parts[2]) {
    Ok(f) => f,
    Err(e) => return format!("bad-program {e}"),
  };
  let r = catch_unwind(AssertUnwindSafe(|| samlang_compiler::compile_mir_to_lir(&mut heap, sources_of(fs))));
  let lir = match r {
    Ok(l) => l,
    Err(e) => return format!("panic {}", panic_msg(&e).replace('\n', " ")),
  };
  for f in &lir.functions {
    if let Some(samlang_ast::lir::Statement::While { loop_variables, statements, .. }) = find_while(&f.body) {
      let vars: Vec<String> =
        loop_variables.iter().map(|v| format!("{}<-{}", v.name.as_str(&heap), lir_e(&heap, &v.loop_value))).collect();
      let mut casts = Vec::new();
      for s in statements.iter().rev() {
        if let samlang_ast::lir::Statement::Cast { name, assigned_expression, .. } = s {
          casts.push(format!("{}<-{}", name.as_str(&heap), lir_e(&heap, assigned_expression)));
        } else {
          break;
        }
      }
      casts.reverse();
      return format!("vars {} | casts {}", vars.join(" "), casts.join(" "));
    }
  }
  "no-while".to_string()
}

/// `dataseg HEX(source)`: compile the program with the real compiler and return (hex of) the text of
/// the string literal of `(data $d2 "…")` in the emitted WAT, i.e. the output of `print_byte_vec`.
fn dataseg_line(hexsrc: &str) -> String {
  let text = unhex_str(hexsrc);
  match samverif_harness::exec::compile_program(&[("Main".to_string(), text)], "Main", true) {
    samverif_harness::exec::CompileOutcome::Ok(c) => {
      for l in c.wat.lines() {
        if let Some(rest) = l.trim_start().strip_prefix("(data $d2 \"") {
          if let Some(lit) = rest.strip_suffix("\")") {
            return format!("lit {}", hex(lit.as_bytes()));
          }
        }
      }
      "no-data-segment".to_string()
    }
    samverif_harness::exec::CompileOutcome::Errors(e) => format!("errors {}", e.replace('\n', " / ")),
    samverif_harness::exec::CompileOutcome::Panic(m) => format!("panic {}", m.replace('\n', " ")),
  }
}

// ---------------------------------------------------------------------------------------------
// multientry: a project with several entry points; every emitted launcher is run
// ---------------------------------------------------------------------------------------------

/// `multientry <json {"sources": {mod: text}, "entries": [mod, …]}>`: real `compile_sources` with all
/// entry points at once; answer: JSON {"compile", "msg", "runs": [{"entry", "callee", "wasm", "ts"}]}
/// where `callee` is the function name the emitted `<entry>.wasm.js` launcher calls.
fn multientry_line(rest: &str, idx: usize) -> String {
  let v: serde_json::Value = match serde_json::from_str(rest) {
    Ok(v) => v,
    Err(e) => return serde_json::json!({"compile": "bad-input", "msg": e.to_string()}).to_string(),
  };
  let sources: Vec<(String, String)> = v["sources"]
    .as_object()
    .map(|m| m.iter().map(|(k, t)| (k.clone(), t.as_str().unwrap_or("").to_string())).collect())
    .unwrap_or_default();
  let entries: Vec<String> =
    v["entries"].as_array().map(|a| a.iter().map(|x| x.as_str().unwrap_or("").to_string()).collect()).unwrap_or_default();
  let (srcs, ents) = (sources.clone(), entries.clone());
  let r = catch_unwind(move || {
    let heap = &mut Heap::new();
    let mut handles = HashMap::new();
    let mut refs = HashMap::new();
    for (name, text) in &srcs {
      let m = heap.alloc_module_reference_from_string_vec(name.split('.').map(|s| s.to_string()).collect());
      refs.insert(name.clone(), m);
      handles.insert(m, text.clone());
    }
    let entry_refs = ents.iter().map(|e| *refs.get(e).expect("entry among sources")).collect();
    samlang_compiler::compile_sources(heap, handles, entry_refs, false)
  });
  match r {
    Err(e) => serde_json::json!({"compile": "panic", "msg": panic_msg(&e)}).to_string(),
    Ok(Err(e)) => serde_json::json!({"compile": "errors", "msg": e}).to_string(),
    Ok(Ok(res)) => {
      let files: std::collections::BTreeMap<String, String> =
        res.text_code_results.iter().filter(|(k, _)| !k.ends_with(".wat")).map(|(k, t)| (k.clone(), t.clone())).collect();
      let runs = samverif_harness::exec::run_emitted_entries(
        &files,
        &res.wasm_file,
        &entries,
        &samverif_harness::exec::scratch_dir("c01multi", idx),
        std::time::Duration::from_millis(10000),
        true,
      );
      let runs: Vec<serde_json::Value> = runs
        .into_iter()
        .map(|(e, w, t)| {
          // `require('./__samlang_loader__.js')(binary).NAME();`
          let callee = files
            .get(&format!("{e}.wasm.js"))
            .and_then(|js| js.rsplit_once("(binary).").map(|(_, r)| r.trim().trim_end_matches("();").to_string()))
            .unwrap_or_default();
          serde_json::json!({"entry": e, "callee": callee,
            "wasm": {"lines": w.lines, "end": w.end}, "ts": {"lines": t.lines, "end": t.end}})
        })
        .collect();
      serde_json::json!({"compile": "ok", "runs": runs}).to_string()
    }
  }
}

fn main() {
  std::panic::set_hook(Box::new(|_| {}));
  let mut counter = 0usize;
  for_each_line(|line| {
    counter += 1;
    let (k, rest) = line.split_once(' ').unwrap_or((line, ""));
    match k {
      "lirloop" => lirloop_line(rest),
      "multientry" => multientry_line(rest, counter),
      "dataseg" => dataseg_line(rest.split_whitespace().next().unwrap_or("-")),
      "layout" => layout_line(rest.split_whitespace().next().unwrap_or("-")),
      "tailrec" | "tailstmt" | "cpe" | "cpesem" | "cpeprog" => pass_line(if k == "tailstmt" { "tailrec" } else { k }, rest),
      _ => "bad-line".to_string(),
    }
  });
}
