//! Harness binary for property C15 (line protocol; see /verif/vlib/BUILDER_GUIDE.md).
//!   ssa <hex source>  -> as in c13 (tie of Model/Scope.lean)
//!   q <hex source>    -> `<module dump> ;; <occurrence ids> => <occ:def:refs,...>` answers of
//!                        query::definition_location / query::all_references at every identifier
//!                        occurrence of a local variable (real ServerState)
//!   rn / rnall <hex source> -> rewrite::rename (rn: from <= 3 occurrences of every binding; rnall: from every
//!                        occurrence) to a fresh name, and back: model-free
//!                        oracle (parses, same diagnostics, same def/use graph, round trip)
use samlang_ast::Position;
use samlang_errors::ErrorSet;
use samlang_heap::{Heap, ModuleReference};
use samlang_services::server_state::ServerState;
use samlang_services::{query, rewrite};
use samverif_harness::scopedump::Dumper;
use samverif_harness::util::*;
use std::collections::HashMap;
use std::panic::{AssertUnwindSafe, catch_unwind};

struct Parsed {
  dump: String,
  render: String,
  /// (loc id, name, is_binder, start position)
  occ: Vec<(usize, String, bool, Position)>,
  /// position of the last character of every occurrence's token
  occ_end: Vec<Position>,
  posmap: HashMap<String, usize>,
  formatted: String,
  loc_mismatch: Vec<String>,
  var_positions: Vec<String>,
}

fn parse(src: &str) -> Option<Parsed> {
  parse_as(src, "Test")
}

fn parse_as(src: &str, module_name: &str) -> Option<Parsed> {
  let mut heap = Heap::new();
  let mref = heap
    .alloc_module_reference_from_string_vec(module_name.split('.').map(|s| s.to_string()).collect());
  let mut errors = ErrorSet::new();
  let m = samlang_parser::parse_source_module_from_text(src, mref, &mut heap, &mut errors);
  if errors.has_errors() {
    return None;
  }
  let mut ssa_errors = ErrorSet::new();
  let r = samlang_checker::perform_ssa_analysis_on_module(mref, &m, &mut ssa_errors);
  let formatted = samlang_printer::pretty_print_source_module(&heap, 100, &m);
  let mut d = Dumper::new(&heap, mref);
  d.module(&m);
  let render = d.render(&r, &ssa_errors);
  let occ = d.occurrences.iter().map(|(l, n, b)| (*l, n.clone(), *b, d.loc_list[*l].start)).collect();
  let occ_end = d
    .occurrences
    .iter()
    .map(|(l, _, _)| {
      let loc = d.loc_list[*l];
      if loc.end.0 == loc.start.0 && loc.end.1 > loc.start.1 { Position(loc.end.0, loc.end.1 - 1) } else { loc.start }
    })
    .collect();
  let posmap =
    d.loc_list.iter().enumerate().map(|(i, l)| (l.pretty_print_without_file(), i)).collect();
  let mut loc_mismatch = d.loc_mismatch.clone();
  loc_mismatch.extend(d.tparam_mismatch.iter().map(|x| format!("tparam:{x}")));
  let var_positions: Vec<String> = d.var_positions.iter().cloned().collect();
  Some(Parsed { dump: d.out.clone(), render, occ, occ_end, posmap, formatted, loc_mismatch, var_positions })
}

fn new_state(src: &str) -> (ServerState, ModuleReference) {
  let mut heap = Heap::new();
  let mref = heap.alloc_module_reference_from_string_vec(vec!["Test".to_string()]);
  let mut sources: HashMap<ModuleReference, String> =
    samlang_parser::builtin_std_raw_sources(&mut heap).into_iter().collect();
  sources.insert(mref, src.to_string());
  let state = ServerState::new(heap, false, sources);
  (state, mref)
}

fn ssa(src: &str) -> String {
  match parse(src) {
    None => "syntax".to_string(),
    Some(p) if !p.loc_mismatch.is_empty() => format!("locinv {}", p.loc_mismatch.join(",")),
    Some(p) => format!("{}=> {}", p.dump, p.render),
  }
}

/// answers of definition_location / all_references at the first and at the last character of
/// every local-variable occurrence of module `mref` (the two must agree)
fn answers_for(p: &Parsed, state: &ServerState, mref: &ModuleReference) -> String {
  let id = |l: &samlang_ast::Location| match p.posmap.get(&l.pretty_print_without_file()) {
    Some(i) => i.to_string(),
    None => format!("?{}", l.pretty_print_without_file()),
  };
  let at = |pos: Position| {
    let def = query::definition_location(state, mref, pos).map(|l| id(&l)).unwrap_or("none".to_string());
    let mut refs: Vec<usize> = Vec::new();
    let mut odd = Vec::new();
    for l in query::all_references(state, mref, pos) {
      match p.posmap.get(&l.pretty_print_without_file()) {
        Some(i) => refs.push(*i),
        None => odd.push(l.pretty_print_without_file()),
      }
    }
    refs.sort();
    let mut r: Vec<String> = refs.iter().map(|i| i.to_string()).collect();
    r.extend(odd.into_iter().map(|s| format!("?{s}")));
    format!("{}:{}", def, r.join("+"))
  };
  let mut answers = Vec::new();
  for (k, (locid, _, _, pos)) in p.occ.iter().enumerate() {
    let a1 = at(*pos);
    let a2 = at(p.occ_end[k]);
    if a1 == a2 {
      answers.push(format!("{}:{}", locid, a1));
    } else {
      answers.push(format!("{}:{}|at-token-end:{}", locid, a1, a2));
    }
  }
  let occ: Vec<String> = p.occ.iter().map(|o| o.0.to_string()).collect();
  format!("{};; {} => {}", p.dump, occ.join(" "), answers.join(","))
}

fn q(src: &str) -> String {
  let p = match parse(src) {
    None => return "syntax".to_string(),
    Some(p) => p,
  };
  let (state, mref) = new_state(src);
  if !state.get_errors(&mref).is_empty() {
    let e = &state.get_errors(&mref)[0];
    let d = format!("{:?}", e.detail);
    return format!("rejected {} at {}", d.split(|c: char| !c.is_ascii_alphanumeric()).next().unwrap_or("?"), e.location.pretty_print_without_file());
  }
  answers_for(&p, &state, &mref)
}

/// the same for a set of modules that import each other (json {module name: text}), std added:
/// `name :: <dump> ;; <occ> => <answers>` per module, joined by ` ||| `
fn qmulti(json: &str) -> String {
  let v: serde_json::Value = serde_json::from_str(json).expect("json");
  let mut heap = Heap::new();
  let mut sources: HashMap<ModuleReference, String> =
    samlang_parser::builtin_std_raw_sources(&mut heap).into_iter().collect();
  let mut mods: Vec<(String, ModuleReference, String)> = Vec::new();
  // "__only__": comma-separated module names to answer for (the whole project is always loaded)
  let only: Option<Vec<String>> = v
    .get("__only__")
    .and_then(|x| x.as_str())
    .map(|x| x.split(',').map(|y| y.to_string()).collect());
  for (name, text) in v.as_object().expect("object") {
    if name == "__only__" {
      continue;
    }
    let m = heap.alloc_module_reference_from_string_vec(name.split('.').map(|s| s.to_string()).collect());
    sources.insert(m, text.as_str().unwrap().to_string());
    mods.push((name.clone(), m, text.as_str().unwrap().to_string()));
  }
  mods.sort_by(|a, b| a.0.cmp(&b.0));
  let state = ServerState::new(heap, false, sources);
  let mut out = Vec::new();
  for (name, m, text) in &mods {
    if let Some(o) = &only
      && !o.contains(name)
    {
      continue;
    }
    if !state.get_errors(m).is_empty() {
      out.push(format!("{name} :: rejected"));
      continue;
    }
    match parse_as(text, name) {
      None => out.push(format!("{name} :: syntax")),
      Some(p) if !p.loc_mismatch.is_empty() => out.push(format!("{name} :: locinv {}", p.loc_mismatch.join(","))),
      Some(p) => out.push(format!("{name} :: {}", answers_for(&p, &state, m))),
    }
  }
  out.join(" ||| ")
}

/// names dropped from the S[..]/C[..] parts (`name=loc` -> `=loc`), so that two analyses can be
/// compared up to the renaming
fn nameless(render: &str) -> String {
  let mut out = String::new();
  let mut word = String::new();
  for c in render.chars() {
    if c.is_ascii_alphanumeric() || c == '_' {
      word.push(c);
    } else {
      if c != '=' {
        out.push_str(&word);
      }
      word.clear();
      out.push(c);
    }
  }
  out.push_str(&word);
  // U[..] and E[..] mention names as well: keep only their sizes
  out
}

fn graph_part(render: &str) -> String {
  // I[..] M[..] D[..] plus nameless S/C; U and E reduced to counts
  let parts: Vec<&str> = render.split("] ").collect();
  let mut out = Vec::new();
  for p in parts {
    if p.starts_with("U[") || p.starts_with("E[") {
      let body = &p[2..].trim_end_matches(']');
      out.push(format!("{}#{}", &p[..1], if body.is_empty() { 0 } else { body.split(',').count() }));
    } else if p.starts_with("S[") || p.starts_with("C[") {
      // sort the entries of every scope after dropping the names
      let body = &p[2..];
      let mut ents: Vec<String> = body
        .split(',')
        .map(|e| {
          let e = nameless(e);
          let (l, r) = e.split_once(':').unwrap_or((&e, ""));
          let mut xs: Vec<&str> = r.split('+').collect();
          xs.sort();
          format!("{}:{}", l, xs.join("+"))
        })
        .collect();
      ents.sort();
      out.push(format!("{}{}", &p[..2], ents.join(",")));
    } else {
      out.push(p.to_string());
    }
  }
  out.join("] ")
}

/// use -> def map of the original analysis (loc ids), from the canonical rendering
fn def_of(render: &str) -> HashMap<usize, usize> {
  let m = &render[render.find("M[").unwrap() + 2..];
  let m = &m[..m.find(']').unwrap()];
  m.split(',')
    .filter(|e| !e.is_empty())
    .map(|e| {
      let (u, d) = e.split_once('>').unwrap();
      (u.parse().unwrap(), d.parse().unwrap())
    })
    .collect()
}

fn rn(src: &str, cap: Option<usize>) -> String {
  let p = match parse(src) {
    None => return "syntax".to_string(),
    Some(p) => p,
  };
  let (mut state, mref) = new_state(src);
  if !state.get_errors(&mref).is_empty() {
    return "rejected".to_string();
  }
  let g0 = graph_part(&p.render);
  let defs = def_of(&p.render);
  // the renamed text went through the printer (which regroups `a + (b + c)`, finding C08-F5): compare
  // with the tree of the *formatted* original, which went through the same printer
  let formatted_dump = parse(&p.formatted).map(|x| x.dump).unwrap_or_default();
  let mut n = 0;
  let mut all_renamed: Vec<String> = Vec::new();
  // the rename result depends only on (definition, uses): all occurrences of one binding must
  // produce the same text; the expensive checks run once per binding
  let mut per_def: HashMap<usize, String> = HashMap::new();
  // quick tier: every binding is renamed and fully checked, but "the result does not depend on the
  // occurrence chosen" is tried from at most `cap` occurrences per binding (all in `rnall`)
  let mut tried: HashMap<usize, usize> = HashMap::new();
  for (k, (locid, name, _, pos)) in p.occ.iter().enumerate() {
    if name == "this" {
      // `this` is bound by the class, not by an identifier: rename must be refused (C15-F1, fixed)
      if let Some(t) = rewrite::rename(&mut state, &mref, *pos, "zqthis") {
        return format!("FAIL rename-of-this-not-refused occ={} name=this new=zqthis {}", locid, hex(t.as_bytes()));
      }
      continue;
    }
    let def = *defs.get(locid).unwrap_or(locid);
    if let Some(c) = cap {
      let t = tried.entry(def).or_insert(0);
      if *t >= c {
        continue;
      }
      *t += 1;
    }
    let new_name = format!("zq{def}");
    let fail = |what: &str, extra: &str| format!("FAIL {} occ={} name={} new={} {}", what, locid, name, new_name, extra);
    let t1 = match rewrite::rename(&mut state, &mref, *pos, &new_name) {
      Some(t) => t,
      None => return fail("rename-returned-none", &hex(src.as_bytes())),
    };
    n += 1;
    if let Some(prev) = per_def.get(&def) {
      if *prev != t1 {
        return fail("rename-depends-on-the-occurrence-chosen", &hex(t1.as_bytes()));
      }
      continue;
    }
    per_def.insert(def, t1.clone());
    let p1 = match parse(&t1) {
      Some(x) => x,
      None => return fail("renamed-does-not-parse", &hex(t1.as_bytes())),
    };
    // renaming changes identifier names only: the structural dump of the renamed module (explicit
    // type arguments, annotations, pattern structure, statement kinds, every location in order) is
    // the dump of the original with the new name put back
    if p1.dump.replace(&format!(" {new_name} "), &format!(" {name} ")) != formatted_dump {
      return fail("renamed-tree-differs-beyond-names", &hex(t1.as_bytes()));
    }
    if graph_part(&p1.render) != g0 {
      return fail("def-use-graph-changed", &hex(t1.as_bytes()));
    }
    let mut expect: Vec<usize> = defs.iter().filter(|(_, d)| **d == def).map(|(u, _)| *u).collect();
    expect.push(def);
    expect.sort();
    expect.dedup();
    let mut got: Vec<usize> = p1.occ.iter().filter(|o| o.1 == new_name).map(|o| o.0).collect();
    got.sort();
    if got != expect {
      return fail("renamed-occurrences-differ", &format!("expected={expect:?} got={got:?} {}", hex(t1.as_bytes())));
    }
    state.update(vec![(mref, t1.clone())]);
    if !state.get_errors(&mref).is_empty() {
      return fail("renamed-has-diagnostics", &hex(t1.as_bytes()));
    }
    // rename back at the same occurrence
    let pos1 = p1.occ[k].3;
    let t2 = match rewrite::rename(&mut state, &mref, pos1, name) {
      Some(t) => t,
      None => return fail("rename-back-returned-none", &hex(t1.as_bytes())),
    };
    if t2 != p.formatted {
      return fail("round-trip-differs", &hex(t2.as_bytes()));
    }
    state.update(vec![(mref, src.to_string())]);
    all_renamed.push(t1);
  }
  // renamed texts handed to the behaviour oracle: first, middle and last renamed binding
  let mut picks: Vec<usize> = Vec::new();
  if !all_renamed.is_empty() {
    for i in [0, all_renamed.len() / 2, all_renamed.len() - 1] {
      if !picks.contains(&i) {
        picks.push(i);
      }
    }
  }
  let sample = picks.iter().map(|i| hex(all_renamed[*i].as_bytes())).collect::<Vec<_>>().join(",");
  format!("ok {} {}", n, if sample.is_empty() { "-".to_string() } else { sample })
}

fn main() {
  std::panic::set_hook(Box::new(|_| {}));
  for_each_line(|line| {
    let t: Vec<&str> = line.splitn(2, ' ').collect();
    let arg = if t.len() > 1 { unhex_str(t[1]) } else { String::new() };
    let r = catch_unwind(AssertUnwindSafe(|| match t[0] {
      "ssa" => ssa(&arg),
      "q" => q(&arg),
      "qmulti" => qmulti(&arg),
      "vp" => parse(&arg).map(|p| p.var_positions.join(" ")).unwrap_or("syntax".to_string()),
      "rn" => rn(&arg, Some(3)),
      "rnall" => rn(&arg, None),
      _ => "bad-op".to_string(),
    }));
    match r {
      Ok(s) => s,
      Err(e) => format!("panic {}", panic_msg(&e).replace('\n', " ")),
    }
  });
}
