//! Harness binary for property C15 (line protocol; see /verif/vlib/BUILDER_GUIDE.md).
fn main() {
  eprintln!("c15: not implemented yet");
  std::process::exit(2);
}
