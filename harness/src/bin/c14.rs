//! Protocols of C14, implementation side, in-process:
//!
//! `lex <hex>`   same as C05: the real token producer's kinds, texts and spans (hook H6).
//! `walk <hex>`  hook-free walk over EVERY located node of the `Module<()>` returned by
//!               `parse_source_module_from_text`: a pre-order list
//!               `<depth>:<kind>:<l0>.<c0>-<l1>.<c1>[:<hexname>]` separated by `;`, prefix `syn=<n> `.
//!               Kinds: import, modpath, toplevel, tparams, tparam, bound, extends, super, typedef,
//!               field, variant, member, params, param, ret, body, name (every `Id`), the 13
//!               expression forms `E.*`, `args`, `case`, `lparams`, `lparam`, `S.Let`, the 6 pattern
//!               forms `P.*` (+ `pfield`), the annotation forms `T.*` (+ `targs`, `tlist`), `error`.
//!               Children are listed in source order.  A panic gives `panic <hexmsg>`.
//! `svc <module> <hex>`  the module is put into a `ServerState` that holds std + every tests/*.sam;
//!               for every identifier position of the walk the LSP queries the property names are
//!               run: `def`, `refs`, `hover` (+ `fold`, `ca` code-action edits at every error, and
//!               `rename` at every local identifier).  Answer: `errs=<n> syn=<n> <item>;...` with
//!               `def@l.c:<hexname>=<loc>|none`, `refs@l.c:<hexname>=<loc>,...`, `hover@l.c=<loc>|none`,
//!               `fold=<loc>,...`, `ca@<span>=<loc>,...`, `rename@l.c=<ok|none|syn>`; a `<loc>` is
//!               `<module>/<span>/<in|out>/<hex of the text it covers (<= 40 bytes, one line) or ->`.
use samlang_ast::source::{
  Id, Module, Toplevel, TypeDefinition, annotation, expr, pattern,
};
use samlang_ast::{Location, Position};
use samlang_errors::ErrorSet;
use samlang_heap::{Heap, ModuleReference};
use samlang_services::server_state::ServerState;
use samverif_harness::util::*;
use std::collections::HashMap;
use std::panic::{AssertUnwindSafe, catch_unwind};

fn span(l: &Location) -> String {
  format!("{}.{}-{}.{}", l.start.0, l.start.1, l.end.0, l.end.1)
}

struct Out<'a> {
  heap: &'a Heap,
  comments: &'a samlang_ast::source::CommentStore,
  items: Vec<String>,
  /// (position, name, is local variable use/binder, context) of every identifier seen; context =
  /// kind of the enclosing node for `name` nodes (tparam, member, toplevel, param, P.Id, field, ...)
  /// or the node's own kind (E.LocalId, E.ClassId)
  idents: Vec<(Position, String, bool, String)>,
  /// locations of literal expressions (hover on them answers with the expression's own range)
  literals: Vec<Location>,
  stack: Vec<(usize, String)>,
}

impl Out<'_> {
  fn enter(&mut self, depth: usize, kind: &str) -> String {
    while self.stack.last().map(|(d, _)| *d >= depth).unwrap_or(false) {
      self.stack.pop();
    }
    let parent = self.stack.last().map(|(_, k)| k.clone()).unwrap_or_else(|| "module".to_string());
    self.stack.push((depth, kind.to_string()));
    parent
  }
  fn node(&mut self, depth: usize, kind: &str, l: &Location) {
    self.enter(depth, kind);
    self.items.push(format!("{depth}:{kind}:{}", span(l)));
  }
  fn named(&mut self, depth: usize, kind: &str, l: &Location, name: &str, local: bool) {
    let parent = self.enter(depth, kind);
    self.items.push(format!("{depth}:{kind}:{}:{}", span(l), hex(name.as_bytes())));
    let ctx = if kind == "name" { parent } else { kind.to_string() };
    self.idents.push((l.start, name.to_string(), local, ctx));
  }
  fn id(&mut self, depth: usize, id: &Id, local: bool) {
    let name = id.name.as_str(self.heap).to_string();
    self.named(depth, "name", &id.loc, &name, local);
    self.cm("lead", id.associated_comments);
  }

  /// Comments owned by the node emitted last (comments carry no location of their own):
  /// `c:<lead|inner>:<L|B|D><hextext>`; `lead` = attached in front of (some token of) the owner,
  /// `inner` = between the owner's delimiters.
  fn cm(&mut self, role: &str, r: samlang_ast::source::CommentReference) {
    let texts: Vec<String> = self
      .comments
      .get(r)
      .iter()
      .map(|c| {
        let k = match c.kind {
          samlang_ast::source::CommentKind::LINE => "L",
          samlang_ast::source::CommentKind::BLOCK => "B",
          samlang_ast::source::CommentKind::DOC => "D",
        };
        format!("c:{role}:{k}{}", hex(c.text.as_str(self.heap).as_bytes()))
      })
      .collect();
    self.items.extend(texts);
  }

  fn targs(&mut self, d: usize, ta: Option<&annotation::TypeArguments>) {
    if let Some(ta) = ta {
      self.node(d, "targs", &ta.location);
      self.cm("lead", ta.start_associated_comments);
      self.cm("inner", ta.ending_associated_comments);
      for a in &ta.arguments {
        self.annot(d + 1, a);
      }
    }
  }

  fn annot_id(&mut self, d: usize, kind: &str, a: &annotation::Id) {
    self.node(d, kind, &a.location);
    self.id(d + 1, &a.id, false);
    self.targs(d + 1, a.type_arguments.as_ref());
  }

  fn annot(&mut self, d: usize, a: &annotation::T) {
    match a {
      annotation::T::Primitive(l, c, _) => {
        self.node(d, "T.Primitive", l);
        self.cm("lead", *c);
      }
      annotation::T::Id(a) => self.annot_id(d, "T.Id", a),
      annotation::T::Generic(l, id) => {
        self.node(d, "T.Generic", l);
        self.id(d + 1, id, false);
      }
      annotation::T::Fn(f) => {
        self.node(d, "T.Fn", &f.location);
        self.cm("lead", f.associated_comments);
        // comments before `)` and before `->`: inside the function type, not necessarily inside `( .. )`
        self.cm("inner", f.parameters.ending_associated_comments);
        self.node(d + 1, "tlist", &f.parameters.location);
        self.cm("lead", f.parameters.start_associated_comments);
        for p in &f.parameters.annotations {
          self.annot(d + 2, p);
        }
        self.annot(d + 1, &f.return_type);
      }
    }
  }

  fn tparams(&mut self, d: usize, tp: Option<&annotation::TypeParameters>) {
    if let Some(tp) = tp {
      self.node(d, "tparams", &tp.location);
      self.cm("lead", tp.start_associated_comments);
      self.cm("inner", tp.ending_associated_comments);
      for p in &tp.parameters {
        self.node(d + 1, "tparam", &p.loc);
        self.id(d + 2, &p.name, false);
        if let Some(b) = &p.bound {
          self.annot_id(d + 2, "bound", b);
        }
      }
    }
  }

  fn tuple_pattern(&mut self, d: usize, t: &pattern::TuplePattern<()>) {
    self.node(d, "P.Tuple", &t.location);
    self.cm("lead", t.start_associated_comments);
    self.cm("inner", t.ending_associated_comments);
    for e in &t.elements {
      self.pattern(d + 1, &e.pattern);
    }
  }

  fn pattern(&mut self, d: usize, p: &pattern::MatchingPattern<()>) {
    match p {
      pattern::MatchingPattern::Tuple(t) => self.tuple_pattern(d, t),
      pattern::MatchingPattern::Object {
        location,
        elements,
        start_associated_comments,
        ending_associated_comments,
      } => {
        self.node(d, "P.Object", location);
        self.cm("lead", *start_associated_comments);
        self.cm("inner", *ending_associated_comments);
        for e in elements {
          self.node(d + 1, "pfield", &e.loc);
          self.id(d + 2, &e.field_name, e.shorthand);
          if !e.shorthand {
            self.pattern(d + 2, &e.pattern);
          }
        }
      }
      pattern::MatchingPattern::Variant(v) => {
        self.node(d, "P.Variant", &v.loc);
        self.id(d + 1, &v.tag, false);
        if let Some(t) = &v.data_variables {
          self.tuple_pattern(d + 1, t);
        }
      }
      pattern::MatchingPattern::Id(id, _) => {
        self.node(d, "P.Id", &id.loc);
        self.id(d + 1, id, true);
      }
      pattern::MatchingPattern::Wildcard { location, associated_comments } => {
        self.node(d, "P.Wildcard", location);
        self.cm("lead", *associated_comments);
      }
      pattern::MatchingPattern::Or { location, patterns } => {
        self.node(d, "P.Or", location);
        for p in patterns {
          self.pattern(d + 1, p);
        }
      }
    }
  }

  fn block(&mut self, d: usize, b: &expr::Block<()>) {
    self.node(d, "E.Block", &b.common.loc);
    self.cm("lead", b.common.associated_comments);
    self.cm("inner", b.ending_associated_comments);
    for s in &b.statements {
      match s {
        expr::Statement::Declaration(s) => {
          self.node(d + 1, "S.Let", &s.loc);
          self.cm("lead", s.associated_comments);
          self.pattern(d + 2, &s.pattern);
          if let Some(a) = &s.annotation {
            self.annot(d + 2, a);
          }
          self.expr(d + 2, &s.assigned_expression);
        }
        expr::Statement::Expression(e) => self.expr(d + 1, e),
      }
    }
    if let Some(e) = &b.expression {
      self.expr(d + 1, e);
    }
  }

  fn if_else(&mut self, d: usize, e: &expr::IfElse<()>) {
    self.node(d, "E.IfElse", &e.common.loc);
    self.cm("lead", e.common.associated_comments);
    match e.condition.as_ref() {
      expr::IfElseCondition::Expression(c) => self.expr(d + 1, c),
      expr::IfElseCondition::Guard(p, c) => {
        self.pattern(d + 1, p);
        self.expr(d + 1, c);
      }
    }
    self.block(d + 1, &e.e1);
    match e.e2.as_ref() {
      expr::IfElseOrBlock::IfElse(e) => self.if_else(d + 1, e),
      expr::IfElseOrBlock::Block(b) => self.block(d + 1, b),
    }
  }

  fn expr(&mut self, d: usize, e: &expr::E<()>) {
    match e {
      expr::E::Literal(c, _) => {
        self.literals.push(c.loc);
        self.node(d, "E.Literal", &c.loc);
        self.cm("lead", c.associated_comments);
      }
      expr::E::LocalId(c, id) => {
        let name = id.name.as_str(self.heap).to_string();
        self.named(d, "E.LocalId", &c.loc, &name, true);
        self.cm("lead", c.associated_comments);
        self.cm("lead", id.associated_comments);
      }
      expr::E::ClassId(c, _, id) => {
        let name = id.name.as_str(self.heap).to_string();
        self.named(d, "E.ClassId", &c.loc, &name, false);
        self.cm("lead", c.associated_comments);
        self.cm("lead", id.associated_comments);
      }
      expr::E::Tuple(c, l) => {
        self.node(d, "E.Tuple", &c.loc);
        self.cm("lead", c.associated_comments);
        self.node(d + 1, "args", &l.loc);
        self.cm("lead", l.start_associated_comments);
        self.cm("inner", l.ending_associated_comments);
        for x in &l.expressions {
          self.expr(d + 2, x);
        }
      }
      expr::E::FieldAccess(f) => {
        self.node(d, "E.FieldAccess", &f.common.loc);
        self.cm("lead", f.common.associated_comments);
        self.expr(d + 1, &f.object);
        self.id(d + 1, &f.field_name, false);
        self.targs(d + 1, f.explicit_type_arguments.as_ref());
      }
      expr::E::MethodAccess(f) => {
        self.node(d, "E.MethodAccess", &f.common.loc);
        self.cm("lead", f.common.associated_comments);
        self.expr(d + 1, &f.object);
        self.id(d + 1, &f.method_name, false);
        self.targs(d + 1, f.explicit_type_arguments.as_ref());
      }
      expr::E::Unary(u) => {
        self.node(d, "E.Unary", &u.common.loc);
        self.cm("lead", u.common.associated_comments);
        self.expr(d + 1, &u.argument);
      }
      expr::E::Call(c) => {
        self.node(d, "E.Call", &c.common.loc);
        self.cm("lead", c.common.associated_comments);
        self.expr(d + 1, &c.callee);
        self.node(d + 1, "args", &c.arguments.loc);
        self.cm("lead", c.arguments.start_associated_comments);
        self.cm("inner", c.arguments.ending_associated_comments);
        for x in &c.arguments.expressions {
          self.expr(d + 2, x);
        }
      }
      expr::E::Binary(b) => {
        self.node(d, "E.Binary", &b.common.loc);
        self.cm("lead", b.common.associated_comments);
        self.cm("inner", b.operator_preceding_comments);
        self.expr(d + 1, &b.e1);
        self.expr(d + 1, &b.e2);
      }
      expr::E::IfElse(e) => self.if_else(d, e),
      expr::E::Match(m) => {
        self.node(d, "E.Match", &m.common.loc);
        self.cm("lead", m.common.associated_comments);
        self.expr(d + 1, &m.matched);
        for c in &m.cases {
          self.node(d + 1, "case", &c.loc);
          self.cm("inner", c.ending_associated_comments);
          self.pattern(d + 2, &c.pattern);
          self.expr(d + 2, &c.body);
        }
      }
      expr::E::Lambda(l) => {
        self.node(d, "E.Lambda", &l.common.loc);
        self.cm("lead", l.common.associated_comments);
        // comments before `)` and before `->`: inside the lambda, not necessarily inside `( .. )`
        self.cm("inner", l.parameters.ending_associated_comments);
        self.node(d + 1, "lparams", &l.parameters.loc);
        for p in &l.parameters.parameters {
          let loc = match &p.annotation {
            Some(a) => p.name.loc.union(&a.location()),
            None => p.name.loc,
          };
          self.node(d + 2, "lparam", &loc);
          self.id(d + 3, &p.name, true);
          if let Some(a) = &p.annotation {
            self.annot(d + 3, a);
          }
        }
        self.expr(d + 1, &l.body);
      }
      expr::E::Block(b) => self.block(d, b),
    }
  }

  fn module(&mut self, module: &Module<()>) {
    for imp in &module.imports {
      self.node(0, "import", &imp.loc);
      self.cm("lead", imp.associated_comments);
      for m in &imp.imported_members {
        self.id(1, m, false);
      }
      // name-like multi-token node: must spell the dotted module path
      let dotted = imp.imported_module.pretty_print(self.heap);
      self.items.push(format!("1:modpath:{}:{}", span(&imp.imported_module_loc), hex(dotted.as_bytes())));
    }
    for t in &module.toplevels {
      self.node(0, "toplevel", &t.loc());
      self.cm("lead", t.associated_comments());
      self.id(1, t.name(), false);
      self.tparams(1, t.type_parameters());
      if let Some(td) = t.type_definition() {
        self.node(1, "typedef", td.loc());
        match td {
          TypeDefinition::Struct { start_associated_comments, ending_associated_comments, .. }
          | TypeDefinition::Enum { start_associated_comments, ending_associated_comments, .. } => {
            self.cm("lead", *start_associated_comments);
            self.cm("inner", *ending_associated_comments);
          }
        }
        match td {
          TypeDefinition::Struct { fields, .. } => {
            for f in fields {
              self.node(2, "field", &f.name.loc.union(&f.annotation.location()));
              self.id(3, &f.name, false);
              self.annot(3, &f.annotation);
            }
          }
          TypeDefinition::Enum { variants, .. } => {
            for v in variants {
              let loc = match &v.associated_data_types {
                Some(l) => v.name.loc.union(&l.location),
                None => v.name.loc,
              };
              self.node(2, "variant", &loc);
              self.id(3, &v.name, false);
              if let Some(l) = &v.associated_data_types {
                self.node(3, "tlist", &l.location);
                self.cm("lead", l.start_associated_comments);
                self.cm("inner", l.ending_associated_comments);
                for a in &l.annotations {
                  self.annot(4, a);
                }
              }
            }
          }
        }
      }
      if let Some(e) = t.extends_or_implements_nodes() {
        self.node(1, "extends", &e.location);
        self.cm("lead", e.associated_comments);
        for n in &e.nodes {
          self.annot_id(2, "super", n);
        }
      }
      // comments before the closing brace of the class/interface body belong to the toplevel
      let (members_loc, members_end) = match t {
        Toplevel::Class(c) => (c.members.loc, c.members.ending_associated_comments),
        Toplevel::Interface(i) => (i.members.loc, i.members.ending_associated_comments),
      };
      let bodies: Vec<Option<&expr::E<()>>> = match t {
        Toplevel::Class(c) => c.members.members.iter().map(|m| Some(&m.body)).collect(),
        Toplevel::Interface(i) => i.members.members.iter().map(|_| None).collect(),
      };
      for (m, body) in t.members_iter().zip(bodies) {
        // `decl.loc` of a class member spans the whole definition including the body
        self.node(1, "member", &m.loc);
        self.cm("lead", m.associated_comments);
        self.tparams(2, m.type_parameters.as_ref());
        self.id(2, &m.name, false);
        self.node(2, "params", &m.parameters.location);
        self.cm("lead", m.parameters.start_associated_comments);
        self.cm("inner", m.parameters.ending_associated_comments);
        for p in m.parameters.parameters.iter() {
          self.node(3, "param", &p.name.loc.union(&p.annotation.location()));
          self.id(4, &p.name, true);
          self.annot(4, &p.annotation);
        }
        self.annot(2, &m.return_type);
        if let Some(b) = body {
          self.expr(2, b);
        }
      }
      self.node(1, "members_end", &Location { start: members_loc.end, ..members_loc });
      self.items.pop(); // only needed as the owner of the next comments: re-emit as a zero-width marker
      self.items.push(format!("1:members_end:{}", span(&members_loc)));
      self.cm("inner", members_end);
    }
    if !matches!(self.comments.get(module.trailing_comments), samlang_ast::source::CommentsNode::NoComment) {
      self.items.push("0:trailing:0.0-0.0".to_string());
      self.cm("trailing", module.trailing_comments);
    }
  }
}

#[allow(clippy::type_complexity)]
fn parse_and_walk(
  text: &str,
  heap: &mut Heap,
) -> (usize, Vec<String>, Vec<(Position, String, bool, String)>, Vec<Location>, Vec<Location>) {
  let mut error_set = ErrorSet::new();
  let module =
    samlang_parser::parse_source_module_from_text(text, ModuleReference::DUMMY, heap, &mut error_set);
  let syn = error_set.errors().iter().filter(|e| e.is_syntax_error()).count();
  let mut o = Out { heap, comments: &module.comment_store, items: Vec::new(), idents: Vec::new(), literals: Vec::new(), stack: Vec::new() };
  o.module(&module);
  let errs: Vec<Location> = error_set.errors().iter().map(|e| e.location).collect();
  for l in &errs {
    o.node(0, "error", l);
  }
  let lits = o.literals.clone();
  (syn, o.items, o.idents, errs, lits)
}

fn walk(text: &str) -> String {
  let mut heap = Heap::new();
  let (syn, mut items, _, _, _) = parse_and_walk(text, &mut heap);
  // the comment tokens of the text with their spans (`k:<L|B|D><hextext>:<span>`): the ground truth
  // the comments attached to AST nodes are matched against
  let mut h2 = Heap::new();
  let mut es = ErrorSet::new();
  for (kind, text, (l0, c0, l1, c1)) in
    samlang_parser::verif_hooks::produce_tokens(text, ModuleReference::DUMMY, &mut h2, &mut es)
  {
    let k = match kind {
      "line" => "L",
      "block" => "B",
      "doc" => "D",
      _ => continue,
    };
    items.push(format!("k:{k}{}:{l0}.{c0}-{l1}.{c1}", hex(text.as_bytes())));
  }
  format!("syn={syn} {}", if items.is_empty() { "-".to_string() } else { items.join(";") })
}

// ------------------------------------------------------------------------------------------------

struct Svc {
  state: ServerState,
  texts: HashMap<ModuleReference, String>,
}

fn mod_ref(heap: &mut Heap, dotted: &str) -> ModuleReference {
  heap.alloc_module_reference_from_string_vec(dotted.split('.').map(|s| s.to_string()).collect())
}

impl Svc {
  fn new() -> Svc {
    let mut heap = Heap::new();
    let mut sources: HashMap<ModuleReference, String> = HashMap::new();
    for (m, s) in samlang_parser::builtin_std_raw_sources(&mut heap) {
      sources.insert(m, s);
    }
    let repo = std::env::var("SAMVERIF_REPO").unwrap_or_else(|_| "/repo".to_string());
    if let Ok(rd) = std::fs::read_dir(format!("{repo}/tests")) {
      let mut files: Vec<_> = rd.flatten().map(|e| e.path()).collect();
      files.sort();
      for p in files {
        if p.extension().map(|e| e == "sam").unwrap_or(false) {
          if let (Some(stem), Ok(text)) = (p.file_stem(), std::fs::read_to_string(&p)) {
            let m = mod_ref(&mut heap, &format!("tests.{}", stem.to_string_lossy()));
            sources.insert(m, text);
          }
        }
      }
    }
    let texts = sources.clone();
    Svc { state: ServerState::new(heap, false, sources), texts }
  }

  fn loc_str(&self, l: &Location) -> String {
    let name = l.module_reference.pretty_print(&self.state.heap);
    let (inside, covered) = match self.texts.get(&l.module_reference) {
      None => (false, None),
      Some(t) => {
        let lines: Vec<&str> = t.split('\n').collect();
        let ok = |p: Position| {
          (p.0 as usize) < lines.len() && (p.1 as usize) <= lines[p.0 as usize].len()
        };
        let inside = ok(l.start) && ok(l.end) && l.start <= l.end;
        let covered = if inside && l.start.0 == l.end.0 && l.end.1 - l.start.1 <= 40 {
          lines[l.start.0 as usize].as_bytes().get(l.start.1 as usize..l.end.1 as usize).map(|b| hex(b))
        } else {
          None
        };
        (inside, covered)
      }
    };
    format!("{name}/{}/{}/{}", span(l), if inside { "in" } else { "out" }, covered.unwrap_or("-".into()))
  }

  fn run(&mut self, module: &str, text: &str) -> String {
    let m = mod_ref(&mut self.state.heap, module);
    let original = self.texts.get(&m).cloned();
    self.state.update(vec![(m, text.to_string())]);
    self.texts.insert(m, text.to_string());
    let mut scratch_heap = Heap::new();
    let (syn, _, idents, _, literals) = parse_and_walk(text, &mut scratch_heap);
    let nerr = self.state.get_errors(&m).len();
    let mut items: Vec<String> = Vec::new();
    let mut seen = std::collections::HashSet::new();
    // every identifier position, or an even stride through them when C14_MAX_POS caps the number
    let max_pos: usize =
      std::env::var("C14_MAX_POS").ok().and_then(|s| s.parse().ok()).unwrap_or(usize::MAX);
    let stride = if idents.len() > max_pos { idents.len().div_ceil(max_pos.max(1)) } else { 1 };
    // the real lexer's tokens: the expected span of the identifier under a position (the token model
    // is tied to Model/Lexer.lean by the `lex` protocol and `pos_tracking_exact` / `name_span_exact`)
    let toks: Vec<(u32, u32, u32, String)> = {
      let mut h2 = Heap::new();
      let mut es2 = ErrorSet::new();
      samlang_parser::verif_hooks::produce_tokens(text, ModuleReference::DUMMY, &mut h2, &mut es2)
        .into_iter()
        .filter(|(k, _, (l0, _, l1, _))| (*k == "upper" || *k == "lower" || *k == "kw") && l0 == l1)
        .map(|(_, t, (l0, c0, _, c1))| (l0, c0, c1, t))
        .collect()
    };
    for (i, (pos, name, local, ctx)) in idents.iter().enumerate() {
      if i % stride != 0 || !seen.insert((pos.0, pos.1)) {
        continue;
      }
      // (placeholder identifiers of error-recovered ASTs - `missing`, zero width - have no token: skipped)
      let tok = toks
        .iter()
        .find(|(l, c0, c1, t)| *l == pos.0 && *c0 <= pos.1 && pos.1 < *c1 && t == name);
      let Some((_, ts, te, _)) = tok.cloned() else { continue };
      let at = format!("{}.{}", pos.0, pos.1);
      let hn = hex(name.as_bytes());
      let d = samlang_services::query::definition_location(&self.state, &m, *pos);
      items.push(format!(
        "def@{at}:{hn}:{}={}",
        if *local { "L" } else { "G" },
        d.map(|l| self.loc_str(&l)).unwrap_or("none".into())
      ));
      let r = samlang_services::query::all_references(&self.state, &m, *pos);
      items.push(format!(
        "refs@{at}:{hn}:{}:{ctx}={}",
        if *local { "L" } else { "G" },
        if r.is_empty() { "none".to_string() } else { r.iter().map(|l| self.loc_str(l)).collect::<Vec<_>>().join(",") }
      ));
      // hover at EVERY position inside the identifier token [s, e): first, interior and last byte

      for c in ts..te.max(ts + 1) {
        let p = Position(pos.0, c);
        let h = samlang_services::query::hover(&self.state, &m, p);
        items.push(format!(
          "hover@{}.{c}:{}.{ts}-{}.{te}:{hn}:{ctx}={}",
          pos.0,
          pos.0,
          pos.0,
          h.map(|h| self.loc_str(&h.location)).unwrap_or("none".into())
        ));
      }
    }
    // hover on literals: an expression result, its range must be the literal's own span
    let lit_stride = if literals.len() > max_pos { literals.len().div_ceil(max_pos.max(1)) } else { 1 };
    for (i, l) in literals.iter().enumerate() {
      if i % lit_stride != 0 || l.start.0 != l.end.0 || l.end.1 == l.start.1 {
        continue;
      }
      for c in [l.start.1, l.end.1 - 1] {
        let h = samlang_services::query::hover(&self.state, &m, Position(l.start.0, c));
        items.push(format!(
          "hoverlit@{}.{c}:{}={}",
          l.start.0,
          span(l),
          h.map(|h| self.loc_str(&h.location)).unwrap_or("none".into())
        ));
      }
    }
    if let Some(f) = samlang_services::query::folding_ranges(&self.state, &m) {
      if !f.is_empty() {
        items.push(format!("fold={}", f.iter().map(|l| self.loc_str(l)).collect::<Vec<_>>().join(",")));
      }
    }
    let err_locs: Vec<Location> = self.state.get_errors(&m).iter().map(|e| e.location).collect();
    for l in err_locs.iter().take(20) {
      for a in samlang_services::rewrite::code_actions(&self.state, *l) {
        let samlang_services::rewrite::CodeAction::Quickfix { edits, .. } = a;
        items.push(format!(
          "ca@{}={}",
          span(l),
          edits.iter().map(|(l, _)| self.loc_str(l)).collect::<Vec<_>>().join(",")
        ));
      }
    }
    // every diagnostic of the module: its location and the reference locations of its IDE rendering
    let sources: HashMap<ModuleReference, String> = self.texts.clone();
    let mut diag_items = Vec::new();
    for e in self.state.get_errors(&m).iter().take(40) {
      let ide = e.to_ide_format(&self.state.heap, &sources);
      let refs: Vec<String> = ide.reference_locs.iter().map(|l| self.loc_str(l)).collect();
      diag_items.push(format!(
        "diag@{}={}",
        span(&e.location),
        std::iter::once(self.loc_str(&ide.location)).chain(refs).collect::<Vec<_>>().join(",")
      ));
    }
    items.extend(diag_items);
    // "cannot resolve module" is reported for the whole import: its range must be one of the import ranges
    {
      let mut h3 = Heap::new();
      let mut es3 = ErrorSet::new();
      let parsed = samlang_parser::parse_source_module_from_text(text, m, &mut h3, &mut es3);
      let imps: Vec<String> = parsed.imports.iter().map(|i| span(&i.loc)).collect();
      for e in self.state.get_errors(&m).iter() {
        if matches!(e.detail, samlang_errors::ErrorDetail::CannotResolveModule { .. }) {
          items.push(format!("impdiag@{}={}", span(&e.location), if imps.is_empty() { "-".to_string() } else { imps.join(",") }));
        }
      }
    }
    // rename at (a sample of) local identifiers: the rewritten module must still parse
    let mut renamed = 0;
    for (pos, _, local, _) in &idents {
      if !*local || renamed >= 6 {
        continue;
      }
      renamed += 1;
      // The LSP layer turns the result into ONE TextEdit over the constant ENTIRE_DOCUMENT_RANGE
      // (samlang-cli main.rs `rename`), so there are no derived edit ranges; what can be checked is the
      // new text: it parses, and the new name occurs exactly once per reference of the renamed variable.
      let nrefs = samlang_services::query::all_references(&self.state, &m, *pos).len();
      let r = samlang_services::rewrite::rename(&mut self.state, &m, *pos, "renamedByVerif");
      let verdict = match r {
        None => "none".to_string(),
        Some(t) => {
          let mut h = Heap::new();
          let mut es = ErrorSet::new();
          let _ = samlang_parser::parse_source_module_from_text(&t, ModuleReference::DUMMY, &mut h, &mut es);
          if es.has_errors() {
            "syn".to_string()
          } else {
            let mut h2 = Heap::new();
            let mut es2 = ErrorSet::new();
            let n = samlang_parser::verif_hooks::produce_tokens(&t, ModuleReference::DUMMY, &mut h2, &mut es2)
              .iter()
              .filter(|(k, text, _)| *k == "lower" && text == "renamedByVerif")
              .count();
            format!("ok:{n}:{nrefs}")
          }
        }
      };
      items.push(format!("rename@{}.{}={verdict}", pos.0, pos.1));
    }
    // restore
    match original {
      Some(o) => {
        self.state.update(vec![(m, o.clone())]);
        self.texts.insert(m, o);
      }
      None => {
        self.state.remove(&[m]);
        self.texts.remove(&m);
      }
    }
    format!("errs={nerr} syn={syn} {}", if items.is_empty() { "-".to_string() } else { items.join(";") })
  }
}

fn lex(text: &str) -> String {
  let mut heap = Heap::new();
  let mut error_set = ErrorSet::new();
  let mut toks: Vec<String> = Vec::new();
  let r = catch_unwind(AssertUnwindSafe(|| {
    samlang_parser::verif_hooks::produce_tokens_with(
      text,
      ModuleReference::DUMMY,
      &mut heap,
      &mut error_set,
      |(kind, text, (l0, c0, l1, c1))| {
        toks.push(format!("{kind}:{}@{l0}.{c0}-{l1}.{c1}", hex(text.as_bytes())));
      },
    );
  }));
  let mut out = format!("T {}", if toks.is_empty() { "-".to_string() } else { toks.join(";") });
  if r.is_err() {
    out.push_str(" P");
  }
  out
}

fn main() {
  std::panic::set_hook(Box::new(|_| {}));
  let mut svc: Option<Svc> = None;
  for_each_line(|line| {
    let t: Vec<&str> = line.split(' ').collect();
    match t[0] {
      "lex" if t.len() == 2 => lex(&unhex_str(t[1])),
      "walk" if t.len() == 2 => {
        let text = unhex_str(t[1]);
        match catch_unwind(AssertUnwindSafe(|| walk(&text))) {
          Ok(s) => s,
          Err(e) => format!("panic {}", hex(panic_msg(&e).as_bytes())),
        }
      }
      // `proj <module> <hex> ...`: what the LIBRARY reports for a whole project (exactly these modules, like
      // `samlang-cli lsp` with libdef shadowing): every error's module, range and reference locations
      // (`to_ide_format`), as JSON - the expectation for the diagnostics published over LSP.
      "proj" if t.len() >= 3 && t.len() % 2 == 1 => {
        let r = catch_unwind(AssertUnwindSafe(|| {
          let mut heap = Heap::new();
          let mut sources: HashMap<ModuleReference, String> = HashMap::new();
          for pair in t[1..].chunks(2) {
            let m = mod_ref(&mut heap, pair[0]);
            sources.insert(m, unhex_str(pair[1]));
          }
          let state = ServerState::new(heap, false, sources.clone());
          let mut out = Vec::new();
          let mut mods: Vec<ModuleReference> = sources.keys().copied().collect();
          mods.sort_by_key(|m| m.pretty_print(&state.heap));
          for m in mods {
            for e in state.get_errors(&m) {
              let ide = e.to_ide_format(&state.heap, &sources);
              let l = ide.location;
              let refs: Vec<serde_json::Value> = ide
                .reference_locs
                .iter()
                .map(|r| {
                  serde_json::json!({"module": r.module_reference.pretty_print(&state.heap),
                    "range": [r.start.0, r.start.1, r.end.0, r.end.1]})
                })
                .collect();
              out.push(serde_json::json!({"module": l.module_reference.pretty_print(&state.heap),
                "range": [l.start.0, l.start.1, l.end.0, l.end.1], "refs": refs, "message": ide.ide_error}));
            }
          }
          serde_json::Value::Array(out).to_string()
        }));
        match r {
          Ok(s) => s,
          Err(e) => format!("panic {}", hex(panic_msg(&e).as_bytes())),
        }
      }
      "svc" if t.len() == 3 => {
        let text = unhex_str(t[2]);
        if svc.is_none() {
          svc = Some(Svc::new());
        }
        let r = catch_unwind(AssertUnwindSafe(|| svc.as_mut().unwrap().run(t[1], &text)));
        match r {
          Ok(s) => s,
          Err(e) => {
            svc = None; // state may be inconsistent after a panic
            format!("panic {}", hex(panic_msg(&e).as_bytes()))
          }
        }
      }
      _ => "bad-op".to_string(),
    }
  });
}
