//! Protocols of C14, implementation side, in-process:
//!
//! `lex <hex>`   same as C05: the real token producer's kinds, texts and spans (hook H6).
//! `walk <hex>`  hook-free walk over the `Module<()>` returned by
//!               `parse_source_module_from_text`: a pre-order list of located nodes
//!               `<depth>:<kind>:<l0>.<c0>-<l1>.<c1>[:<hexname>]` separated by `;`, covering imports
//!               (members, module path), toplevels (name, type parameters, members: name, type
//!               parameters, parameters with annotation, return type, body) and the locations of
//!               every reported error; prefix `syn=<n> `.  A panic gives `panic <hexmsg>`.
use samlang_ast::Location;
use samlang_ast::source::{Id, Toplevel, annotation};
use samlang_errors::ErrorSet;
use samlang_heap::{Heap, ModuleReference};
use samverif_harness::util::*;
use std::panic::{AssertUnwindSafe, catch_unwind};

fn span(l: &Location) -> String {
  format!("{}.{}-{}.{}", l.start.0, l.start.1, l.end.0, l.end.1)
}

struct Out<'a> {
  heap: &'a Heap,
  items: Vec<String>,
}

impl Out<'_> {
  fn node(&mut self, depth: usize, kind: &str, l: &Location) {
    self.items.push(format!("{depth}:{kind}:{}", span(l)));
  }
  fn id(&mut self, depth: usize, kind: &str, id: &Id) {
    self.items.push(format!(
      "{depth}:{kind}:{}:{}",
      span(&id.loc),
      hex(id.name.as_str(self.heap).as_bytes())
    ));
  }
  fn tparams(&mut self, depth: usize, tp: Option<&annotation::TypeParameters>) {
    if let Some(tp) = tp {
      self.node(depth, "tparams", &tp.location);
      for p in &tp.parameters {
        self.node(depth + 1, "tparam", &p.loc);
        self.id(depth + 2, "name", &p.name);
        if let Some(b) = &p.bound {
          self.node(depth + 2, "bound", &b.location);
        }
      }
    }
  }
}

fn walk(text: &str) -> String {
  let mut heap = Heap::new();
  let mut error_set = ErrorSet::new();
  let module = samlang_parser::parse_source_module_from_text(
    text,
    ModuleReference::DUMMY,
    &mut heap,
    &mut error_set,
  );
  let syn = error_set.errors().iter().filter(|e| e.is_syntax_error()).count();
  let mut o = Out { heap: &heap, items: Vec::new() };
  for imp in &module.imports {
    o.node(0, "import", &imp.loc);
    for m in &imp.imported_members {
      o.id(1, "name", m);
    }
    o.node(1, "modpath", &imp.imported_module_loc);
  }
  for t in &module.toplevels {
    o.node(0, "toplevel", &t.loc());
    o.id(1, "name", t.name());
    o.tparams(1, t.type_parameters());
    if let Some(e) = t.extends_or_implements_nodes() {
      o.node(1, "extends", &e.location);
      for n in &e.nodes {
        o.node(2, "super", &n.location);
      }
    }
    let bodies: Vec<Option<Location>> = match t {
      Toplevel::Class(c) => c.members.members.iter().map(|m| Some(m.body.loc())).collect(),
      Toplevel::Interface(i) => i.members.members.iter().map(|_| None).collect(),
    };
    for (d, body) in t.members_iter().zip(bodies) {
      // `decl.loc` of a class member spans the whole definition including the body
      o.node(1, "member", &d.loc);
      o.tparams(2, d.type_parameters.as_ref());
      o.id(2, "name", &d.name);
      o.node(2, "params", &d.parameters.location);
      for p in d.parameters.parameters.iter() {
        o.node(3, "param", &p.name.loc.union(&p.annotation.location()));
        o.id(4, "name", &p.name);
        o.node(4, "annot", &p.annotation.location());
      }
      o.node(2, "ret", &d.return_type.location());
      if let Some(b) = &body {
        o.node(2, "body", b);
      }
    }
  }
  for e in error_set.errors() {
    o.node(0, "error", &e.location);
  }
  format!("syn={syn} {}", if o.items.is_empty() { "-".to_string() } else { o.items.join(";") })
}

fn lex(text: &str) -> String {
  let mut heap = Heap::new();
  let mut error_set = ErrorSet::new();
  let mut toks: Vec<String> = Vec::new();
  let r = catch_unwind(AssertUnwindSafe(|| {
    samlang_parser::verif_hooks::produce_tokens_with(
      text,
      ModuleReference::DUMMY,
      &mut heap,
      &mut error_set,
      |(kind, text, (l0, c0, l1, c1))| {
        toks.push(format!("{kind}:{}@{l0}.{c0}-{l1}.{c1}", hex(text.as_bytes())));
      },
    );
  }));
  let mut out = format!("T {}", if toks.is_empty() { "-".to_string() } else { toks.join(";") });
  if r.is_err() {
    out.push_str(" P");
  }
  out
}

fn main() {
  std::panic::set_hook(Box::new(|_| {}));
  for_each_line(|line| {
    let t: Vec<&str> = line.split(' ').collect();
    match t[0] {
      "lex" if t.len() == 2 => lex(&unhex_str(t[1])),
      "walk" if t.len() == 2 => {
        let text = unhex_str(t[1]);
        match catch_unwind(AssertUnwindSafe(|| walk(&text))) {
          Ok(s) => s,
          Err(e) => format!("panic {}", hex(panic_msg(&e).as_bytes())),
        }
      }
      _ => "bad-op".to_string(),
    }
  });
}
