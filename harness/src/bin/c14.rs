//! Harness binary for property C14 (line protocol; see /verif/vlib/BUILDER_GUIDE.md).
fn main() {
  eprintln!("c14: not implemented yet");
  std::process::exit(2);
}
