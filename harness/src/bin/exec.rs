//! Generic protocol over the real-execution oracle.
//! stdin: one JSON object per line {"sources": {"Mod.Name": "text", ...}, "entry": "Mod.Name",
//!        "std": true, "ts": true, "timeout_ms": 10000}
//! stdout: one JSON object per line {"compile": "ok"|"errors"|"panic", "msg": ..., "wasm": {"lines":[..],"end":..}, "ts": {...}}
//! Lines are processed in parallel; answers are printed in input order.
use rayon::prelude::*;
use samverif_harness::exec::*;
use std::io::BufRead;
use std::time::Duration;

fn main() {
  std::panic::set_hook(Box::new(|_| {}));
  let lines: Vec<String> = std::io::stdin().lock().lines().map(|l| l.unwrap()).filter(|l| !l.trim().is_empty()).collect();
  let answers: Vec<String> = lines
    .par_iter()
    .enumerate()
    .map(|(i, line)| {
      let v: serde_json::Value = match serde_json::from_str(line) {
        Ok(v) => v,
        Err(e) => return serde_json::json!({"compile": "bad-input", "msg": e.to_string()}).to_string(),
      };
      let sources: Vec<(String, String)> = v["sources"]
        .as_object()
        .map(|m| m.iter().map(|(k, t)| (k.clone(), t.as_str().unwrap_or("").to_string())).collect())
        .unwrap_or_default();
      let entry = v["entry"].as_str().unwrap_or("").to_string();
      let with_std = v["std"].as_bool().unwrap_or(true);
      let run_ts = v["ts"].as_bool().unwrap_or(true);
      let timeout = Duration::from_millis(v["timeout_ms"].as_u64().unwrap_or(10000));
      match compile_program(&sources, &entry, with_std) {
        CompileOutcome::Errors(e) => serde_json::json!({"compile": "errors", "msg": e}).to_string(),
        CompileOutcome::Panic(e) => serde_json::json!({"compile": "panic", "msg": e}).to_string(),
        CompileOutcome::Ok(c) => {
          let runs = run_compiled(&c, &scratch_dir("exec", i), timeout, run_ts);
          serde_json::json!({
            "compile": "ok",
            "wasm": {"lines": runs.wasm.lines, "end": runs.wasm.end},
            "ts": {"lines": runs.ts.lines, "end": runs.ts.end},
            "wasm_bytes": c.wasm.len(),
          })
          .to_string()
        }
      }
    })
    .collect();
  cleanup_scratch("exec");
  for a in answers {
    println!("{a}");
  }
}
