//! Harness for C11 (language server survives every history of edits and queries).
//! Line protocol (module names are dotted, sources hex-encoded):
//!   reset                      fresh ServerState (no sources)
//!   new  m1 hex1 m2 hex2 ...   ServerState::new with these sources (the "freshly started" path)
//!   up   m1 hex1 [m2 hex2 ...] ServerState::update
//!   rn   old new               ServerState::rename_module
//!   rm   m1 [m2 ...]           ServerState::remove
//!   q    [extra module names]  full query sweep: every query kind at every line/column of every
//!                              module (+ out-of-range positions, + the extra/absent modules)
//! Answers:
//!   ops:  `ok log=<heap call log of this op>`   (see `render_log`)  or `panic <msg>`
//!   q:    `ok n=<queries issued>` or `panic <query>@<module>:<line>:<col> <msg>` (first panic)
use samlang_ast::{Location, Position};
use samlang_heap::{Heap, ModuleReference, verif_hooks::HeapCall};
use samlang_services::{completion, query, rewrite, server_state::ServerState};
use samverif_harness::util::*;
use std::collections::{BTreeMap, HashMap};
use std::panic::{AssertUnwindSafe, catch_unwind};

fn mref(heap: &mut Heap, name: &str) -> ModuleReference {
  heap.alloc_module_reference_from_string_vec(name.split('.').map(|s| s.to_string()).collect())
}

fn show_pstr(p: samlang_heap::PStr) -> String {
  match samlang_heap::verif_hooks::pstr_repr(p) {
    Ok(b) => format!("i{}", hex(&b)),
    Err(id) => format!("r{id}"),
  }
}

/// Every heap string id the server state holds: parsed modules, checked modules, global
/// signatures (generated exhaustive walker) and stored errors (their Debug form).
fn reachable_ids(state: &ServerState) -> Vec<u32> {
  use samlang_services::verif_hooks_c11 as hk;
  use samverif_harness::walk::Walk;
  let mut out = Vec::new();
  for m in hk::parsed_modules(state).values() {
    m.walk(&mut out);
  }
  for m in hk::checked_modules(state).values() {
    m.walk(&mut out);
  }
  hk::global_cx(state).walk(&mut out);
  let mut ids: Vec<u32> =
    out.into_iter().filter_map(|p| samlang_heap::verif_hooks::pstr_repr(p).err()).collect();
  let dbg = format!("{:?}", hk::errors(state));
  for part in dbg.split("id=").skip(1) {
    let digits: String = part.chars().take_while(|c| c.is_ascii_digit()).collect();
    if let Ok(n) = digits.parse::<u32>() {
      ids.push(n);
    }
  }
  ids.sort();
  ids.dedup();
  ids
}

fn tail(state: &ServerState) -> String {
  let st = state.heap.stat();
  let nums: Vec<&str> = st.split(|c: char| !c.is_ascii_digit()).filter(|x| !x.is_empty()).collect();
  let mut mods: Vec<usize> =
    state.string_sources.keys().map(|m| samlang_heap::verif_hooks::module_reference_index(*m)).collect();
  mods.sort();
  format!(
    "stat={} mods={} reach={}",
    nums.join(","),
    mods.iter().map(|m| m.to_string()).collect::<Vec<_>>().join(","),
    reachable_ids(state).iter().map(|m| m.to_string()).collect::<Vec<_>>().join(",")
  )
}

fn render_log(log: Vec<HeapCall>) -> String {
  let mut out = Vec::with_capacity(log.len());
  for c in log {
    out.push(match c {
      HeapCall::AllocString(s) => format!("A{}", hex(s.as_bytes())),
      HeapCall::AllocStatic(s) => format!("S{}", hex(s.as_bytes())),
      HeapCall::AllocTemp => "T".to_string(),
      HeapCall::AllocModuleRef(ps) => {
        format!("R{}", ps.into_iter().map(show_pstr).collect::<Vec<_>>().join(","))
      }
      HeapCall::AddUnmarked(m) => format!("U{m}"),
      HeapCall::Pop(m) => format!("P{m}"),
      HeapCall::Mark(p) => format!("M{}", show_pstr(p)),
      HeapCall::Sweep(w) => format!("W{w}"),
    });
  }
  out.join(" ")
}

struct Sweep {
  n: usize,
  first_panic: Option<String>,
}

fn guard<T>(sw: &mut Sweep, what: &str, m: &str, pos: (u32, u32), f: impl FnOnce() -> T) {
  sw.n += 1;
  if let Err(e) = catch_unwind(AssertUnwindSafe(f)) {
    if sw.first_panic.is_none() {
      sw.first_panic = Some(format!("{what}@{m}:{}:{} [SYNTAX] {}", pos.0, pos.1, panic_msg(&e).replace('\n', " ")));
    }
  }
}

fn positions(text: &str) -> Vec<(u32, u32)> {
  // Small modules: every line/column. Larger ones: every position where a token starts or ends
  // (character-class boundaries) -- the positions at which the location search changes its answer.
  let dense = text.len() <= 700;
  let mut ps = Vec::new();
  let lines: Vec<&str> = text.split('\n').collect();
  let class = |b: u8| -> u8 {
    if b.is_ascii_alphanumeric() || b == b'_' { 1 } else if b.is_ascii_whitespace() { 0 } else { 2 }
  };
  for (l, line) in lines.iter().enumerate() {
    let bytes = line.as_bytes();
    for c in 0..=bytes.len() {
      let boundary = c == 0
        || c == bytes.len()
        || class(bytes[c]) != class(bytes[c - 1])
        || class(bytes[c]) == 2;
      if dense || boundary {
        ps.push((l as u32, c as u32));
      }
    }
    if dense || l % 7 == 0 {
      ps.push((l as u32, line.len() as u32 + 7));
    }
  }
  let nl = lines.len() as u32;
  ps.push((nl, 0));
  ps.push((nl + 5, 3));
  ps.push((0, 100000));
  ps.push((u32::MAX, u32::MAX));
  ps.push((u32::MAX - 1, 0));
  ps
}

fn query_sweep(state: &mut ServerState, names: &BTreeMap<String, ModuleReference>, sw: &mut Sweep) {
  for (name, m) in names {
    let m = *m;
    let text = state.string_sources.get(&m).cloned().unwrap_or_default();
    guard(sw, "errors", name, (0, 0), || {
      let errs = state.get_errors(&m);
      let mut s = String::new();
      for e in errs {
        let ide = e.to_ide_format(&state.heap, &state.string_sources);
        s.push_str(&ide.ide_error);
        s.push_str(&ide.full_error);
        for l in &ide.reference_locs {
          s.push_str(&l.pretty_print(&state.heap));
        }
      }
      s
    });
    guard(sw, "format", name, (0, 0), || rewrite::format_entire_document(state, &m));
    guard(sw, "folding", name, (0, 0), || query::folding_ranges(state, &m));
    for (l, c) in positions(&text) {
      let pos = Position(l, c);
      guard(sw, "hover", name, (l, c), || {
        query::hover(state, &m, pos).map(|r| r.contents.iter().map(|c| c.to_string()).collect::<Vec<_>>())
      });
      guard(sw, "definition", name, (l, c), || {
        query::definition_location(state, &m, pos).map(|l| l.pretty_print(&state.heap))
      });
      guard(sw, "references", name, (l, c), || {
        query::all_references(state, &m, pos).iter().map(|l| l.pretty_print(&state.heap)).collect::<Vec<_>>()
      });
      guard(sw, "signature", name, (l, c), || query::signature_help(state, &m, pos).map(|r| r.to_string()));
      guard(sw, "completion", name, (l, c), || {
        completion::auto_complete(state, &m, pos).iter().map(|i| i.to_string()).collect::<Vec<_>>()
      });
      guard(sw, "codeaction", name, (l, c), || {
        let loc = Location { module_reference: m, start: pos, end: pos };
        format!("{:?}", rewrite::code_actions(state, loc))
      });
      guard(sw, "rename", name, (l, c), || rewrite::rename(state, &m, pos, "renamedVariableWithLongName"));
      guard(sw, "rename-bad", name, (l, c), || rewrite::rename(state, &m, pos, "Bad Name"));
    }
  }
}

fn main() {
  if std::env::var("C11_SHOW_PANIC").is_err() {
    std::panic::set_hook(Box::new(|_| {}));
  }
  let mut state = ServerState::new(Heap::new(), false, HashMap::new());
  // every module name ever mentioned in this history (also the removed / renamed-away ones)
  let mut names: BTreeMap<String, ModuleReference> = BTreeMap::new();
  for_each_line(|line| {
    let t: Vec<&str> = line.split(' ').collect();
    let op = t[0];
    let r = catch_unwind(AssertUnwindSafe(|| match op {
      "reset" => {
        // like the CLI's language server: the std library modules are part of the workspace
        let mut heap = Heap::new();
        let srcs = samlang_parser::builtin_std_raw_sources(&mut heap);
        state = ServerState::new(heap, false, srcs);
        names.clear();
        format!("ok {} log={}", tail(&state), render_log(std::mem::take(&mut state.heap.verif_log)))
      }
      "new" => {
        let mut heap = Heap::new();
        names.clear();
        let mut srcs = samlang_parser::builtin_std_raw_sources(&mut heap);
        for pair in t[1..].chunks(2) {
          let m = mref(&mut heap, pair[0]);
          names.insert(pair[0].to_string(), m);
          srcs.insert(m, unhex_str(pair[1]));
        }
        state = ServerState::new(heap, false, srcs);
        format!("ok {} log={}", tail(&state), render_log(std::mem::take(&mut state.heap.verif_log)))
      }
      "up" => {
        let mut ups = Vec::new();
        for pair in t[1..].chunks(2) {
          let m = mref(&mut state.heap, pair[0]);
          names.insert(pair[0].to_string(), m);
          ups.push((m, unhex_str(pair[1])));
        }
        state.update(ups);
        format!("ok {} log={}", tail(&state), render_log(std::mem::take(&mut state.heap.verif_log)))
      }
      "rn" => {
        let a = mref(&mut state.heap, t[1]);
        let b = mref(&mut state.heap, t[2]);
        names.insert(t[1].to_string(), a);
        names.insert(t[2].to_string(), b);
        state.rename_module(vec![(a, b)]);
        format!("ok {} log={}", tail(&state), render_log(std::mem::take(&mut state.heap.verif_log)))
      }
      "rm" => {
        let ms: Vec<ModuleReference> = t[1..]
          .iter()
          .map(|n| {
            let m = mref(&mut state.heap, n);
            names.insert(n.to_string(), m);
            m
          })
          .collect();
        state.remove(&ms);
        format!("ok {} log={}", tail(&state), render_log(std::mem::take(&mut state.heap.verif_log)))
      }
      "q" => {
        for n in &t[1..] {
          let m = mref(&mut state.heap, n);
          names.insert(n.to_string(), m);
        }
        let mut sw = Sweep { n: 0, first_panic: None };
        query_sweep(&mut state, &names, &mut sw);
        match sw.first_panic {
          None => format!("ok n={}", sw.n),
          Some(p) => {
            // does the current text of the module in which the query panicked have syntax errors?
            let mname = p.split('@').nth(1).and_then(|r| r.split(':').next()).unwrap_or("").to_string();
            let flag = match names.get(&mname).and_then(|m| state.string_sources.get(m)) {
              Some(text) => {
                let mut h = Heap::new();
                let mut es = samlang_errors::ErrorSet::new();
                let _ = samlang_parser::parse_source_module_from_text(text, ModuleReference::DUMMY, &mut h, &mut es);
                if es.has_errors() { "syntax-errors=1" } else { "syntax-errors=0" }
              }
              None => "syntax-errors=absent",
            };
            format!("panic {}", p.replace("[SYNTAX]", &format!("[{flag}]")))
          }
        }
      }
      other => format!("bad-op {other}"),
    }));
    match r {
      Ok(s) => s,
      Err(e) => format!("panic op:{op} {}", panic_msg(&e).replace('\n', " ")),
    }
  });
}
