//! Harness binary for property C11 (line protocol; see /verif/vlib/BUILDER_GUIDE.md).
fn main() {
  eprintln!("c11: not implemented yet");
  std::process::exit(2);
}
