//! Harness binary for property C13 (line protocol; see /verif/vlib/BUILDER_GUIDE.md).
//!   ssa <hex source>         -> `<model input dump> => <canonical SsaAnalysisResult>` | `syntax`
//!   sig <hex source>         -> `<toplevel dump> => <canonical ModuleSignature>` | `syntax`
//!   check <hex json>         -> verdict of the real parser + checker on a set of modules (with std)
//!   cls <hex expression>     -> `<shape dump> => 0|1`: the checker's own `arguments_should_be_checked_without_hint`
//!                               (hook verif_hooks_c13) on the parsed expression | `syntax`
use samlang_errors::ErrorSet;
use samlang_heap::{Heap, ModuleReference, PStr};
use samverif_harness::scopedump::Dumper;
use samverif_harness::util::*;
use std::collections::HashMap;
use std::panic::{AssertUnwindSafe, catch_unwind};

fn ssa(src: &str) -> String {
  let mut heap = Heap::new();
  let mref = heap.alloc_module_reference_from_string_vec(vec!["Test".to_string()]);
  let mut errors = ErrorSet::new();
  let m = samlang_parser::parse_source_module_from_text(src, mref, &mut heap, &mut errors);
  if errors.has_errors() {
    return "syntax".to_string();
  }
  let mut ssa_errors = ErrorSet::new();
  let r = samlang_checker::perform_ssa_analysis_on_module(mref, &m, &mut ssa_errors);
  let mut d = Dumper::new(&heap, mref);
  d.module(&m);
  if !d.loc_mismatch.is_empty() {
    return format!("locinv {}", d.loc_mismatch.join(","));
  }
  if !d.tparam_mismatch.is_empty() {
    return format!("tpinv {}", d.tparam_mismatch.join(","));
  }
  let res = d.render(&r, &ssa_errors);
  format!("{}=> {}", d.out, res)
}

/// Canonical form of `build_module_signature`: which declaration won for every name.
fn sig(src: &str) -> String {
  use samlang_ast::source::*;
  use samlang_checker::type_::TypeDefinitionSignature;
  let mut heap = Heap::new();
  let mref = heap.alloc_module_reference_from_string_vec(vec!["Test".to_string()]);
  let mut errors = ErrorSet::new();
  let m = samlang_parser::parse_source_module_from_text(src, mref, &mut heap, &mut errors);
  if errors.has_errors() {
    return "syntax".to_string();
  }
  let mut d = Dumper::new(&heap, mref);
  // model input: per toplevel (top NAME LOC class? private? ntparams nsupers (m NAME LOC method? nargs)* (td ...))
  let mut dump = String::new();
  for t in &m.toplevels {
    let l = d.loc(&t.loc());
    dump.push_str(&format!(
      "top {} {} {} {} {} {} ",
      t.name().name.as_str(&heap),
      l,
      t.is_class() as u8,
      t.is_private() as u8,
      t.type_parameters().map(|it| it.parameters.len()).unwrap_or(0),
      t.extends_or_implements_nodes().map(|it| it.nodes.len()).unwrap_or(0)
    ));
    for mem in t.members_iter() {
      let ml = d.loc(&mem.loc);
      dump.push_str(&format!(
        "m {} {} {} {} ",
        mem.name.name.as_str(&heap),
        ml,
        mem.is_method as u8,
        mem.parameters.parameters.len()
      ));
    }
    match t.type_definition() {
      None => dump.push_str("tdnone "),
      Some(TypeDefinition::Struct { loc, fields, .. }) => {
        let tl = d.loc(loc);
        dump.push_str(&format!("tdstruct {} {} ", tl, fields.len()));
        for f in fields {
          dump.push_str(&format!("f {} ", f.name.name.as_str(&heap)));
        }
      }
      Some(TypeDefinition::Enum { loc, variants, .. }) => {
        let tl = d.loc(loc);
        dump.push_str(&format!("tdenum {} ", tl));
        for v in variants {
          dump.push_str(&format!(
            "v {} {} ",
            v.name.name.as_str(&heap),
            v.associated_data_types.as_ref().map(|it| it.annotations.len()).unwrap_or(0)
          ));
        }
      }
    }
    dump.push_str("end ");
  }
  let s = samlang_checker::build_module_signature(mref, &m);
  let mut ifaces: Vec<String> = s
    .interfaces
    .iter()
    .map(|(name, i)| {
      let mem = |m: &HashMap<PStr, samlang_checker::type_::MemberSignature>| {
        let mut v: Vec<String> = m
          .iter()
          .map(|(n, ms)| {
            format!("{}@{}/{}", n.as_str(&heap), d.loc_str(&ms.type_.reason.use_loc), ms.type_.argument_types.len())
          })
          .collect();
        v.sort();
        v.join("+")
      };
      let td = match &i.type_definition {
        None => "none".to_string(),
        Some(TypeDefinitionSignature::Struct(fs)) => {
          format!("struct:{}", fs.iter().map(|f| f.name.as_str(&heap).to_string()).collect::<Vec<_>>().join("+"))
        }
        Some(TypeDefinitionSignature::Enum(vs)) => format!(
          "enum:{}",
          vs.iter().map(|v| format!("{}/{}", v.name.as_str(&heap), v.types.len())).collect::<Vec<_>>().join("+")
        ),
      };
      format!(
        "{}{{p{} t{} s{} {} F[{}] M[{}]}}",
        name.as_str(&heap),
        i.private as u8,
        i.type_parameters.len(),
        i.super_types.len(),
        td,
        mem(&i.functions),
        mem(&i.methods)
      )
    })
    .collect();
  ifaces.sort();
  format!("{}=> {}", dump, ifaces.join(" "))
}

/// Real parser + checker on a multi-module program (std added like the CLI does).
fn check(json: &str) -> String {
  let v: serde_json::Value = serde_json::from_str(json).expect("json");
  let mut heap = Heap::new();
  let mut error_set = ErrorSet::new();
  let mut parsed = HashMap::new();
  let mut texts: HashMap<ModuleReference, String> = HashMap::new();
  for (m, s) in samlang_parser::builtin_std_raw_sources(&mut heap) {
    texts.insert(m, s);
  }
  for (name, text) in v.as_object().expect("object") {
    let parts: Vec<String> = name.split('.').map(|s| s.to_string()).collect();
    let m = heap.alloc_module_reference_from_string_vec(parts);
    texts.insert(m, text.as_str().unwrap().to_string());
  }
  for (m, s) in &texts {
    let p = samlang_parser::parse_source_module_from_text(s, *m, &mut heap, &mut error_set);
    parsed.insert(*m, p);
  }
  let _ = samlang_checker::type_check_sources(&parsed, &mut error_set);
  if !error_set.has_errors() {
    return "accepted 0".to_string();
  }
  let mut kinds: Vec<String> = error_set
    .errors()
    .iter()
    .map(|e| {
      let d = format!("{:?}", e.detail);
      d.split(|c: char| !c.is_ascii_alphanumeric()).next().unwrap_or("?").to_string()
    })
    .collect();
  kinds.sort();
  format!("rejected {} {}", kinds.len(), kinds.join(","))
}

/// shape of an expression as `Model/C13Hint.lean` sees it (structure only; the decision is the hook's)
fn shape(e: &samlang_ast::source::expr::E<()>, out: &mut String) {
  use samlang_ast::source::expr;
  fn block(b: &expr::Block<()>, out: &mut String) {
    out.push_str("( b ");
    match &b.expression {
      Some(f) => shape(f, out),
      None => out.push_str("- "),
    }
    out.push_str(") ");
  }
  fn if_else(i: &expr::IfElse<()>, out: &mut String) {
    out.push_str("( if ");
    match &i.e1.expression {
      Some(f) => shape(f, out),
      None => out.push_str("- "),
    }
    match i.e2.as_ref() {
      expr::IfElseOrBlock::IfElse(n) => if_else(n, out),
      expr::IfElseOrBlock::Block(b) => block(b, out),
    }
    out.push_str(") ");
  }
  match e {
    expr::E::Literal(_, _)
    | expr::E::LocalId(_, _)
    | expr::E::ClassId(_, _, _)
    | expr::E::Tuple(_, _)
    | expr::E::FieldAccess(_)
    | expr::E::MethodAccess(_)
    | expr::E::Unary(_)
    | expr::E::Binary(_) => out.push_str("s "),
    expr::E::Call(_) => out.push_str("c "),
    expr::E::IfElse(i) => if_else(i, out),
    expr::E::Match(m) => {
      out.push_str("( m ");
      for c in &m.cases {
        shape(&c.body, out);
      }
      out.push_str(") ");
    }
    expr::E::Lambda(l) => {
      out.push_str("( l ");
      if l.parameters.parameters.is_empty() {
        out.push('-');
      }
      for p in &l.parameters.parameters {
        out.push(if p.annotation.is_some() { '1' } else { '0' });
      }
      out.push(' ');
      shape(&l.body, out);
      out.push_str(") ");
    }
    expr::E::Block(b) => block(b, out),
  }
}

fn cls(src: &str) -> String {
  let mut heap = Heap::new();
  let mref = heap.alloc_module_reference_from_string_vec(vec!["Test".to_string()]);
  let mut errors = ErrorSet::new();
  let (_, e) = samlang_parser::parse_source_expression_from_text(src, mref, &mut heap, &mut errors);
  if errors.has_errors() {
    return "syntax".to_string();
  }
  let mut out = String::new();
  shape(&e, &mut out);
  let r = samlang_checker::verif_hooks_c13::arguments_should_be_checked_without_hint(&e);
  format!("{}=> {}", out, r as u8)
}

fn main() {
  std::panic::set_hook(Box::new(|_| {}));
  for_each_line(|line| {
    let t: Vec<&str> = line.splitn(2, ' ').collect();
    let arg = if t.len() > 1 { unhex_str(t[1]) } else { String::new() };
    let r = catch_unwind(AssertUnwindSafe(|| match t[0] {
      "ssa" => ssa(&arg),
      "sig" => sig(&arg),
      "check" => check(&arg),
      "cls" => cls(&arg),
      _ => "bad-op".to_string(),
    }));
    match r {
      Ok(s) => s,
      Err(e) => format!("panic {}", panic_msg(&e).replace('\n', " ")),
    }
  });
}
