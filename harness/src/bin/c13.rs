//! Harness binary for property C13 (line protocol; see /verif/vlib/BUILDER_GUIDE.md).
fn main() {
  eprintln!("c13: not implemented yet");
  std::process::exit(2);
}
