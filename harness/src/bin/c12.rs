//! Harness binary for property C12 (line protocol; see /verif/vlib/BUILDER_GUIDE.md).
fn main() {
  eprintln!("c12: not implemented yet");
  std::process::exit(2);
}
