//! Harness binary for property C12 ("compilation results depend only on the sources").
//!
//! ONE invocation = ONE fresh process: fresh `RandomState` keys for every std HashMap/HashSet of
//! the compiler, the global rayon pool sized by the environment variable RAYON_NUM_THREADS.
//! stdin : one JSON object per line
//!   {"sources": [["Mod.Name", "text"], ...],   // in *allocation order* of the module references
//!    "entry": ["Mod.Name", ...], "std": true, "std_last": false,
//!    "mir": true,      // also run the staged pipeline and dump MIR before/after optimisation
//!    "run": true,      // execute the emitted wasm / TS of the first entry point under Node >= 22
//!    "timeout_ms": 10000}
//! stdout: one JSON object per line
//!   {"verdict": "ok"|"errors"|"panic", "diag": rendered diagnostics or panic message,
//!    "files": [names of emitted files], "ts": emitted TS of entry 0, "wasm_fp": fingerprint,
//!    "mir0": MIR text before optimisation, "mir1": after, "lir_ts": TS text of the staged run,
//!    "wasm": {"lines","end"}, "tsrun": {"lines","end"}, "threads": rayon threads in use}
//! Every program gets its own `Heap`, so nothing depends on earlier lines of the same process.
use samlang_heap::{Heap, ModuleReference};
use samverif_harness::exec::{run_compiled, scratch_dir, cleanup_scratch, Compiled};
use std::collections::HashMap;
use std::hash::Hasher;
use std::io::BufRead;
use std::time::Duration;

fn fingerprint(bytes: &[u8]) -> String {
  // SipHash-1-3 with the fixed all-zero key: deterministic across processes
  #[allow(deprecated)]
  let mut h = std::hash::SipHasher::new();
  h.write(bytes);
  format!("{:016x}:{}", h.finish(), bytes.len())
}

struct Loaded {
  heap: Heap,
  handles: HashMap<ModuleReference, String>,
  entries: Vec<ModuleReference>,
}

/// Allocates the module references in the order given by the request (that is what "the order in
/// which modules are enumerated" means for `compile_sources`: the CLI allocates them in directory
/// enumeration order) and fills the `HashMap` handed to the compiler.
fn load(v: &serde_json::Value) -> Loaded {
  let mut heap = Heap::new();
  let mut handles: HashMap<ModuleReference, String> = HashMap::new();
  let with_std = v["std"].as_bool().unwrap_or(true);
  let std_last = v["std_last"].as_bool().unwrap_or(false);
  if with_std && !std_last {
    for (m, s) in samlang_parser::builtin_std_raw_sources(&mut heap) {
      handles.insert(m, s);
    }
  }
  let mut by_name: HashMap<String, ModuleReference> = HashMap::new();
  for pair in v["sources"].as_array().cloned().unwrap_or_default() {
    let name = pair[0].as_str().unwrap_or("").to_string();
    let text = pair[1].as_str().unwrap_or("").to_string();
    let parts: Vec<String> = name.split('.').map(|s| s.to_string()).collect();
    let m = heap.alloc_module_reference_from_string_vec(parts);
    by_name.insert(name, m);
    handles.insert(m, text);
  }
  if with_std && std_last {
    for (m, s) in samlang_parser::builtin_std_raw_sources(&mut heap) {
      handles.insert(m, s);
    }
  }
  let mut entries: Vec<ModuleReference> = v["entry"]
    .as_array()
    .map(|a| a.iter().filter_map(|e| e.as_str()).filter_map(|e| by_name.get(e).copied()).collect())
    .unwrap_or_default();
  // an entry point that is not among the sources ("Invalid entry point: .. does not exist.")
  if let Some(name) = v["missing_entry"].as_str() {
    let parts: Vec<String> = name.split('.').map(|s| s.to_string()).collect();
    entries.push(heap.alloc_module_reference_from_string_vec(parts));
  }
  Loaded { heap, handles, entries }
}

/// The same stages `samlang_compiler::compile_sources` runs (crates/samlang-compiler/src/lib.rs:38-83),
/// through the crates' public stage functions, so that the intermediate MIR can be dumped.
/// next temp number the heap would hand out (`str_pointer_table.len()`), read without side effect:
/// a fresh counter starts there and its first name is `_t<that number>`.
fn heap_len(heap: &Heap) -> u64 {
  let name = heap.create_temp_counter().alloc_temp_str();
  heap.verif_counter_log.lock().unwrap().pop(); // this probe is not part of the compiler's discipline
  name.as_str(heap)[2..].parse().unwrap_or(0)
}

struct Staged {
  mir0: String,
  mir1: String,
  ts: String,
  /// heap length after lowering to MIR, after `optimize_sources`, after `compile_mir_to_lir`
  heap_lens: [u64; 3],
  /// the sync discipline as logged by the heap hook: `c<start>@<n>` / `s<value>@<n>`, n = number of
  /// heap calls logged before the event; plus the positions of the sequential `alloc_temp_str` calls
  counter_log: String,
}

fn staged(v: &serde_json::Value) -> Result<Staged, String> {
  let Loaded { mut heap, handles, entries: _ } = load(v);
  let heap = &mut heap;
  let mut error_set = samlang_errors::ErrorSet::new();
  let mut parsed = HashMap::new();
  let mut ordered = handles.iter().collect::<Vec<_>>();
  ordered.sort_by_cached_key(|(m, _)| m.pretty_print(heap));
  for (m, s) in ordered {
    parsed.insert(*m, samlang_parser::parse_source_module_from_text(s, *m, heap, &mut error_set));
  }
  let checked = samlang_checker::type_check_sources(&parsed, &mut error_set).0;
  if error_set.has_errors() {
    return Err(error_set.pretty_print_error_messages(heap, &handles));
  }
  let mir0 = samlang_compiler::compile_sources_to_mir(heap, &checked);
  let mir0_text = mir0.debug_print(heap);
  let h0 = heap_len(heap);
  heap.verif_log.clear();
  heap.verif_counter_log.lock().unwrap().clear();
  let mir1 = samlang_optimization::optimize_sources(
    heap,
    mir0,
    &samlang_optimization::ALL_ENABLED_CONFIGURATION,
  );
  let mir1_text = mir1.debug_print(heap);
  let h1 = heap_len(heap);
  let lir = samlang_compiler::compile_mir_to_lir(heap, mir1);
  let h2 = heap_len(heap);
  let ts = lir.pretty_print(heap);
  // sync discipline: counter events and the positions of the sequential alloc_temp_str calls
  let temps: Vec<usize> = heap
    .verif_log
    .iter()
    .enumerate()
    .filter(|(_, c)| matches!(c, samlang_heap::verif_hooks::HeapCall::AllocTemp))
    .map(|(i, _)| i)
    .collect();
  let mut events: Vec<(usize, String)> = heap
    .verif_counter_log
    .lock()
    .unwrap()
    .iter()
    .map(|(k, n, at)| (*at, format!("{k}{n}")))
    .collect();
  for (i, at) in temps.iter().enumerate() {
    if i == 0 || temps[i - 1] + 1 != *at {
      events.push((*at, "t".to_string()));
    }
  }
  events.sort_by_key(|(at, _)| *at);
  let counter_log = events.into_iter().map(|(_, e)| e).collect::<Vec<_>>().join(",");
  Ok(Staged { mir0: mir0_text, mir1: mir1_text, ts, heap_lens: [h0, h1, h2], counter_log })
}

fn one(line: &str, idx: usize) -> serde_json::Value {
  let v: serde_json::Value = match serde_json::from_str(line) {
    Ok(v) => v,
    Err(e) => return serde_json::json!({"verdict": "bad-input", "diag": e.to_string()}),
  };
  let want_mir = v["mir"].as_bool().unwrap_or(false);
  let want_run = v["run"].as_bool().unwrap_or(false);
  let timeout = Duration::from_millis(v["timeout_ms"].as_u64().unwrap_or(10000));
  let mut out = serde_json::json!({"threads": rayon::current_num_threads()});
  // 1. the real entry point
  let vv = v.clone();
  let r = std::panic::catch_unwind(move || {
    let Loaded { mut heap, handles, entries } = load(&vv);
    let res = samlang_compiler::compile_sources(&mut heap, handles, entries.clone(), false);
    let names: Vec<String> = entries.iter().map(|m| m.pretty_print(&heap)).collect();
    (res, names)
  });
  let mut compiled: Option<Compiled> = None;
  match r {
    Err(e) => {
      out["verdict"] = "panic".into();
      out["diag"] = samverif_harness::util::panic_msg(&e).into();
    }
    Ok((Err(diag), _)) => {
      out["verdict"] = "errors".into();
      out["diag"] = diag.into();
    }
    Ok((Ok(res), names)) => {
      out["verdict"] = "ok".into();
      out["diag"] = "".into();
      out["files"] = res.text_code_results.keys().cloned().collect::<Vec<_>>().into();
      let entry = names.first().cloned().unwrap_or_default();
      let get = |k: &str| res.text_code_results.get(k).cloned().unwrap_or_default();
      let c = Compiled {
        ts: get(&format!("{entry}.ts")),
        wasm_js: get(&format!("{entry}.wasm.js")),
        loader: get("__samlang_loader__.js"),
        wat: get("__all__.wat"),
        wasm: res.wasm_file,
      };
      out["ts"] = c.ts.clone().into();
      out["wasm_js"] = c.wasm_js.clone().into();
      out["wasm_fp"] = fingerprint(&c.wasm).into();
      out["ts_fp"] = fingerprint(c.ts.as_bytes()).into();
      compiled = Some(c);
    }
  }
  // 2. the staged pipeline for the MIR dumps
  if want_mir && out["verdict"] == "ok" {
    let vv = v.clone();
    match std::panic::catch_unwind(move || staged(&vv)) {
      Ok(Ok(st)) => {
        out["mir0"] = st.mir0.into();
        out["mir1"] = st.mir1.into();
        out["lir_ts"] = st.ts.into();
        out["heap_lens"] = serde_json::json!(st.heap_lens);
        out["counter_log"] = st.counter_log.into();
      }
      Ok(Err(diag)) => {
        out["staged"] = format!("errors:{diag}").into();
      }
      Err(e) => {
        out["staged"] = format!("panic:{}", samverif_harness::util::panic_msg(&e)).into();
      }
    }
  }
  // 3. behaviour of what this very process emitted
  if want_run && let Some(c) = compiled {
    let runs = run_compiled(&c, &scratch_dir("c12", idx), timeout, true);
    out["wasm"] = serde_json::json!({"lines": runs.wasm.lines, "end": runs.wasm.end});
    out["tsrun"] = serde_json::json!({"lines": runs.ts.lines, "end": runs.ts.end});
  }
  out
}

/// Protocol `errset` (see lean/Driver/C12.lean): the real `samlang_errors::ErrorSet`, real
/// `Location`/`ModuleReference`/`PStr` values; the handles are allocated in the order given on the line.
fn errset_line(line: &str) -> String {
  use samlang_ast::{Location, Position};
  use samlang_errors::{ErrorDetail, ErrorSet};
  use samlang_heap::PStr;
  let t: Vec<&str> = line.split_whitespace().collect();
  if t.len() != 4 || (t[0] != "merge" && t[0] != "mergen") {
    return "bad-op".to_string();
  }
  let nats = |s: &str| -> Vec<usize> {
    if s == "-" { vec![] } else { s.split(',').map(|x| x.parse().unwrap()).collect() }
  };
  let mut heap = Heap::new();
  let mut mods: HashMap<usize, ModuleReference> = HashMap::new();
  let mut mod_back: HashMap<ModuleReference, usize> = HashMap::new();
  for m in nats(t[1]) {
    // modules 0 and 1 are called `M0-x` and `M0_x`: distinct printed names (and still in index order
    // among `M2`, `M3`, …) whose *encoded* forms coincide — a by-name report keyed on anything but the
    // printed name ties on them and falls back to allocation order (seeded C12h)
    let name = match m { 0 => "M0-x".to_string(), 1 => "M0_x".to_string(), _ => format!("M{m}") };
    let r = heap.alloc_module_reference_from_string_vec(vec![name]);
    mods.insert(m, r);
    mod_back.insert(r, m);
  }
  let mut strs: HashMap<usize, PStr> = HashMap::new();
  let mut str_back: HashMap<PStr, usize> = HashMap::new();
  for h in nats(t[2]) {
    let p = heap.alloc_string(format!("LongHeapStringName{h:05}"));
    strs.insert(h, p);
    str_back.insert(p, h);
  }
  let pstr_of = |heap: &mut Heap, a: &str| -> PStr {
    if let Some(h) = a.strip_prefix('h') {
      strs[&h.parse::<usize>().unwrap()]
    } else {
      heap.alloc_string(samverif_harness::util::unhex_str(&a[1..]))
    }
  };
  let mut global = ErrorSet::new();
  for group in t[3].split(';') {
    let mut local = ErrorSet::new();
    if group != "-" {
      for e in group.split(',') {
        let f: Vec<&str> = e.split('.').collect();
        let n = |i: usize| f[i].parse::<u32>().unwrap();
        let loc = Location {
          module_reference: mods[&(n(0) as usize)],
          start: Position(n(1), n(2)),
          end: Position(n(3), n(4)),
        };
        let atoms: Vec<&str> = if f[6] == "-" { vec![] } else { f[6].split('+').collect() };
        match n(5) {
          0 => {
            let m = mods[&atoms[0][1..].parse::<usize>().unwrap()];
            let name = pstr_of(&mut heap, atoms[1]);
            local.report_cannot_resolve_class_error(loc, m, name)
          }
          2 => local.report_cannot_resolve_module_error(loc, mods[&atoms[0][1..].parse::<usize>().unwrap()]),
          3 => {
            let name = pstr_of(&mut heap, atoms[0]);
            local.report_cannot_resolve_name_error(loc, name)
          }
          6 => local.report_illegal_function_in_interface(loc),
          9 => local.report_invalid_syntax_error(loc, samverif_harness::util::unhex_str(&atoms[0][1..])),
          10 => {
            let v: Vec<PStr> = atoms.iter().map(|a| pstr_of(&mut heap, a)).collect();
            local.report_missing_class_member_definition_error(loc, v)
          }
          16 => {
            // NotAnEnum { description }: atoms spell a Description chain in derived-Ord order:
            // n1 = BoolType, n2 = IntType, n12 p = Class(p), n13 p [rest] = NominalType{p, [rest]}
            fn descr(heap: &mut Heap, atoms: &[&str], pstr_of: &dyn Fn(&mut Heap, &str) -> PStr) -> samlang_ast::Description {
              use samlang_ast::Description as D;
              match atoms[0] {
                "n1" => D::BoolType,
                "n2" => D::IntType,
                "n12" => D::Class(pstr_of(heap, atoms[1])),
                _ => {
                  let name = pstr_of(heap, atoms[1]);
                  let type_args = if atoms.len() > 2 { vec![descr(heap, &atoms[2..], pstr_of)] } else { vec![] };
                  D::NominalType { name, type_args }
                }
              }
            }
            let d = descr(&mut heap, &atoms, &pstr_of);
            local.report_not_an_enum_error(loc, d)
          }
          14 => local.report_non_exhaustive_tuple_binding_error(
            loc,
            atoms[0][1..].parse().unwrap(),
            atoms[1][1..].parse().unwrap(),
          ),
          21 => local.report_underconstrained_error(loc),
          22 => local.report_useless_pattern_error(loc, &atoms[0][1..] == "1"),
          _ => return "bad-rank".to_string(),
        }
      }
    }
    global.merge(local);
  }
  if t[0] == "mergen" {
    // the report `compile_sources` renders: module by module in module-name order; answer = the
    // location headers of the blocks in order, e.g. `M1.sam:2:3-2:5,M2.sam:1:1-1:2`
    let text = global.pretty_print_error_messages_in_module_name_order(&heap, &HashMap::new());
    // per block: `<header location>#<rank of the ErrorDetail kind>[#<name>]` (the name for
    // `Cannot resolve name`), so that errors tying on the location stay distinguishable
    let lines: Vec<&str> = text.lines().collect();
    let mut heads: Vec<String> = Vec::new();
    for (i, l) in lines.iter().enumerate() {
      if !l.starts_with("Error -") {
        continue;
      }
      let loc = l.rsplit(' ').next().unwrap_or("").to_string();
      let loc = if let Some(r) = loc.strip_prefix("M0-x.sam") { format!("M0.sam{r}") }
        else if let Some(r) = loc.strip_prefix("M0_x.sam") { format!("M1.sam{r}") } else { loc };
      let msg = lines[i + 1..].iter().find(|x| !x.trim().is_empty()).copied().unwrap_or("");
      let tag = if let Some(rest) = msg.strip_prefix("Cannot resolve name `") {
        let name = rest.trim_end_matches("`.");
        match name.strip_prefix("LongHeapStringName") {
          Some(k) => format!("3#h{}", k.parse::<usize>().unwrap_or(0)),
          None => format!("3#i{}", samverif_harness::util::hex(name.as_bytes())),
        }
      } else if msg.starts_with("Cannot resolve class") {
        "0".to_string()
      } else if msg.starts_with("Cannot resolve module") {
        "2".to_string()
      } else if msg.starts_with("Function declarations are not allowed") {
        "6".to_string()
      } else if msg.starts_with("The following members must be implemented") {
        "10".to_string()
      } else if msg.starts_with("The pattern does not bind") || msg.contains("tuple") {
        "14".to_string()
      } else if msg.ends_with("is not an instance of an enum class.") {
        "16".to_string()
      } else if msg.starts_with("There is not enough context") {
        "21".to_string()
      } else if msg.starts_with("The pattern is") || msg.contains("useless") || msg.contains("irrefutable") {
        "22".to_string()
      } else {
        "9".to_string()
      };
      heads.push(format!("{loc}#{tag}"));
    }
    return if heads.is_empty() { "-".to_string() } else { heads.join(",") };
  }
  let show_pstr = |p: &PStr| -> String {
    match str_back.get(p) {
      Some(h) => format!("h{h}"),
      None => format!("i{}", samverif_harness::util::hex(p.as_str(&heap).as_bytes())),
    }
  };
  let mut out: Vec<String> = Vec::new();
  for e in global.errors() {
    let l = &e.location;
    let (rank, atoms): (u32, Vec<String>) = match &e.detail {
      ErrorDetail::CannotResolveClass { module_reference, name } => {
        (0, vec![format!("m{}", mod_back[module_reference]), show_pstr(name)])
      }
      ErrorDetail::CannotResolveModule { module_reference } => {
        (2, vec![format!("m{}", mod_back[module_reference])])
      }
      ErrorDetail::CannotResolveName { name } => (3, vec![show_pstr(name)]),
      ErrorDetail::IllegalFunctionInInterface => (6, vec![]),
      ErrorDetail::InvalidSyntax(s) => (9, vec![format!("i{}", samverif_harness::util::hex(s.as_bytes()))]),
      ErrorDetail::MissingClassMemberDefinitions { missing_definitions } => {
        (10, missing_definitions.iter().map(show_pstr).collect())
      }
      ErrorDetail::NonExhaustiveTupleBinding { expected_count, actual_count } => {
        (14, vec![format!("n{expected_count}"), format!("n{actual_count}")])
      }
      ErrorDetail::NotAnEnum { description } => {
        fn flat(d: &samlang_ast::Description, show: &dyn Fn(&PStr) -> String, out: &mut Vec<String>) {
          use samlang_ast::Description as D;
          match d {
            D::BoolType => out.push("n1".to_string()),
            D::IntType => out.push("n2".to_string()),
            D::Class(p) => {
              out.push("n12".to_string());
              out.push(show(p));
            }
            D::NominalType { name, type_args } => {
              out.push("n13".to_string());
              out.push(show(name));
              for t in type_args {
                flat(t, show, out);
              }
            }
            _ => out.push("n99".to_string()),
          }
        }
        let mut v = Vec::new();
        flat(description, &show_pstr, &mut v);
        (16, v)
      }
      ErrorDetail::Underconstrained => (21, vec![]),
      ErrorDetail::UselessPattern { only_pattern } => (22, vec![format!("n{}", *only_pattern as u8)]),
      _ => (99, vec![]),
    };
    out.push(format!(
      "{}.{}.{}.{}.{}.{}.{}",
      mod_back[&l.module_reference],
      l.start.0,
      l.start.1,
      l.end.0,
      l.end.1,
      rank,
      if atoms.is_empty() { "-".to_string() } else { atoms.join("+") }
    ));
  }
  if out.is_empty() { "-".to_string() } else { out.join(",") }
}

/// Protocol `tempctr`: the real `samlang_heap::TempPStrCounter` shared by real threads.
/// line `tc <start> <n0,n1,..>`: worker i draws n_i names; answer `0:id,id;1:id,..` (ids parsed
/// back from the names `_t{id}`), workers without requests omitted.
fn tempctr_line(line: &str) -> String {
  let t: Vec<&str> = line.split_whitespace().collect();
  if t.len() != 3 || t[0] != "tc" {
    return "bad-op".to_string();
  }
  let start: u32 = t[1].parse().unwrap();
  let counts: Vec<usize> = t[2].split(',').map(|x| x.parse().unwrap()).collect();
  let counter = samlang_heap::TempPStrCounter::new(start);
  let heap = Heap::new();
  let barrier = std::sync::Barrier::new(counts.len());
  let mut results: Vec<Vec<String>> = Vec::new();
  std::thread::scope(|scope| {
    let handles: Vec<_> = counts
      .iter()
      .map(|n| {
        let (counter, barrier, n) = (&counter, &barrier, *n);
        scope.spawn(move || {
          barrier.wait();
          let mut names = Vec::with_capacity(n);
          for k in 0..n {
            names.push(counter.alloc_temp_str());
            if k % 3 == 0 {
              std::thread::yield_now();
            }
          }
          names
        })
      })
      .collect();
    for h in handles {
      let names = h.join().unwrap();
      results.push(names.iter().map(|p| p.as_str(&heap)[2..].to_string()).collect());
    }
  });
  results
    .iter()
    .enumerate()
    .filter(|(_, r)| !r.is_empty())
    .map(|(w, r)| format!("{w}:{}", r.join(",")))
    .collect::<Vec<_>>()
    .join(";")
}

/// Protocol `ordkey`: the order in which the real `compile_sources` parses N modules.
/// line `po <allocation order of the handles> <hex names ';' separated, indexed by handle>`:
/// the module references are allocated in the given order, module k is the text
/// `class MarkerOfModuleNumber<k> {}`; the parse order is read off the heap's call log
/// (`Heap::verif_log`, first `AllocString` of each marker). Answer: handles in parse order.
fn ordkey_line(line: &str) -> String {
  let t: Vec<&str> = line.split_whitespace().collect();
  if t.len() != 3 || t[0] != "po" {
    return "bad-op".to_string();
  }
  let order: Vec<usize> = t[1].split(',').map(|x| x.parse().unwrap()).collect();
  let names: Vec<String> = t[2].split(';').map(samverif_harness::util::unhex_str).collect();
  let mut heap = Heap::new();
  let mut handles: HashMap<ModuleReference, String> = HashMap::new();
  let mut entry = None;
  for k in &order {
    let parts: Vec<String> = names[*k].split('.').map(|s| s.to_string()).collect();
    let m = heap.alloc_module_reference_from_string_vec(parts);
    entry.get_or_insert(m);
    handles.insert(m, format!("class MarkerOfModuleNumber{k:04} {{}}\n"));
  }
  heap.verif_log.clear();
  let _ = samlang_compiler::compile_sources(&mut heap, handles, vec![entry.unwrap()], false);
  let mut seen: Vec<usize> = Vec::new();
  for c in &heap.verif_log {
    if let samlang_heap::verif_hooks::HeapCall::AllocString(s) = c
      && let Some(k) = s.strip_prefix("MarkerOfModuleNumber")
      && let Ok(k) = k.parse::<usize>()
      && !seen.contains(&k)
    {
      seen.push(k);
    }
  }
  seen.iter().map(|k| k.to_string()).collect::<Vec<_>>().join(",")
}

fn main() {
  std::panic::set_hook(Box::new(|_| {}));
  if std::env::args().nth(1).as_deref() == Some("ordkey") {
    samverif_harness::util::for_each_line(|line| {
      let l = line.to_string();
      match std::panic::catch_unwind(move || ordkey_line(&l)) {
        Ok(a) => a,
        Err(e) => format!("panic:{}", samverif_harness::util::panic_msg(&e)),
      }
    });
    return;
  }
  if std::env::args().nth(1).as_deref() == Some("tempctr") {
    samverif_harness::util::for_each_line(|line| {
      let l = line.to_string();
      match std::panic::catch_unwind(move || tempctr_line(&l)) {
        Ok(a) => a,
        Err(e) => format!("panic:{}", samverif_harness::util::panic_msg(&e)),
      }
    });
    return;
  }
  if std::env::args().nth(1).as_deref() == Some("errset") {
    samverif_harness::util::for_each_line(|line| {
      let l = line.to_string();
      match std::panic::catch_unwind(move || errset_line(&l)) {
        Ok(a) => a,
        Err(e) => format!("panic:{}", samverif_harness::util::panic_msg(&e)),
      }
    });
    return;
  }
  let lines: Vec<String> = std::io::stdin()
    .lock()
    .lines()
    .map(|l| l.unwrap())
    .filter(|l| !l.trim().is_empty())
    .collect();
  for (i, line) in lines.iter().enumerate() {
    println!("{}", one(line, i));
  }
  cleanup_scratch("c12");
}
