//! Protocols of property C08 (formatting never changes the program), implementation side.
//!
//! `E <width> <hex expr text>` / `S <width> <hex expr text>`  (protocol `fmt-expr`)
//!     wrap the text as `class A { function f(): unit = <text> }`, parse it with the real parser,
//!     dump the body's tree (no locations / comments), print the body with the real printer
//!     (`pretty_print_expression`) and the module with `pretty_print_source_module`, re-parse the
//!     printed module and dump the body again.
//!     answer: `<T0>;<hex printed expr>;<T1>`   or `perr` (input does not parse)
//!             T1 = `rerr` when the printed module has syntax errors.
//! `P <width> <hex pattern text>`: the same for a pattern, wrapped as `let <pattern> = x;`.
//! `M <width> <hex module text>`  (reparse oracle on whole modules)
//!     answer: `perr` | `ok <n toplevels>` | `rerr:<hex message>` | `diff:<hex T0>:<hex T1>` | `panic:<hex>`
//! `X <width> <hex expr text>`  (protocol `fmt-doc`): the tree of the expression, the `Document` that
//!     `create_doc` builds for it (hook `samlang_printer::verif_hooks::expression_doc`, primitive nodes
//!     in prefix notation) and the expression formatted at the given width.
//!     answer: `<T0>;<doc>;<hex printed expr>` or `perr`
//! `F <hex module text>`: hex of the in-process formatting at width 100 (reference for the CLI leg).
//! `D <hex module text>`: dump of the module tree (debugging / replay).
use samlang_ast::source::*;
use samlang_errors::ErrorSet;
use samlang_heap::{Heap, ModuleReference};
use samverif_harness::util::*;
use std::panic::{AssertUnwindSafe, catch_unwind};

struct Dumper<'a> {
  heap: &'a Heap,
  out: String,
}

impl<'a> Dumper<'a> {
  fn w(&mut self, s: &str) {
    self.out.push_str(s);
  }
  fn id(&mut self, id: &Id) {
    let s = id.name.as_str(self.heap).to_string();
    self.w(&s);
  }
  fn list<T>(&mut self, tag: &str, xs: &[T], mut f: impl FnMut(&mut Self, &T)) {
    self.w("(");
    self.w(tag);
    for x in xs {
      self.w(" ");
      f(self, x);
    }
    self.w(")");
  }
  fn targs(&mut self, t: Option<&annotation::TypeArguments>) {
    if let Some(t) = t {
      self.list("targs", &t.arguments, |d, a| d.annot(a));
    }
  }
  fn annot_id(&mut self, a: &annotation::Id) {
    self.w("(tid ");
    self.id(&a.id);
    if a.type_arguments.is_some() {
      self.w(" ");
    }
    self.targs(a.type_arguments.as_ref());
    self.w(")");
  }
  fn annot(&mut self, a: &annotation::T) {
    match a {
      annotation::T::Primitive(_, _, k) => self.w(k.kind_str()),
      annotation::T::Id(i) => self.annot_id(i),
      annotation::T::Generic(_, id) => {
        self.w("(tgen ");
        self.id(id);
        self.w(")")
      }
      annotation::T::Fn(f) => {
        self.w("(tfn ");
        self.list("params", &f.parameters.annotations, |d, a| d.annot(a));
        self.w(" ");
        self.annot(&f.return_type);
        self.w(")")
      }
    }
  }
  fn tparams(&mut self, t: Option<&annotation::TypeParameters>) {
    if let Some(t) = t {
      self.list("tparams", &t.parameters, |d, p| {
        d.w("(");
        d.id(&p.name);
        if let Some(b) = &p.bound {
          d.w(" : ");
          d.annot_id(b);
        }
        d.w(")");
      });
    }
  }
  fn tuple_pattern(&mut self, p: &pattern::TuplePattern<()>) {
    self.list("ptuple", &p.elements, |d, e| d.pattern(&e.pattern));
  }
  fn pattern(&mut self, p: &pattern::MatchingPattern<()>) {
    match p {
      pattern::MatchingPattern::Tuple(t) => self.tuple_pattern(t),
      pattern::MatchingPattern::Object { elements, .. } => {
        self.list("pobj", elements, |d, e| {
          d.w("(");
          d.id(&e.field_name);
          d.w(if e.shorthand { " short " } else { " as " });
          d.pattern(&e.pattern);
          d.w(")");
        })
      }
      pattern::MatchingPattern::Variant(v) => {
        self.w("(pvariant ");
        self.id(&v.tag);
        if let Some(t) = &v.data_variables {
          self.w(" ");
          self.tuple_pattern(t);
        }
        self.w(")");
      }
      pattern::MatchingPattern::Id(id, _) => {
        self.w("(pid ");
        self.id(id);
        self.w(")")
      }
      pattern::MatchingPattern::Wildcard { .. } => self.w("_"),
      pattern::MatchingPattern::Or { patterns, .. } => {
        self.list("por", patterns, |d, p| d.pattern(p))
      }
    }
  }
  fn block(&mut self, b: &expr::Block<()>) {
    self.w("(block");
    for s in &b.statements {
      self.w(" ");
      match s {
        expr::Statement::Declaration(d) => {
          self.w("(let ");
          self.pattern(&d.pattern);
          if let Some(a) = &d.annotation {
            self.w(" : ");
            self.annot(a);
          }
          self.w(" ");
          self.expr(&d.assigned_expression);
          self.w(")");
        }
        expr::Statement::Expression(e) => {
          self.w("(stmt ");
          self.expr(e);
          self.w(")");
        }
      }
    }
    if let Some(e) = &b.expression {
      self.w(" (final ");
      self.expr(e);
      self.w(")");
    }
    self.w(")");
  }
  fn if_else(&mut self, e: &expr::IfElse<()>) {
    self.w("(if ");
    match e.condition.as_ref() {
      expr::IfElseCondition::Expression(c) => self.expr(c),
      expr::IfElseCondition::Guard(p, c) => {
        self.w("(guard ");
        self.pattern(p);
        self.w(" ");
        self.expr(c);
        self.w(")");
      }
    }
    self.w(" ");
    self.block(&e.e1);
    self.w(" ");
    match e.e2.as_ref() {
      expr::IfElseOrBlock::IfElse(n) => self.if_else(n),
      expr::IfElseOrBlock::Block(b) => self.block(b),
    }
    self.w(")");
  }
  fn expr(&mut self, e: &expr::E<()>) {
    match e {
      expr::E::Literal(_, Literal::Bool(b)) => self.w(if *b { "true" } else { "false" }),
      expr::E::Literal(_, Literal::Int(i)) => self.w(&i.to_string()),
      expr::E::Literal(_, Literal::String(s)) => {
        let h = hex(s.as_str(self.heap).as_bytes());
        self.w("(s ");
        self.w(&h);
        self.w(")");
      }
      expr::E::LocalId(_, id) => self.id(id),
      expr::E::ClassId(_, _, id) => self.id(id),
      expr::E::Tuple(_, l) => self.list("tuple", &l.expressions, |d, x| d.expr(x)),
      expr::E::FieldAccess(f) => {
        self.w("(. ");
        self.expr(&f.object);
        self.w(" ");
        self.id(&f.field_name);
        if f.explicit_type_arguments.is_some() {
          self.w(" ");
        }
        self.targs(f.explicit_type_arguments.as_ref());
        self.w(")");
      }
      expr::E::MethodAccess(f) => {
        self.w("(.m ");
        self.expr(&f.object);
        self.w(" ");
        self.id(&f.method_name);
        if f.explicit_type_arguments.is_some() {
          self.w(" ");
        }
        self.targs(f.explicit_type_arguments.as_ref());
        self.w(")");
      }
      expr::E::Unary(u) => {
        self.w(match u.operator {
          expr::UnaryOperator::NOT => "(! ",
          expr::UnaryOperator::NEG => "(neg ",
        });
        self.expr(&u.argument);
        self.w(")");
      }
      expr::E::Call(c) => {
        self.w("(call ");
        self.expr(&c.callee);
        for a in &c.arguments.expressions {
          self.w(" ");
          self.expr(a);
        }
        self.w(")");
      }
      expr::E::Binary(b) => {
        self.w("(");
        self.w(b.operator.kind_str());
        self.w(" ");
        self.expr(&b.e1);
        self.w(" ");
        self.expr(&b.e2);
        self.w(")");
      }
      expr::E::IfElse(i) => self.if_else(i),
      expr::E::Match(m) => {
        self.w("(match ");
        self.expr(&m.matched);
        for c in &m.cases {
          self.w(" (case ");
          self.pattern(&c.pattern);
          self.w(" ");
          self.expr(&c.body);
          self.w(")");
        }
        self.w(")");
      }
      expr::E::Lambda(l) => {
        self.w("(lambda ");
        self.list("params", &l.parameters.parameters, |d, p| {
          d.w("(");
          d.id(&p.name);
          if let Some(a) = &p.annotation {
            d.w(" : ");
            d.annot(a);
          }
          d.w(")");
        });
        self.w(" ");
        self.expr(&l.body);
        self.w(")");
      }
      expr::E::Block(b) => self.block(b),
    }
  }
  fn member_decl(&mut self, m: &ClassMemberDeclaration) {
    self.w(if m.is_method { "(method " } else { "(function " });
    self.w(if m.is_public { "public " } else { "private " });
    self.id(&m.name);
    self.w(" ");
    self.tparams(m.type_parameters.as_ref());
    self.w(" ");
    self.list("params", &m.parameters.parameters, |d, p| {
      d.w("(");
      d.id(&p.name);
      d.w(" : ");
      d.annot(&p.annotation);
      d.w(")");
    });
    self.w(" ");
    self.annot(&m.return_type);
  }
  fn extends(&mut self, e: Option<&ExtendsOrImplementsNodes>) {
    if let Some(e) = e {
      self.list("extends", &e.nodes, |d, n| d.annot_id(n));
    }
  }
  fn toplevel(&mut self, t: &Toplevel<()>) {
    match t {
      Toplevel::Interface(i) => {
        self.w(if i.private { "(interface private " } else { "(interface " });
        self.id(&i.name);
        self.w(" ");
        self.tparams(i.type_parameters.as_ref());
        self.w(" ");
        self.extends(i.extends_or_implements_nodes.as_ref());
        for m in &i.members.members {
          self.w(" ");
          self.member_decl(m);
          self.w(")");
        }
        self.w(")");
      }
      Toplevel::Class(c) => {
        self.w(if c.private { "(class private " } else { "(class " });
        self.id(&c.name);
        self.w(" ");
        self.tparams(c.type_parameters.as_ref());
        self.w(" ");
        match &c.type_definition {
          None => self.w("(nodef)"),
          Some(TypeDefinition::Struct { fields, .. }) => self.list("struct", fields, |d, f| {
            d.w(if f.is_public { "(val " } else { "(private-val " });
            d.id(&f.name);
            d.w(" : ");
            d.annot(&f.annotation);
            d.w(")");
          }),
          Some(TypeDefinition::Enum { variants, .. }) => self.list("enum", variants, |d, v| {
            d.w("(");
            d.id(&v.name);
            if let Some(l) = &v.associated_data_types {
              for a in &l.annotations {
                d.w(" ");
                d.annot(a);
              }
            }
            d.w(")");
          }),
        }
        self.w(" ");
        self.extends(c.extends_or_implements_nodes.as_ref());
        for m in &c.members.members {
          self.w(" ");
          self.member_decl(&m.decl);
          self.w(" ");
          self.expr(&m.body);
          self.w(")");
        }
        self.w(")");
      }
    }
  }
  /// imports are normalised the way the printer documents it: merged per module, members sorted,
  /// modules sorted by name.
  fn module(&mut self, m: &Module<()>) {
    let mut imports: std::collections::BTreeMap<String, Vec<String>> = Default::default();
    for i in &m.imports {
      let e = imports.entry(i.imported_module.pretty_print(self.heap)).or_default();
      for x in &i.imported_members {
        e.push(x.name.as_str(self.heap).to_string());
      }
    }
    self.w("(module");
    for (k, mut v) in imports {
      v.sort();
      self.w(&format!(" (import {} {})", k, v.join(" ")));
    }
    for t in &m.toplevels {
      self.w(" ");
      self.toplevel(t);
    }
    self.w(")");
  }
}

fn dump_module(heap: &Heap, m: &Module<()>) -> String {
  let mut d = Dumper { heap, out: String::new() };
  d.module(m);
  d.out
}

fn dump_expr(heap: &Heap, e: &expr::E<()>) -> String {
  let mut d = Dumper { heap, out: String::new() };
  d.expr(e);
  d.out
}

fn parse(heap: &mut Heap, text: &str) -> Result<Module<()>, String> {
  let mut errors = ErrorSet::new();
  let m = samlang_parser::parse_source_module_from_text(text, ModuleReference::DUMMY, heap, &mut errors);
  if errors.has_errors() {
    Err(errors.pretty_print_error_messages_no_frame_for_test(heap))
  } else {
    Ok(m)
  }
}

fn body_of<'a>(m: &'a Module<()>) -> Option<&'a expr::E<()>> {
  match m.toplevels.first()? {
    Toplevel::Class(c) => c.members.members.first().map(|m| &m.body),
    _ => None,
  }
}

fn op_expr(width: usize, text: &str) -> String {
  let mut heap = Heap::new();
  let src = format!("class A {{ function f(): unit = {text} }}");
  let m0 = match parse(&mut heap, &src) {
    Ok(m) => m,
    Err(_) => return "perr".to_string(),
  };
  if m0.toplevels.len() != 1 {
    return "perr".to_string();
  }
  let Some(b0) = body_of(&m0) else { return "perr".to_string() };
  let t0 = dump_expr(&heap, b0);
  // the stand-alone expression entry point of the parser must build the same tree
  {
    let mut errors = ErrorSet::new();
    let (_, e) = samlang_parser::parse_source_expression_from_text(text, ModuleReference::DUMMY, &mut heap, &mut errors);
    let te = dump_expr(&heap, &e);
    if errors.has_errors() || te != t0 {
      return format!("{};{};entry-point-differs:{}", t0, hex(b"parse_source_expression_from_text"), te.replace(';', ","));
    }
  }
  let etext = samlang_printer::pretty_print_expression(&heap, width, &m0.comment_store, b0);
  let printed = samlang_printer::pretty_print_source_module(&heap, width, &m0);
  let t1 = match parse(&mut heap, &printed) {
    Ok(m1) => match body_of(&m1) {
      Some(b1) if m1.toplevels.len() == 1 => dump_expr(&heap, b1),
      _ => "rerr".to_string(),
    },
    Err(_) => "rerr".to_string(),
  };
  format!("{};{};{}", t0, hex(etext.as_bytes()), t1)
}

/// `X`: the document of an expression (before the layout engine) and its layout at one width.
fn op_doc(width: usize, text: &str) -> String {
  let mut heap = Heap::new();
  let src = format!("class A {{ function f(): unit = {text} }}");
  let m0 = match parse(&mut heap, &src) {
    Ok(m) => m,
    Err(_) => return "perr".to_string(),
  };
  if m0.toplevels.len() != 1 {
    return "perr".to_string();
  }
  let Some(b0) = body_of(&m0) else { return "perr".to_string() };
  let t0 = dump_expr(&heap, b0);
  let doc = samlang_printer::verif_hooks::expression_doc(&heap, &m0.comment_store, b0);
  let etext = samlang_printer::pretty_print_expression(&heap, width, &m0.comment_store, b0);
  format!("{};{};{}", t0, doc, hex(etext.as_bytes()))
}

/// `P`: a pattern, exercised as `let <pattern> = x;` (pattern parser + `matching_pattern_to_document`).
fn op_pattern(width: usize, text: &str) -> String {
  fn let_pattern<'a>(m: &'a Module<()>) -> Option<&'a expr::DeclarationStatement<()>> {
    match body_of(m)? {
      expr::E::Block(b) if b.statements.len() == 1 && b.expression.is_none() => match &b.statements[0] {
        expr::Statement::Declaration(d) => Some(d),
        _ => None,
      },
      _ => None,
    }
  }
  let mut heap = Heap::new();
  let src = format!("class A {{ function f(): unit = {{ let {text} = x; }} }}");
  let m0 = match parse(&mut heap, &src) {
    Ok(m) => m,
    Err(_) => return "perr".to_string(),
  };
  let Some(d0) = let_pattern(&m0) else { return "perr".to_string() };
  let mut d = Dumper { heap: &heap, out: String::new() };
  d.pattern(&d0.pattern);
  let t0 = d.out;
  let stmt = expr::Statement::Declaration(Box::new(d0.clone()));
  let stext = samlang_printer::pretty_print_statement(&heap, width, &m0.comment_store, &stmt);
  let ptext = stext.trim().strip_prefix("let ").and_then(|x| x.strip_suffix("= x;")).unwrap_or("?").to_string();
  let printed = samlang_printer::pretty_print_source_module(&heap, width, &m0);
  let t1 = match parse(&mut heap, &printed) {
    Ok(m1) => match let_pattern(&m1) {
      Some(d1) => {
        let mut d = Dumper { heap: &heap, out: String::new() };
        d.pattern(&d1.pattern);
        d.out
      }
      None => "rerr".to_string(),
    },
    Err(_) => "rerr".to_string(),
  };
  format!("{};{};{}", t0, hex(ptext.as_bytes()), t1)
}

/// the other public entry points of the printer (used by the language server): each toplevel,
/// import and member return-type annotation printed on its own must re-parse to itself.
fn entry_points(heap: &mut Heap, width: usize, m0: &Module<()>) -> Option<String> {
  for t in &m0.toplevels {
    let text = samlang_printer::pretty_print_toplevel(&*heap, width, &m0.comment_store, t);
    let mut d0 = Dumper { heap: &*heap, out: String::new() };
    d0.toplevel(t);
    let want = d0.out;
    let got = match parse(heap, &text) {
      Ok(m) if m.toplevels.len() == 1 => {
        let mut d = Dumper { heap: &*heap, out: String::new() };
        d.toplevel(&m.toplevels[0]);
        d.out
      }
      _ => "rerr".to_string(),
    };
    if got != want {
      return Some(format!("diff:{}:{}:{}", hex(want.as_bytes()), hex(got.as_bytes()), hex(format!("pretty_print_toplevel: {text}").as_bytes())));
    }
    let annots: Vec<annotation::T> = t.members_iter().map(|m| m.return_type.clone()).collect();
    for a in annots.iter().take(3) {
      let text = samlang_printer::pretty_print_annotation(&*heap, width, &m0.comment_store, a);
      let mut d0 = Dumper { heap: &*heap, out: String::new() };
      d0.annot(a);
      let want = d0.out;
      let src = format!("class Zz {{ function zz(): {text} = 1 }}");
      let got = match parse(heap, &src) {
        Ok(m) => match m.toplevels.first().and_then(|t| t.members_iter().next().map(|m| m.return_type.clone())) {
          Some(a1) => {
            let mut d = Dumper { heap: &*heap, out: String::new() };
            d.annot(&a1);
            d.out
          }
          None => "rerr".to_string(),
        },
        Err(_) => "rerr".to_string(),
      };
      // a generic `T` of the enclosing declaration is a class id when printed on its own
      if got != want && got.replace("(tid ", "(tgen ") != want.replace("(tid ", "(tgen ") {
        return Some(format!("diff:{}:{}:{}", hex(want.as_bytes()), hex(got.as_bytes()), hex(format!("pretty_print_annotation: {text}").as_bytes())));
      }
    }
  }
  for i in &m0.imports {
    let text = samlang_printer::pretty_print_import(&*heap, width, &m0.comment_store, i);
    let mut names: Vec<String> = i.imported_members.iter().map(|x| x.name.as_str(&*heap).to_string()).collect();
    names.sort();
    let want = format!("{} {}", i.imported_module.pretty_print(&*heap), names.join(" "));
    let got = match parse(heap, &text) {
      Ok(m) if m.imports.len() == 1 => {
        let mut n: Vec<String> = m.imports[0].imported_members.iter().map(|x| x.name.as_str(&*heap).to_string()).collect();
        n.sort();
        format!("{} {}", m.imports[0].imported_module.pretty_print(&*heap), n.join(" "))
      }
      _ => "rerr".to_string(),
    };
    if got != want {
      return Some(format!("diff:{}:{}:{}", hex(want.as_bytes()), hex(got.as_bytes()), hex(format!("pretty_print_import: {text}").as_bytes())));
    }
  }
  None
}

fn op_module(width: usize, text: &str) -> String {
  let mut heap = Heap::new();
  let m0 = match parse(&mut heap, text) {
    Ok(m) => m,
    Err(_) => return "perr".to_string(),
  };
  let t0 = dump_module(&heap, &m0);
  let printed = samlang_printer::pretty_print_source_module(&heap, width, &m0);
  match parse(&mut heap, &printed) {
    Err(msg) => format!("rerr:{}:{}", hex(msg.as_bytes()), hex(printed.as_bytes())),
    Ok(m1) => {
      let t1 = dump_module(&heap, &m1);
      if t0 == t1 {
        if let Some(d) = entry_points(&mut heap, width, &m0) {
          return d;
        }
        format!("ok {}", m0.toplevels.len())
      } else {
        format!("diff:{}:{}:{}", hex(t0.as_bytes()), hex(t1.as_bytes()), hex(printed.as_bytes()))
      }
    }
  }
}

fn main() {
  std::panic::set_hook(Box::new(|_| {}));
  for_each_line(|line| {
    let t: Vec<&str> = line.split(' ').collect();
    let r = catch_unwind(AssertUnwindSafe(|| match t[0] {
      "E" | "S" if t.len() == 3 => op_expr(t[1].parse().unwrap_or(100), &unhex_str(t[2])),
      "X" if t.len() == 3 => op_doc(t[1].parse().unwrap_or(100), &unhex_str(t[2])),
      "P" if t.len() == 3 => op_pattern(t[1].parse().unwrap_or(100), &unhex_str(t[2])),
      "M" if t.len() == 3 => op_module(t[1].parse().unwrap_or(100), &unhex_str(t[2])),
      "W" if t.len() == 3 => {
        // the formatted module text at the given width (or `perr`)
        let mut heap = Heap::new();
        match parse(&mut heap, &unhex_str(t[2])) {
          Ok(m) => hex(samlang_printer::pretty_print_source_module(&heap, t[1].parse().unwrap_or(100), &m).as_bytes()),
          Err(_) => "perr".to_string(),
        }
      }
      "F" if t.len() == 2 => {
        // what `samlang format` must write: pretty_print_source_module at width 100 (or `perr`)
        let mut heap = Heap::new();
        match parse(&mut heap, &unhex_str(t[1])) {
          Ok(m) => hex(samlang_printer::pretty_print_source_module(&heap, 100, &m).as_bytes()),
          Err(_) => "perr".to_string(),
        }
      }
      "D" if t.len() == 2 => {
        let mut heap = Heap::new();
        match parse(&mut heap, &unhex_str(t[1])) {
          Ok(m) => dump_module(&heap, &m),
          Err(e) => format!("perr {}", e.replace('\n', " / ")),
        }
      }
      other => format!("bad-op {other}"),
    }));
    match r {
      Ok(s) => s,
      Err(e) => format!("panic:{}", hex(panic_msg(&e).as_bytes())),
    }
  });
}
