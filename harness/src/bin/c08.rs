//! Harness binary for property C08 (line protocol; see /verif/vlib/BUILDER_GUIDE.md).
fn main() {
  eprintln!("c08: not implemented yet");
  std::process::exit(2);
}
