//! Harness binary for property C04 (line protocol; see /verif/vlib/BUILDER_GUIDE.md).
fn main() {
  eprintln!("c04: not implemented yet");
  std::process::exit(2);
}
