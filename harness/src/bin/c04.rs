//! Protocol `backends` (C04): every op line becomes a few samlang statements whose operands are
//! run-time values (`"…".toInt()` is opaque to the optimiser); the statements are compiled
//! in-process by the real `samlang_compiler::compile_sources` and the emitted TypeScript and
//! WebAssembly are both executed under Node >= 22 (shared oracle, `samverif_harness::exec`).
//!
//! stdin : one op per line; a leading `!` = compile this line as its own program, otherwise up to
//!         BATCH consecutive lines share one program (separated by marker lines on stdout).
//!   bin <OP> <a> <b>      Str.fromInt(a OP b)            (OP in MUL DIV MOD PLUS MINUS LT LE GT GE EQ NE)
//!   str <hex utf8>        Process.println("<raw>")        raw pasted between the quotes as is
//!   i2s <n>               Str.fromInt(n)
//!   s2i <hex utf8>        Str.fromInt("<text>".toInt())   text = plain characters only
//!   vec [new:of:v|new:cap:n] <op> ...   push:v pop get:i set:i:v len cap res:n on one Vec<int>; prints u / v<n> per call
//!   tag none|other|box|vec <n|->   match on a run-time chosen variant of an enum whose payload (a one-field
//!                         struct or a Vec<int>) is unboxed: tests the value against the i31 tags first
//!   vecr push:k pop get:i set:i:k len     the same on a Vec<Box> of four run-time objects o0..o3 (o2, o3 equal
//!                         content, different identity); a read prints which object came back (by ==)
//!   veqr <a> <b>          Vec<Box>.eq on vectors of these objects (element-wise identity)
//!   enum <shape 1-5> <variant> <a> <b>   value of enum E<shape> built by a run-time chosen constructor, matched with the
//!                         arms in declaration order and in reverse order (variant tests of every representation)
//!   resv <hex word>       the word as parameter (tail-recursive -> loop variable, recursive), local, lambda parameter,
//!                         field, method, method parameter and function name of one program
//!   cov <name>            one of the deterministic whole programs COV_PROGRAMS (no marker line: the leg ends with the program)
//!   streq <hexA> <hexB>   == and != on Str for (constant A, constant B), (constant A, run-time B), (run-time A, constant B),
//!                         (run-time A, run-time B), (run-time A, itself); run-time = concatenation executed by the program
//!   veq <a> <b>           two Vec<int> built by push (elements comma separated, `-` = empty): a.eq(b), b.eq(a), a.eq(a)
//!   seq <hexA> <na> <hexB> <nb>   a = "A" :: Str.fromInt(na), b likewise (run-time strings): a == b, a != b, a :: b
//! stdout: per line  `T <hex text> <hex end|-> W <hex text> <hex end|->`   (TypeScript, WebAssembly)
//!         or `C <hex msg>` (rejected by the compiler), `X <hex msg>` (compiler panicked),
//!         `unsupported`; text = what the line printed; end = how the program terminated if it
//!         terminated inside this line; `unreached` instead of a leg if the program ended earlier.
use rayon::prelude::*;
use samverif_harness::exec::*;
use samverif_harness::util::*;
use std::io::BufRead;
use std::time::Duration;

const BATCH: usize = 40;
const MARK: &str = "@@";
/// deterministic whole programs that reach code-generation paths the micro-operations do not (see
/// reports/C04.md, coverage-guided family); expected output is held by the driver
const COV_PROGRAMS: &[(&str, &str)] = &[
  ("vecopt", "class Opt(None, Some(int)) {\n  function show(o: Opt): Str = match o { None -> \"none\", Some(v) -> \"some \" :: Str.fromInt(v) }\n}\nclass Main {\n  function main(): unit = {\n    let v = Vec.empty<Opt>();\n    let _ = v.push(Opt.Some(\"1\".toInt()));\n    let _ = v.push(Opt.None());\n    let _ = v.push(Opt.Some(\"3\".toInt()));\n    let _ = Process.println(Opt.show(v.get(1)));\n    let _ = Process.println(Opt.show(v.get(0)));\n    let _ = Process.println(Opt.show(v.pop()));\n    let _ = Process.println(Opt.show(v.pop()));\n    let _ = Process.println(Str.fromInt(v.length()));\n  }\n}\n"),
  ("ifempty", "class Main {\n  function main(): unit = {\n    let k = \"1\".toInt();\n    let _ = if k == 1 { {} } else { {} };\n    let _ = if k == 2 { {} } else { let _ = Process.println(\"else\"); };\n    let _ = if k == 1 { let _ = Process.println(\"then\"); } else { {} };\n    let _ = Process.println(\"done\");\n  }\n}\n"),
  ("unitloop", "class Main {\n  function count(n: int): unit = if n <= 0 { {} } else { let _ = Process.println(Str.fromInt(n)); Main.count(n - 1) }\n  function main(): unit = {\n    let _ = Main.count(\"3\".toInt());\n    let _ = Process.println(\"done\");\n  }\n}\n"),
  ("closures", "class Main {\n  function apply(f: (int) -> int, x: int, n: int): int = if n <= 0 { x } else { Main.apply(f, f(x), n - 1) }\n  function main(): unit = {\n    let k = \"5\".toInt();\n    let f = (x: int) -> x + 1;\n    let g = (x: int) -> x + k;\n    let _ = Process.println(Str.fromInt(Main.apply(f, k, 3)));\n    let _ = Process.println(Str.fromInt(Main.apply(g, k, 2)));\n    let h = if k == 5 { f } else { g };\n    let _ = Process.println(Str.fromInt(h(k)));\n  }\n}\n"),
  ("refne", "class Box(val v: int) {}\nclass Color(Red, Green, Blue) {}\nclass Main {\n  function cmp(x: Box, y: Box): Str = (if x == y { \"T\" } else { \"F\" }) :: (if x != y { \"T\" } else { \"F\" })\n  function cmpc(x: Color, y: Color): Str = (if x == y { \"T\" } else { \"F\" }) :: (if x != y { \"T\" } else { \"F\" })\n  function pick(k: int): Color = if k == 0 { Color.Red() } else { if k == 1 { Color.Green() } else { Color.Blue() } }\n  function main(): unit = {\n    let k = \"5\".toInt();\n    let a = Box.init(k);\n    let b = Box.init(k);\n    let v = Vec.of<Box>(a);\n    let c = v.get(0);\n    let _ = Process.println(Main.cmp(c, a) :: \" \" :: Main.cmp(c, b) :: \" \" :: Main.cmp(a, b));\n    let _ = Process.println(Main.cmpc(Main.pick(k - 5), Main.pick(k - 5)) :: \" \" :: Main.cmpc(Main.pick(k - 5), Main.pick(k - 4)) :: \" \" :: Main.cmpc(Main.pick(k), Main.pick(k - 3)));\n  }\n}\n"),
  ("nostr", "class Main {\n  function f(n: int): int = if n <= 0 { 0 } else { n + Main.f(n - 1) }\n  function main(): unit = Process.println(Str.fromInt(Main.f(10)))\n}\n"),
];

/// enum shapes for the `enum` lines: Int31 + Unboxed; Int31 + two Boxed; only Boxed; Int31 + two
/// one-pointer-field variants (the first is demoted from Unboxed to Boxed); a single Unboxed variant.
/// `show` tests the arms in declaration order, `showR` in reverse order.
const ENUMS: &str = "class E1(A, B, C(Box)) {\n  function show(o: E1): Str = match o { A -> \"A\", B -> \"B\", C(x) -> \"C \" :: Str.fromInt(x.v) }\n  function showR(o: E1): Str = match o { C(x) -> \"C \" :: Str.fromInt(x.v), B -> \"B\", A -> \"A\" }\n}\nclass E2(A, B(int), C(int, int), D) {\n  function show(o: E2): Str = match o { A -> \"A\", B(x) -> \"B \" :: Str.fromInt(x), C(x, y) -> \"C \" :: Str.fromInt(x) :: \" \" :: Str.fromInt(y), D -> \"D\" }\n  function showR(o: E2): Str = match o { D -> \"D\", C(x, y) -> \"C \" :: Str.fromInt(x) :: \" \" :: Str.fromInt(y), B(x) -> \"B \" :: Str.fromInt(x), A -> \"A\" }\n}\nclass E3(P(int), Q(int, int)) {\n  function show(o: E3): Str = match o { P(x) -> \"P \" :: Str.fromInt(x), Q(x, y) -> \"Q \" :: Str.fromInt(x) :: \" \" :: Str.fromInt(y) }\n  function showR(o: E3): Str = match o { Q(x, y) -> \"Q \" :: Str.fromInt(x) :: \" \" :: Str.fromInt(y), P(x) -> \"P \" :: Str.fromInt(x) }\n}\nclass E4(A, B(Box), C(Box)) {\n  function show(o: E4): Str = match o { A -> \"A\", B(x) -> \"B \" :: Str.fromInt(x.v), C(x) -> \"C \" :: Str.fromInt(x.v) }\n  function showR(o: E4): Str = match o { C(x) -> \"C \" :: Str.fromInt(x.v), B(x) -> \"B \" :: Str.fromInt(x.v), A -> \"A\" }\n}\nclass E5(P(Box)) {\n  function show(o: E5): Str = match o { P(x) -> \"P \" :: Str.fromInt(x.v) }\n  function showR(o: E5): Str = match o { P(x) -> \"P \" :: Str.fromInt(x.v) }\n}\n";
/// four run-time objects; o2 and o3 have the same content
const OBJS: &str = "    let o0 = Box.init(\"100\".toInt());\n    let o1 = Box.init(\"101\".toInt());\n    let o2 = Box.init(\"102\".toInt());\n    let o3 = Box.init(\"102\".toInt());\n";

fn int_lit(n: &str) -> Option<String> {
  let ok = {
    let d = n.strip_prefix('-').unwrap_or(n);
    !d.is_empty() && d.len() <= 10 && d.bytes().all(|b| b.is_ascii_digit())
  };
  if ok { Some(format!("\"{n}\".toInt()")) } else { None }
}

fn snippet(line: &str) -> Option<String> {
  let t: Vec<&str> = line.split(' ').filter(|s| !s.is_empty()).collect();
  let p = |e: String| format!("    let _ = Process.println({e});\n");
  match t.as_slice() {
    ["bin", op, a, b] => {
      let (a, b) = (int_lit(a)?, int_lit(b)?);
      let arith = |s: &str| Some(p(format!("Str.fromInt({a} {s} {b})")));
      let cmp = |s: &str| Some(p(format!("Str.fromInt(if {a} {s} {b} {{ 1 }} else {{ 0 }})")));
      match *op {
        "MUL" => arith("*"),
        "DIV" => arith("/"),
        "MOD" => arith("%"),
        "PLUS" => arith("+"),
        "MINUS" => arith("-"),
        "LT" => cmp("<"),
        "LE" => cmp("<="),
        "GT" => cmp(">"),
        "GE" => cmp(">="),
        "EQ" => cmp("=="),
        "NE" => cmp("!="),
        _ => None,
      }
    }
    ["str", h] => {
      let raw = String::from_utf8(unhex(h)).ok()?;
      Some(p(format!("\"{raw}\"")))
    }
    ["i2s", n] => Some(p(format!("Str.fromInt({})", int_lit(n)?))),
    ["s2i", h] => {
      let s = String::from_utf8(unhex(h)).ok()?;
      if s.chars().any(|c| c == '"' || c == '\\' || c == '`' || c == '$' || (c as u32) < 32 || (c as u32) > 126) {
        return None;
      }
      Some(p(format!("Str.fromInt(\"{s}\".toInt())")))
    }
    ["tag", kind, arg] => {
      // variant test on a run-time chosen value: payload-free variants first, so the emitted code
      // compares the value (possibly an unboxed payload object) with the i31 tags
      let (k, payload_b, payload_v) = match *kind {
        "none" => (0, "Box.init(0)".to_string(), "Vec.empty<int>()".to_string()),
        "other" => (2, "Box.init(0)".to_string(), "Vec.empty<int>()".to_string()),
        "box" => (1, format!("Box.init({})", int_lit(arg)?), "Vec.empty<int>()".to_string()),
        "vec" => (
          1,
          "Box.init(0)".to_string(),
          if *arg == "-" { "Vec.empty<int>()".to_string() } else { format!("Vec.of<int>({})", int_lit(arg)?) },
        ),
        _ => return None,
      };
      let mut s = format!("    let k = \"{k}\".toInt();\n");
      if *kind == "vec" {
        s.push_str(&format!("    let o = if k == 1 {{ OptV.Some({payload_v}) }} else {{ if k == 2 {{ OptV.Other() }} else {{ OptV.None() }} }};\n"));
        s.push_str(&p("OptV.show(o)".to_string()));
      } else {
        s.push_str(&format!("    let o = if k == 1 {{ OptB.Some({payload_b}) }} else {{ if k == 2 {{ OptB.Other() }} else {{ OptB.None() }} }};\n"));
        s.push_str(&p("OptB.show(o)".to_string()));
      }
      Some(s)
    }
    ["vecr", ops @ ..] => {
      // Vec of references: four objects, o2 and o3 with equal content but different identity
      let mut s = String::from(OBJS);
      s.push_str("    let v = Vec.empty<Box>();\n");
      let obj = |k: &str| -> Option<String> { if ["0", "1", "2", "3"].contains(&k) { Some(format!("o{k}")) } else { None } };
      for o in ops {
        let f: Vec<&str> = o.split(':').collect();
        match f.as_slice() {
          ["push", k] => {
            s.push_str(&format!("    let _ = v.push({});\n", obj(k)?));
            s.push_str(&p("\"u\"".to_string()));
          }
          ["pop"] => s.push_str(&p("\"v\" :: Main.idOf(v.pop(), o0, o1, o2)".to_string())),
          ["get", i] => s.push_str(&p(format!("\"v\" :: Main.idOf(v.get({}), o0, o1, o2)", int_lit(i)?))),
          ["set", i, k] => {
            s.push_str(&format!("    let _ = v.set({}, {});\n", int_lit(i)?, obj(k)?));
            s.push_str(&p("\"u\"".to_string()));
          }
          ["len"] => s.push_str(&p("\"v\" :: Str.fromInt(v.length())".to_string())),
          _ => return None,
        }
      }
      Some(s)
    }
    ["veqr", a, b] => {
      let mut s = String::from(OBJS);
      for (name, elems) in [("a", a), ("b", b)] {
        s.push_str(&format!("    let {name} = Vec.empty<Box>();\n"));
        if *elems != "-" {
          for e in elems.split(',') {
            if !["0", "1", "2", "3"].contains(&e) {
              return None;
            }
            s.push_str(&format!("    let _ = {name}.push(o{e});\n"));
          }
        }
      }
      for (x, y) in [("a", "b"), ("b", "a"), ("a", "a")] {
        s.push_str(&p(format!("\"v\" :: Str.fromInt(if {x}.eq({y}) {{ 1 }} else {{ 0 }})")));
      }
      Some(s)
    }
    ["enum", shape, idx, a, b] => {
      let ctor = |sh: &str, k: &str| -> Option<&'static str> {
        Some(match (sh, k) {
          ("1", "0") => "E1.A()", ("1", "1") => "E1.B()", ("1", "2") => "E1.C(Box.init(a))",
          ("2", "0") => "E2.A()", ("2", "1") => "E2.B(a)", ("2", "2") => "E2.C(a, b)", ("2", "3") => "E2.D()",
          ("3", "0") => "E3.P(a)", ("3", "1") => "E3.Q(a, b)",
          ("4", "0") => "E4.A()", ("4", "1") => "E4.B(Box.init(a))", ("4", "2") => "E4.C(Box.init(a))",
          ("5", "0") => "E5.P(Box.init(a))",
          _ => return None,
        })
      };
      let n: usize = match *shape { "1" => 3, "2" => 4, "3" => 2, "4" => 3, "5" => 1, _ => return None };
      ctor(shape, idx)?;
      let mut s = format!("    let k = \"{idx}\".toInt();\n    let a = {};\n    let b = {};\n", int_lit(a)?, int_lit(b)?);
      // the constructor is chosen at run time so that no test is folded away
      let mut e = ctor(shape, &(n - 1).to_string())?.to_string();
      for j in (0..n - 1).rev() {
        e = format!("if k == {j} {{ {} }} else {{ {e} }}", ctor(shape, &j.to_string())?);
      }
      s.push_str(&format!("    let o = {e};\n"));
      s.push_str(&p(format!("E{shape}.show(o)")));
      s.push_str(&p(format!("E{shape}.showR(o)")));
      Some(s)
    }
    ["resv", h] => {
      // a word that is special in JavaScript used wherever samlang takes an identifier: parameter of a
      // self-tail-recursive function (becomes a loop variable), parameter of a non-inlined recursive
      // function, local, lambda parameter, field, method, method parameter, function name
      let w = String::from_utf8(unhex(h)).ok()?;
      if w.is_empty() || !w.chars().all(|c| c.is_ascii_alphanumeric()) {
        return None;
      }
      Some(format!(
        "FULL:class Holder(val {w}: int) {{\n  method plus(): int = this.{w} + 1\n  function make({w}: int): Holder = Holder.init({w})\n}}\nclass Meth(val v: int) {{\n  method {w}({w}: int): int = this.v + {w}\n}}\nclass Fn {{\n  function {w}(x: int): int = x * 2\n}}\nclass Main {{\n  function loop({w}: int, n: int): int = if n <= 0 {{ {w} }} else {{ Main.loop({w} + n, n - 1) }}\n  function rec({w}: Str, n: int): Str = if n <= 0 {{ {w} }} else {{ \"<\" :: Main.rec({w}, n - 1) :: \">\" }}\n  function local(x: int): int = {{\n    let {w} = x + \"1\".toInt();\n    let _ = Process.println(Str.fromInt({w}));\n    {w} * {w}\n  }}\n  function lambda(x: int): int = {{\n    let f = ({w}: int) -> {w} + x;\n    f(x) + f(1)\n  }}\n  function main(): unit = {{\n    let five = \"5\".toInt();\n    let _ = Process.println(Str.fromInt(Main.loop(five, \"3\".toInt())));\n    let _ = Process.println(Main.rec(Str.fromInt(five), \"2\".toInt()));\n    let _ = Process.println(Str.fromInt(Fn.{w}(five)));\n    let h = Holder.make(five + 1);\n    let _ = Process.println(Str.fromInt(h.plus()) :: \" \" :: Str.fromInt(h.{w}) :: \" \" :: Str.fromInt(Meth.init(five).{w}(five)));\n    let _ = Process.println(Str.fromInt(Main.local(five)) :: \" \" :: Str.fromInt(Main.lambda(five)));\n    let _ = Process.println(\"{MARK}\");\n  }}\n}}\n"
      ))
    }
    ["cov", name] => COV_PROGRAMS.iter().find(|(n, _)| n == name).map(|(_, src)| format!("FULL:{src}")),
    ["streq", ha, hb] => {
      // == / != on strings with equal or different contents where the operands are the same constant
      // (one shared object), a constant and a string built at run time, or two run-time strings
      let ok = |t: &str| t.chars().all(|c| c != '"' && c != '\\' && (c as u32 >= 32));
      let a = String::from_utf8(unhex(ha)).ok()?;
      let b = String::from_utf8(unhex(hb)).ok()?;
      if !ok(&a) || !ok(&b) {
        return None;
      }
      let split = |t: &str| -> (String, String) {
        let cs: Vec<char> = t.chars().collect();
        (cs[..cs.len() / 2].iter().collect(), cs[cs.len() / 2..].iter().collect())
      };
      let (a1, a2) = split(&a);
      let (b1, b2) = split(&b);
      Some(format!(
        "FULL:class Main {{\n  function e(k: int): Str = if k == 0 {{ \"\" }} else {{ \"x\" }}\n  function tf(a: Str, b: Str): Str = (if a == b {{ \"T\" }} else {{ \"F\" }}) :: (if a != b {{ \"T\" }} else {{ \"F\" }})\n  function main(): unit = {{\n    let z = \"0\".toInt();\n    let la = \"{a}\";\n    let lb = \"{b}\";\n    let ra = \"{a1}\" :: (\"{a2}\" :: Main.e(z));\n    let rb = \"{b1}\" :: (\"{b2}\" :: Main.e(z));\n    let _ = Process.println(Main.tf(la, lb) :: \" \" :: Main.tf(la, rb) :: \" \" :: Main.tf(ra, lb) :: \" \" :: Main.tf(ra, rb) :: \" \" :: Main.tf(ra, ra));\n  }}\n}}\n"
      ))
    }
    ["veq", a, b] => {
      let mut s = String::new();
      for (name, elems) in [("a", a), ("b", b)] {
        s.push_str(&format!("    let {name} = Vec.empty<int>();\n"));
        if *elems != "-" {
          for e in elems.split(',') {
            s.push_str(&format!("    let _ = {name}.push({});\n", int_lit(e)?));
          }
        }
      }
      for (x, y) in [("a", "b"), ("b", "a"), ("a", "a")] {
        s.push_str(&p(format!("\"v\" :: Str.fromInt(if {x}.eq({y}) {{ 1 }} else {{ 0 }})")));
      }
      Some(s)
    }
    ["seq", ha, na, hb, nb] => {
      let alnum = |h: &str| -> Option<String> {
        let t = String::from_utf8(unhex(h)).ok()?;
        if t.chars().all(|c| c.is_ascii_alphanumeric()) { Some(t) } else { None }
      };
      let (a, b) = (alnum(ha)?, alnum(hb)?);
      let mut s = format!(
        "    let a = \"{a}\" :: Str.fromInt({});\n    let b = \"{b}\" :: Str.fromInt({});\n",
        int_lit(na)?,
        int_lit(nb)?
      );
      s.push_str(&p("\"v\" :: Str.fromInt(if a == b { 1 } else { 0 })".to_string()));
      s.push_str(&p("\"v\" :: Str.fromInt(if a != b { 1 } else { 0 })".to_string()));
      s.push_str(&p("\"s\" :: a :: b".to_string()));
      Some(s)
    }
    ["vec", ops @ ..] => {
      let mut ops = ops;
      let mut s = String::from("    let v = Vec.empty<int>();\n");
      if let Some(first) = ops.first() {
        let f: Vec<&str> = first.split(':').collect();
        match f.as_slice() {
          ["new", "of", v] => {
            s = format!("    let v = Vec.of<int>({});\n", int_lit(v)?);
            ops = &ops[1..];
          }
          ["new", "cap", n] => {
            s = format!("    let v = Vec.withCapacity<int>({});\n", int_lit(n)?);
            ops = &ops[1..];
          }
          _ => {}
        }
      }
      for o in ops {
        let f: Vec<&str> = o.split(':').collect();
        match f.as_slice() {
          ["push", v] => {
            s.push_str(&format!("    let _ = v.push({});\n", int_lit(v)?));
            s.push_str(&p("\"u\"".to_string()));
          }
          ["pop"] => s.push_str(&p("\"v\" :: Str.fromInt(v.pop())".to_string())),
          ["get", i] => s.push_str(&p(format!("\"v\" :: Str.fromInt(v.get({}))", int_lit(i)?))),
          ["set", i, v] => {
            s.push_str(&format!("    let _ = v.set({}, {});\n", int_lit(i)?, int_lit(v)?));
            s.push_str(&p("\"u\"".to_string()));
          }
          ["len"] => s.push_str(&p("\"v\" :: Str.fromInt(v.length())".to_string())),
          ["cap"] => s.push_str(&p("\"v\" :: Str.fromInt(v.capacity())".to_string())),
          ["res", n] => {
            s.push_str(&format!("    let _ = v.reserve({});\n", int_lit(n)?));
            s.push_str(&p("\"u\"".to_string()));
          }
          _ => return None,
        }
      }
      Some(s)
    }
    _ => None,
  }
}

struct Prog {
  idx: Vec<usize>,
  source: String,
}

/// Splits one back end's output into per-line legs.
fn legs(r: &RunResult, n: usize) -> Vec<String> {
  let mut out = Vec::new();
  let mut cur: Vec<&str> = Vec::new();
  let mut it = r.lines.iter();
  let mut ended = false;
  for _ in 0..n {
    if ended {
      out.push("unreached".to_string());
      continue;
    }
    let mut closed = false;
    for l in it.by_ref() {
      if l == MARK {
        closed = true;
        break;
      }
      cur.push(l);
    }
    let text = cur.join("\n");
    cur.clear();
    if closed {
      out.push(format!("{} -", hex(text.as_bytes())));
    } else {
      ended = true;
      out.push(format!("{} {}", hex(text.as_bytes()), hex(r.end.as_bytes())));
    }
  }
  out
}

fn main() {
  std::panic::set_hook(Box::new(|_| {}));
  let lines: Vec<String> =
    std::io::stdin().lock().lines().map(|l| l.unwrap().trim_end().to_string()).filter(|l| !l.is_empty()).collect();
  if lines.len() == 1 && lines[0] == "prelude" {
    // the real text every emitted .ts file starts with (tie of the TypeScript runtime, see extract/c04_runtime.py)
    println!("{}", hex(samlang_ast::lir::ts_prolog().as_bytes()));
    return;
  }
  if lines.len() == 1 && lines[0].starts_with("emit ") {
    // debugging aid: emitted TypeScript (without the prelude) of one Main module given in hex
    let src = String::from_utf8(unhex(&lines[0][5..])).unwrap();
    let std = src.contains("from std.");
    match compile_program(&[("Main".to_string(), src)], "Main", std) {
      CompileOutcome::Ok(c) => println!("{}", c.ts.replace(&samlang_ast::lir::ts_prolog(), "")),
      CompileOutcome::Errors(e) => println!("ERRORS {e}"),
      CompileOutcome::Panic(e) => println!("PANIC {e}"),
    }
    return;
  }
  let mut answers: Vec<String> = vec![String::new(); lines.len()];
  let mut progs: Vec<Prog> = Vec::new();
  let mut cur: Option<Prog> = None;
  let wrap = |body: &str| {
    format!(
      "class Box(val v: int) {{}}\nclass OptB(None, Other, Some(Box)) {{\n  function show(o: OptB): Str = match o {{ None -> \"none\", Other -> \"other\", Some(b) -> \"some \" :: Str.fromInt(b.v) }}\n}}\nclass OptV(None, Other, Some(Vec<int>)) {{\n  function show(o: OptV): Str = match o {{ None -> \"none\", Other -> \"other\", Some(v) -> \"some \" :: Str.fromInt(v.length()) }}\n}}\n{ENUMS}class Main {{\n  function idOf(x: Box, o0: Box, o1: Box, o2: Box): Str = if x == o0 {{ \"0\" }} else {{ if x == o1 {{ \"1\" }} else {{ if x == o2 {{ \"2\" }} else {{ \"3\" }} }} }}\n  function main(): unit = {{\n{body}  }}\n}}\n"
    )
  };
  for (i, raw) in lines.iter().enumerate() {
    let (solo, l) = match raw.strip_prefix('!') {
      Some(r) => (true, r),
      None => (false, raw.as_str()),
    };
    let Some(sn) = snippet(l) else {
      answers[i] = "unsupported".to_string();
      continue;
    };
    let sn = if sn.starts_with("FULL:") { sn } else { format!("{sn}    let _ = Process.println(\"{MARK}\");\n") };
    if solo || l.starts_with("vec") || l.starts_with("veq") || l.starts_with("streq") || l.starts_with("cov") || l.starts_with("resv") || l.starts_with("enum") || l.starts_with("vecr") || l.starts_with("seq") || l.starts_with("tag") {
      progs.push(Prog { idx: vec![i], source: sn });
    } else {
      let c = cur.get_or_insert_with(|| Prog { idx: vec![], source: String::new() });
      c.idx.push(i);
      c.source.push_str(&sn);
      if c.idx.len() >= BATCH {
        progs.push(cur.take().unwrap());
      }
    }
  }
  if let Some(c) = cur.take() {
    progs.push(c);
  }
  let results: Vec<Vec<String>> = progs
    .par_iter()
    .enumerate()
    .map(|(k, p)| {
      let src = match p.source.strip_prefix("FULL:") {
        Some(full) => full.to_string(),
        None => wrap(&p.source),
      };
      let n = p.idx.len();
      match compile_program(&[("Main".to_string(), src)], "Main", false) {
        CompileOutcome::Errors(e) => {
          let first = e.lines().find(|l| !l.trim().is_empty() && !l.starts_with("Error -")).unwrap_or("").trim().to_string();
          vec![format!("C {}", hex(first.as_bytes())); n]
        }
        CompileOutcome::Panic(e) => vec![format!("X {}", hex(e.as_bytes())); n],
        CompileOutcome::Ok(c) => {
          let runs = run_compiled(&c, &scratch_dir("c04", k), Duration::from_millis(20000), true);
          let t = legs(&runs.ts, n);
          let w = legs(&runs.wasm, n);
          (0..n).map(|j| format!("T {} W {}", t[j], w[j])).collect()
        }
      }
    })
    .collect();
  cleanup_scratch("c04");
  for (p, r) in progs.iter().zip(results) {
    for (j, i) in p.idx.iter().enumerate() {
      answers[*i] = r[j].clone();
    }
  }
  for a in answers {
    println!("{a}");
  }
}
