//! C18 implementation-side executor (protocol `stdops`, see /verif/vlib/c18.py).
//!
//! The code under test is `std/map.sam`, `std/list.sam` (embedded into the compiler at build time by
//! `samlang_parser::builtin_std_raw_sources`, crates/samlang-parser/src/lib.rs:39) and
//! `std/set.sam` (not embedded by the compiler; included here at build time, so that an edit of the
//! file is picked up by the rebuild exactly like the embedded ones).  Each input line is a JSON
//! object {"main": "<text of module Main>", "ts": bool, "timeout_ms": n}: the module is compiled
//! in-process with the real `samlang_compiler::compile_sources` together with the std modules and
//! the emitted WebAssembly / TypeScript are executed under Node >= 22.
//!
//! stdout: first a header line {"header": {...}} describing the std sources that were linked in,
//! then one JSON answer per input line (same shape as the shared `exec` oracle).
use rayon::prelude::*;
use samverif_harness::exec::*;
use std::io::BufRead;
use std::time::Duration;

const SET_SAM: &str = include_str!("/repo/std/set.sam");

fn main() {
  std::panic::set_hook(Box::new(|_| {}));
  // header: are the embedded std sources the ones on disk right now?
  let mut embedded: Vec<(String, bool, usize)> = Vec::new();
  {
    let heap = &mut samlang_heap::Heap::new();
    for (m, text) in samlang_parser::builtin_std_raw_sources(heap) {
      let name = m.pretty_print(heap);
      let file = format!("/repo/{}.sam", name.replace('.', "/"));
      let same = std::fs::read_to_string(&file).map(|t| t == text).unwrap_or(false);
      embedded.push((name, same, text.len()));
    }
  }
  embedded.sort();
  let set_same = std::fs::read_to_string("/repo/std/set.sam").map(|t| t == SET_SAM).unwrap_or(false);
  println!(
    "{}",
    serde_json::json!({"header": {
      "embedded": embedded.iter().map(|(n, s, l)| serde_json::json!({"module": n, "same_as_disk": s, "bytes": l})).collect::<Vec<_>>(),
      "std_set_embedded_by_compiler": embedded.iter().any(|(n, _, _)| n == "std.set"),
      "std_set_same_as_disk": set_same,
    }})
  );
  let lines: Vec<String> =
    std::io::stdin().lock().lines().map(|l| l.unwrap()).filter(|l| !l.trim().is_empty()).collect();
  let answers: Vec<String> = lines
    .par_iter()
    .enumerate()
    .map(|(i, line)| {
      let v: serde_json::Value = match serde_json::from_str(line) {
        Ok(v) => v,
        Err(e) => return serde_json::json!({"compile": "bad-input", "msg": e.to_string()}).to_string(),
      };
      let main = v["main"].as_str().unwrap_or("").to_string();
      let mut sources: Vec<(String, String)> = vec![("Main".to_string(), main)];
      if !embedded.iter().any(|(n, _, _)| n == "std.set") {
        sources.push(("std.set".to_string(), SET_SAM.to_string()));
      }
      let run_ts = v["ts"].as_bool().unwrap_or(true);
      let timeout = Duration::from_millis(v["timeout_ms"].as_u64().unwrap_or(20000));
      match compile_program(&sources, "Main", true) {
        CompileOutcome::Errors(e) => serde_json::json!({"compile": "errors", "msg": e}).to_string(),
        CompileOutcome::Panic(e) => serde_json::json!({"compile": "panic", "msg": e}).to_string(),
        CompileOutcome::Ok(c) => {
          let runs = run_compiled(&c, &scratch_dir("c18", i), timeout, run_ts);
          serde_json::json!({
            "compile": "ok",
            "wasm": {"lines": runs.wasm.lines, "end": runs.wasm.end},
            "ts": {"lines": runs.ts.lines, "end": runs.ts.end},
          })
          .to_string()
        }
      }
    })
    .collect();
  cleanup_scratch("c18");
  for a in answers {
    println!("{a}");
  }
}
