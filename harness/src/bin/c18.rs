//! Harness binary for property C18 (line protocol; see /verif/vlib/BUILDER_GUIDE.md).
fn main() {
  eprintln!("c18: not implemented yet");
  std::process::exit(2);
}
