//! Harness binary for property C05 (line protocol; see /verif/vlib/BUILDER_GUIDE.md).
fn main() {
  eprintln!("c05: not implemented yet");
  std::process::exit(2);
}
