//! Protocols of C05 (and the token part of C14), implementation side, all in-process:
//!
//! `lex <hex>`      the real `TokenProducer` (hook H6) run to the end of the text:
//!                  `T <kind>:<hextext>@l0.c0-l1.c1;... E <l0.c0-l1.c1:code>,... [P <hexmsg>]`
//!                  (tokens yielded before a panic are kept; `P` only if the lexer panicked).
//! `full <name> <hex> [<name> <hex>]...`
//!                  the whole front half of the pipeline on one or several modules, each stage under
//!                  `catch_unwind`, in a 64 MiB-stack thread with a wall-clock watchdog:
//!                  parse -> (pretty-print module if no syntax error) -> type check -> text error
//!                  report -> IDE error format -> `compile_sources`.
//!                  `ok syn=<n> errs=<n> printed=<0|1> compiled=<ok|errors>` |
//!                  `panic@<stage> <hexmsg>` | `timeout@<stage>`
use samlang_errors::{ErrorDetail, ErrorSet};
use samlang_heap::{Heap, ModuleReference};
use samverif_harness::util::*;
use std::collections::HashMap;
use std::panic::{AssertUnwindSafe, catch_unwind};
use std::sync::{Arc, Mutex, mpsc};
use std::time::Duration;

fn syntax_errors(error_set: &ErrorSet) -> Vec<String> {
  // BTreeSet order: location, then detail
  error_set
    .errors()
    .iter()
    .filter_map(|e| match &e.detail {
      ErrorDetail::InvalidSyntax(reason) => {
        let code = match reason.as_str() {
          "Invalid escape in string." => "esc",
          "Invalid token." => "tok",
          "Not a 32-bit integer." => "int",
          _ => "other",
        };
        let l = e.location;
        Some(format!("{}.{}-{}.{}:{}", l.start.0, l.start.1, l.end.0, l.end.1, code))
      }
      _ => None,
    })
    .collect()
}

fn lex(text: &str) -> String {
  let mut heap = Heap::new();
  let mut error_set = ErrorSet::new();
  let mut toks: Vec<String> = Vec::new();
  let r = catch_unwind(AssertUnwindSafe(|| {
    samlang_parser::verif_hooks::produce_tokens_with(
      text,
      ModuleReference::DUMMY,
      &mut heap,
      &mut error_set,
      |(kind, text, (l0, c0, l1, c1))| {
        toks.push(format!("{kind}:{}@{l0}.{c0}-{l1}.{c1}", hex(text.as_bytes())));
      },
    );
  }));
  let errs = syntax_errors(&error_set);
  let mut out = format!(
    "T {} E {}",
    if toks.is_empty() { "-".to_string() } else { toks.join(";") },
    if errs.is_empty() { "-".to_string() } else { errs.join(",") }
  );
  if let Err(e) = r {
    out.push_str(&format!(" P {}", hex(format!("{} [{}]", panic_msg(&e), panic_at()).as_bytes())));
  }
  out
}

/// location of the most recent panic (file:line), recorded by the panic hook
static LAST_PANIC_AT: Mutex<String> = Mutex::new(String::new());

fn panic_at() -> String {
  LAST_PANIC_AT.lock().map(|s| s.clone()).unwrap_or_default()
}

fn stage(cell: &Arc<Mutex<&'static str>>, s: &'static str) {
  *cell.lock().unwrap() = s;
}

fn full_pipeline(mods: Vec<(String, String)>, st: Arc<Mutex<&'static str>>) -> String {
  let mut heap = Heap::new();
  let mut error_set = ErrorSet::new();
  let mut sources: HashMap<ModuleReference, String> = HashMap::new();
  let mut refs = Vec::new();
  for (name, text) in &mods {
    let parts: Vec<String> = name.split('.').map(|s| s.to_string()).collect();
    let m = heap.alloc_module_reference_from_string_vec(parts);
    sources.insert(m, text.clone());
    refs.push(m);
  }
  // 1. parse every module
  stage(&st, "parse");
  let mut parsed = HashMap::new();
  for m in &refs {
    let module =
      samlang_parser::parse_source_module_from_text(&sources[m], *m, &mut heap, &mut error_set);
    parsed.insert(*m, module);
  }
  let syn = error_set.errors().iter().filter(|e| e.is_syntax_error()).count();
  // 2. printer (only meaningful without syntax errors)
  let mut printed = 0;
  if syn == 0 {
    stage(&st, "print");
    for m in &refs {
      let _ = samlang_printer::pretty_print_source_module(&heap, 100, &parsed[m]);
      let _ = samlang_printer::pretty_print_source_module(&heap, 20, &parsed[m]);
    }
    printed = 1;
  }
  // 3. checker (std sources are added so that imports of std.* resolve like in the CLI)
  stage(&st, "check");
  for (m, s) in samlang_parser::builtin_std_raw_sources(&mut heap) {
    if !sources.contains_key(&m) {
      let module = samlang_parser::parse_source_module_from_text(&s, m, &mut heap, &mut error_set);
      parsed.insert(m, module);
      sources.insert(m, s);
    }
  }
  let _ = samlang_checker::type_check_sources(&parsed, &mut error_set);
  // 4. diagnostics rendering
  stage(&st, "report");
  let text = error_set.pretty_print_error_messages(&heap, &sources);
  let nerr = error_set.errors().len();
  if (nerr == 0) != text.is_empty() {
    return format!("panic@report {}", hex(b"error report empty/non-empty mismatch"));
  }
  stage(&st, "ide");
  for e in error_set.errors() {
    let _ = e.to_ide_format(&heap, &sources);
  }
  // 5. the real compile entry point (re-parses, checks, lowers, optimises, emits)
  stage(&st, "compile");
  let compiled = match samlang_compiler::compile_sources(&mut heap, sources.clone(), refs.clone(), false)
  {
    Ok(_) => "ok",
    Err(_) => "errors",
  };
  // an entry point that does not exist is an error value, never a panic
  let bogus = heap.alloc_module_reference_from_string_vec(vec!["no".to_string(), "SuchEntry".to_string()]);
  if samlang_compiler::compile_sources(&mut heap, sources.clone(), vec![bogus], false).is_ok() {
    return format!("panic@compile {}", hex(b"compile_sources accepted a non-existent entry point"));
  }
  if (compiled == "ok") != (nerr == 0) {
    return format!("panic@compile {}", hex(b"compile_sources result disagrees with the error set"));
  }
  format!("ok syn={syn} errs={nerr} printed={printed} compiled={compiled}")
}

fn full(args: &[&str], timeout: Duration) -> String {
  let mut mods = Vec::new();
  for pair in args.chunks(2) {
    if pair.len() != 2 {
      return "bad-op".to_string();
    }
    mods.push((pair[0].to_string(), unhex_str(pair[1])));
  }
  let st: Arc<Mutex<&'static str>> = Arc::new(Mutex::new("start"));
  let st2 = st.clone();
  let (tx, rx) = mpsc::channel();
  // worker stack: 64 MiB by default; C05_STACK_MB=8 reproduces the CLI (parsing on the 8 MiB main thread)
  let stack_mb: usize =
    std::env::var("C05_STACK_MB").ok().and_then(|s| s.parse().ok()).unwrap_or(64);
  let spawned = std::thread::Builder::new().stack_size(stack_mb << 20).spawn(move || {
    let st3 = st2.clone();
    let r = catch_unwind(AssertUnwindSafe(move || full_pipeline(mods, st3)));
    let ans = match r {
      Ok(s) => s,
      Err(e) => format!(
        "panic@{} {}",
        *st2.lock().unwrap(),
        hex(format!("{} [{}]", panic_msg(&e), panic_at()).as_bytes())
      ),
    };
    let _ = tx.send(ans);
  });
  if spawned.is_err() {
    return "bad-thread".to_string();
  }
  match rx.recv_timeout(timeout) {
    Ok(s) => s,
    Err(_) => format!("timeout@{}", *st.lock().unwrap()),
  }
}

fn main() {
  std::panic::set_hook(Box::new(|info| {
    if let (Some(l), Ok(mut g)) = (info.location(), LAST_PANIC_AT.lock()) {
      let f = l.file();
      *g = format!("{}:{}", f.rsplit("crates/").next().unwrap_or(f), l.line());
    }
  }));
  // the checker runs on rayon's global pool: give its workers the same 64 MiB stack
  // (C05_RAYON_STACK_MB=2 reproduces rayon's default, which is what the CLI and the LSP server use)
  let rayon_mb: usize =
    std::env::var("C05_RAYON_STACK_MB").ok().and_then(|s| s.parse().ok()).unwrap_or(64);
  let _ = rayon::ThreadPoolBuilder::new().stack_size(rayon_mb << 20).build_global();
  let timeout_ms: u64 =
    std::env::var("C05_TIMEOUT_MS").ok().and_then(|s| s.parse().ok()).unwrap_or(20000);
  use std::io::{BufRead, Write};
  let stdin = std::io::stdin();
  let mut out = std::io::BufWriter::new(std::io::stdout().lock());
  for line in stdin.lock().lines() {
    let line = line.unwrap();
    let line = line.trim_end();
    if line.is_empty() {
      continue;
    }
    let t: Vec<&str> = line.split(' ').collect();
    let ans = match t[0] {
      "lex" if t.len() == 2 => lex(&unhex_str(t[1])),
      "full" => full(&t[1..], Duration::from_millis(timeout_ms)),
      // the second parser entry point: `parse_source_expression_from_text`
      "expr" if t.len() == 2 => {
        let text = unhex_str(t[1]);
        let r = catch_unwind(AssertUnwindSafe(|| {
          let mut heap = Heap::new();
          let mut error_set = ErrorSet::new();
          let _ = samlang_parser::parse_source_expression_from_text(
            &text,
            ModuleReference::DUMMY,
            &mut heap,
            &mut error_set,
          );
          error_set.errors().len()
        }));
        match r {
          Ok(n) => format!("ok errs={n}"),
          Err(e) => format!("panic@expr {}", hex(format!("{} [{}]", panic_msg(&e), panic_at()).as_bytes())),
        }
      }
      _ => "bad-op".to_string(),
    };
    writeln!(out, "{ans}").unwrap();
    // flush per answer: if a later case kills the process (stack overflow), the caller must be able
    // to attribute the death to the right case
    out.flush().unwrap();
    if ans.starts_with("timeout@") {
      // the stuck worker thread cannot be killed: answer and leave (the caller restarts us)
      out.flush().unwrap();
      std::process::exit(3);
    }
  }
  out.flush().unwrap();
}
