//! Harness binary for property C03 (accepted programs never go wrong).
//!
//! Line protocol (all lines are independent; they are processed in parallel, answers in order):
//!   prog {"sources": {"Mod": text, ..}, "entry": "Mod", "std": bool, "run": bool, "ts": bool,
//!         "strings": bool, "timeout_ms": n}
//!       -> {"check": "done"|"panic", "nerr": n, "errors": [..], "compile": "ok"|"err"|"panic",
//!           "msg": .., "validate": "valid"|"invalid: ..", "wasm": {"lines", "end"}, "ts": {..},
//!           "strings": [template-literal bodies of the emitted GLOBAL_STRING_k constants]}
//!     pass 1 = the real parser + `type_check_sources` (the accept decision, observed separately),
//!     pass 2 = the real `compile_sources` under catch_unwind, pass 3 = wasmparser validation of the
//!     emitted bytes (GC features on), pass 4 = both emitted programs under Node >= 22.
//!   fold OP a b | merge OUTER INNER c1 c2 | trip G i0 step bound
//!       -> the optimizer's compile-time arithmetic kernels (same answer format as c02), `panic`
//!          when the kernel aborts (dev profile: overflow checks on).
use rayon::prelude::*;
use samlang_ast::hir::BinaryOperator as B;
use samlang_errors::ErrorSet;
use samlang_heap::{Heap, ModuleReference};
use samlang_optimization::verif_hooks;
use samverif_harness::exec::*;
use samverif_harness::util::*;
use std::collections::HashMap;
use std::io::BufRead;
use std::panic::{AssertUnwindSafe, catch_unwind};
use std::time::Duration;

fn op_of(s: &str) -> Option<B> {
  Some(match s {
    "mul" => B::MUL,
    "div" => B::DIV,
    "mod" => B::MOD,
    "add" => B::PLUS,
    "sub" => B::MINUS,
    "and" => B::LAND,
    "or" => B::LOR,
    "shl" => B::SHL,
    "shr" => B::SHR,
    "xor" => B::XOR,
    "lt" => B::LT,
    "le" => B::LE,
    "gt" => B::GT,
    "ge" => B::GE,
    "eq" => B::EQ,
    "ne" => B::NE,
    _ => return None,
  })
}

fn op_name(o: B) -> &'static str {
  match o {
    B::MUL => "mul",
    B::DIV => "div",
    B::MOD => "mod",
    B::PLUS => "add",
    B::MINUS => "sub",
    B::LAND => "and",
    B::LOR => "or",
    B::SHL => "shl",
    B::SHR => "shr",
    B::XOR => "xor",
    B::LT => "lt",
    B::LE => "le",
    B::GT => "gt",
    B::GE => "ge",
    B::EQ => "eq",
    B::NE => "ne",
  }
}

fn int(s: &str) -> Result<i32, std::num::ParseIntError> {
  s.parse::<i32>()
}

fn kernel(t: &[&str]) -> String {
  let r = catch_unwind(AssertUnwindSafe(|| match t[0] {
    "fold" if t.len() == 4 => match (op_of(t[1]), int(t[2]), int(t[3])) {
      (Some(o), Ok(a), Ok(b)) => match verif_hooks::evaluate_bin_op(o, a, b) {
        Some(v) => format!("v {v}"),
        None => "nofold".to_string(),
      },
      _ => "bad-line".to_string(),
    },
    "merge" if t.len() == 5 => match (op_of(t[1]), op_of(t[2]), int(t[3]), int(t[4])) {
      (Some(o), Some(i), Ok(c1), Ok(c2)) => {
        match verif_hooks::merge_binary_expression(o, i, c1, c2) {
          Some((op, c)) => format!("m {} {c}", op_name(op)),
          None => "none".to_string(),
        }
      }
      _ => "bad-line".to_string(),
    },
    "trip" if t.len() == 5 => {
      let g = match t[1] {
        "lt" => 0u8,
        "le" => 1,
        "gt" => 2,
        "ge" => 3,
        _ => return "bad-line".to_string(),
      };
      match (int(t[2]), int(t[3]), int(t[4])) {
        (Ok(i0), Ok(st), Ok(b)) => {
          match verif_hooks::analyze_number_of_iterations_to_break_guard(i0, st, g, b) {
            Some(n) => format!("n {n}"),
            None => "none".to_string(),
          }
        }
        _ => "bad-line".to_string(),
      }
    }
    _ => "bad-op".to_string(),
  }));
  r.unwrap_or_else(|_| "panic".to_string())
}

/// wasmparser validation with the proposals the emitted module uses (GC, function references,
/// tail calls, ...) switched on.
fn validate(bytes: &[u8]) -> String {
  let r = catch_unwind(AssertUnwindSafe(|| {
    let mut v = wasmparser::Validator::new_with_features(wasmparser::WasmFeatures::all());
    match v.validate_all(bytes) {
      Ok(_) => "valid".to_string(),
      Err(e) => format!("invalid: {e}"),
    }
  }));
  r.unwrap_or_else(|e| format!("invalid: validator panicked: {}", panic_msg(&e)))
}

/// Bodies of the template literals of `const GLOBAL_STRING_k: _Str = [0, `...` as unknown as number];`
fn ts_strings(ts: &str) -> Vec<String> {
  let mut out = Vec::new();
  let suffix = "` as unknown as number];";
  for line in ts.lines() {
    if let Some(rest) = line.strip_prefix("const GLOBAL_STRING_") {
      if let Some(pos) = rest.find(": _Str = [0, `") {
        let body = &rest[pos + ": _Str = [0, `".len()..];
        if let Some(b) = body.strip_suffix(suffix) {
          out.push(hex(b.as_bytes()));
        } else {
          out.push(format!("?{}", hex(body.as_bytes())));
        }
      }
    }
  }
  out
}

fn run_prog(idx: usize, line: &str) -> String {
  let v: serde_json::Value = match serde_json::from_str(line) {
    Ok(v) => v,
    Err(e) => return serde_json::json!({"check": "bad-input", "msg": e.to_string()}).to_string(),
  };
  let with_std = v["std"].as_bool().unwrap_or(true);
  let entry = v["entry"].as_str().unwrap_or("Main").to_string();
  let run = v["run"].as_bool().unwrap_or(true);
  let run_ts = v["ts"].as_bool().unwrap_or(true);
  let want_strings = v["strings"].as_bool().unwrap_or(false);
  let want_emit = v["emit"].as_bool().unwrap_or(false);
  let timeout = Duration::from_millis(v["timeout_ms"].as_u64().unwrap_or(10000));
  let mut srcs: Vec<(String, String)> = v["sources"]
    .as_object()
    .map(|o| o.iter().map(|(k, t)| (k.clone(), t.as_str().unwrap_or("").to_string())).collect())
    .unwrap_or_default();
  srcs.sort();
  // pass 1: the accept decision (parser + checker)
  let srcs1 = srcs.clone();
  let check = catch_unwind(AssertUnwindSafe(move || {
    let heap = &mut Heap::new();
    let mut error_set = ErrorSet::new();
    let mut texts: HashMap<ModuleReference, String> = HashMap::new();
    if with_std {
      for (m, s) in samlang_parser::builtin_std_raw_sources(heap) {
        texts.insert(m, s);
      }
    }
    for (name, text) in &srcs1 {
      let parts: Vec<String> = name.split('.').map(|s| s.to_string()).collect();
      texts.insert(heap.alloc_module_reference_from_string_vec(parts), text.clone());
    }
    let mut parsed = HashMap::new();
    for (m, t) in &texts {
      parsed.insert(*m, samlang_parser::parse_source_module_from_text(t, *m, heap, &mut error_set));
    }
    let _ = samlang_checker::type_check_sources(&parsed, &mut error_set);
    let n = error_set.errors().len();
    let rendered = error_set.pretty_print_error_messages(heap, &texts);
    (n, rendered)
  }));
  let mut ans = serde_json::Map::new();
  match check {
    Ok((n, rendered)) => {
      ans.insert("check".into(), "done".into());
      ans.insert("nerr".into(), n.into());
      let short: String = rendered.chars().take(3000).collect();
      ans.insert("errors".into(), short.into());
    }
    Err(e) => {
      ans.insert("check".into(), "panic".into());
      ans.insert("nerr".into(), (-1).into());
      ans.insert("errors".into(), panic_msg(&e).into());
    }
  }
  // pass 2: the real compile_sources
  if !srcs.iter().any(|(n, _)| *n == entry) {
    // entry module absent: exercise compile_sources' own entry check (lib.rs:54-61)
    let srcs2 = srcs.clone();
    let entry2 = entry.clone();
    let r = catch_unwind(AssertUnwindSafe(move || {
      let heap = &mut Heap::new();
      let mut handles: HashMap<ModuleReference, String> = HashMap::new();
      if with_std {
        for (m, s) in samlang_parser::builtin_std_raw_sources(heap) {
          handles.insert(m, s);
        }
      }
      for (name, text) in &srcs2 {
        let parts: Vec<String> = name.split('.').map(|s| s.to_string()).collect();
        handles.insert(heap.alloc_module_reference_from_string_vec(parts), text.clone());
      }
      let parts: Vec<String> = entry2.split('.').map(|s| s.to_string()).collect();
      let e = heap.alloc_module_reference_from_string_vec(parts);
      samlang_compiler::compile_sources(heap, handles, vec![e], false).map(|_| ())
    }));
    match r {
      Ok(Ok(())) => {
        ans.insert("compile".into(), "ok".into());
      }
      Ok(Err(e)) => {
        ans.insert("compile".into(), "err".into());
        ans.insert("msg".into(), e.chars().take(300).collect::<String>().into());
      }
      Err(e) => {
        ans.insert("compile".into(), "panic".into());
        ans.insert("msg".into(), panic_msg(&e).into());
      }
    }
    return serde_json::Value::Object(ans).to_string();
  }
  match compile_program(&srcs, &entry, with_std) {
    CompileOutcome::Errors(e) => {
      ans.insert("compile".into(), "err".into());
      ans.insert("msg".into(), e.chars().take(300).collect::<String>().into());
    }
    CompileOutcome::Panic(m) => {
      ans.insert("compile".into(), "panic".into());
      ans.insert("msg".into(), m.into());
    }
    CompileOutcome::Ok(c) => {
      ans.insert("compile".into(), "ok".into());
      ans.insert("wasm_bytes".into(), c.wasm.len().into());
      ans.insert("validate".into(), validate(&c.wasm).into());
      if want_strings {
        ans.insert("strings".into(), ts_strings(&c.ts).into());
      }
      if want_emit {
        ans.insert("ts_text".into(), c.ts.clone().into());
      }
      if run {
        let runs = run_compiled(&c, &scratch_dir("c03", idx), timeout, run_ts);
        ans.insert("wasm".into(), serde_json::json!({"lines": runs.wasm.lines, "end": runs.wasm.end}));
        ans.insert("ts".into(), serde_json::json!({"lines": runs.ts.lines, "end": runs.ts.end}));
      }
    }
  }
  serde_json::Value::Object(ans).to_string()
}

/// `layout {"sources": {"Main": text}}`: the real front end, `perform_generics_specialization` (enum layout
/// choice) and `compile_mir_to_lir` (type erasure) on a single module. Answer:
/// `T3=i,u,b2;T4=b1 | probe3=any;probe4=id` (variants: i = Int31, u = Unboxed, b<n> = Boxed with n
/// payload fields; probes: LIR type of the parameter of `Main.probe<k>(x: T<k>)`).
fn layout_line(rest: &str) -> String {
  let v: serde_json::Value = match serde_json::from_str(rest) {
    Ok(v) => v,
    Err(e) => return format!("bad-input {e}"),
  };
  let text = v["sources"]["Main"].as_str().unwrap_or("").to_string();
  let r = catch_unwind(AssertUnwindSafe(|| {
    let mut heap = Heap::new();
    let heap = &mut heap;
    let mut error_set = ErrorSet::new();
    let mr = heap.alloc_module_reference_from_string_vec(vec!["Main".to_string()]);
    let parsed = samlang_parser::parse_source_module_from_text(&text, mr, heap, &mut error_set);
    let mut parsed_sources = HashMap::new();
    parsed_sources.insert(mr, parsed);
    let checked = samlang_checker::type_check_sources(&parsed_sources, &mut error_set).0;
    if error_set.has_errors() {
      return "rejected".to_string();
    }
    let hir = samlang_compiler::verif_hooks::lower_to_hir(heap, &checked);
    let mir = samlang_compiler::verif_hooks::specialize(heap, hir);
    let mut enums = Vec::new();
    for d in &mir.type_definitions {
      let n = d.name.encoded_for_test(heap, &mir.symbol_table);
      if !n.starts_with("Main_") {
        continue;
      }
      if let samlang_ast::mir::TypeDefinitionMappings::Enum(vs) = &d.mappings {
        let kinds: Vec<String> = vs
          .iter()
          .map(|x| match x {
            samlang_ast::mir::EnumTypeDefinition::Int31 => "i".to_string(),
            samlang_ast::mir::EnumTypeDefinition::Unboxed(_) => "u".to_string(),
            samlang_ast::mir::EnumTypeDefinition::Boxed(ts) => format!("b{}", ts.len() - 1),
          })
          .collect();
        enums.push(format!("{}={}", n.trim_start_matches("Main_"), kinds.join(",")));
      }
    }
    enums.sort();
    let lir = samlang_compiler::compile_mir_to_lir(heap, mir);
    let mut probes = Vec::new();
    for f in &lir.functions {
      let name = f.name.fn_name.as_str(heap).to_string();
      if name.starts_with("probe") {
        let mut kind = "other";
        for t in &f.type_.argument_types {
          match t {
            samlang_ast::lir::Type::AnyPointer => kind = "any",
            samlang_ast::lir::Type::Id(_) => kind = "id",
            _ => {}
          }
        }
        probes.push(format!("{name}={kind}"));
      }
    }
    probes.sort();
    probes.dedup();
    format!("{} | {}", enums.join(";"), probes.join(";"))
  }));
  r.unwrap_or_else(|e| format!("panic {}", panic_msg(&e)))
}

fn main() {
  std::panic::set_hook(Box::new(|_| {}));
  let lines: Vec<String> = std::io::stdin()
    .lock()
    .lines()
    .map(|l| l.unwrap())
    .map(|l| l.trim_end().to_string())
    .filter(|l| !l.is_empty())
    .collect();
  let answers: Vec<String> = lines
    .par_iter()
    .enumerate()
    .map(|(i, line)| {
      let (op, rest) = line.split_once(' ').unwrap_or((line.as_str(), ""));
      match op {
        "prog" => run_prog(i, rest),
        "layout" => layout_line(rest),
        "fold" | "merge" | "trip" => {
          let t: Vec<&str> = line.split(' ').filter(|s| !s.is_empty()).collect();
          kernel(&t)
        }
        other => format!("bad-op {other}"),
      }
    })
    .collect();
  cleanup_scratch("c03");
  for a in answers {
    println!("{a}");
  }
}
