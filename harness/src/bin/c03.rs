//! Harness binary for property C03 (line protocol; see /verif/vlib/BUILDER_GUIDE.md).
fn main() {
  eprintln!("c03: not implemented yet");
  std::process::exit(2);
}
