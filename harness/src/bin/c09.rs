//! Harness binary for property C09 (formatting is idempotent and keeps every comment).
//! Line protocol, one answer per line:
//!   layout <width> <doc>        real `prettier::pretty_print` (hook H4)      -> s:<hex>
//!   expand <doc>                document after running the real builders      -> d:<doc>
//!   flatten <doc>               real `Document::flatten`                      -> d:<doc> | none
//!   queue <hextext> <ops>       real parser `peek`(p)/`consume`(c) on the real token producer
//!                               -> p:<hex>|c:<kind>=<hex>,...;...|pending
//!   prepend <target> <extra> <group>*   real `mod_associated_comments_with_additional_preceding_comments`
//!                               -> r:<hexlist> n:<store size>
//!   fmt <width> <hexsrc>        real parse + `pretty_print_source_module`
//!                               -> ok <hex formatted> <comments in store> | err <n> <hex first msg> | panic <hex>
//!   fmtdoc <width> <hexsrc>     real Document of the module (hook H4b) + real output -> ok <hex> <doc>
//!   imports <hexsrc>           parsed import lines + real Document -> ok only|more <imports> | <doc>
//!   list <hextext> <p|g>       real comma-separated-list production (upper ids, end `)` or `>`): elements=comments;..|end|pending
//!   attach <hextext> <extra>    comment skeletons: plain parse | parse_expression_with_additional_preceding_comments
//!   paren <hextext> <start> <stop>  skeleton before | after keep_parenthesis_comments
//!   exprdoc <width> <hextext>  arithmetic-fragment tree + real Document of the expression + real layout
//!   tok <hexsrc>                real token producer (hook H6) -> kind:l0:c0:l1:c1:hex,...
use samlang_errors::ErrorSet;
use samlang_heap::{Heap, ModuleReference};
use samverif_harness::util::*;
use std::panic::{AssertUnwindSafe, catch_unwind};

fn hexlist(v: &[String]) -> String {
  if v.is_empty() { "-".to_string() } else { v.iter().map(|s| hex(s.as_bytes())).collect::<Vec<_>>().join(",") }
}

fn unhexlist(s: &str) -> Vec<String> {
  if s == "-" { Vec::new() } else { s.split(',').map(|x| if x == "e" { String::new() } else { unhex_str(x) }).collect() }
}

fn fmt(width: usize, src: &str) -> String {
  let mut heap = Heap::new();
  let mut error_set = ErrorSet::new();
  let mr = heap.alloc_module_reference_from_string_vec(vec!["Test".to_string()]);
  let module = samlang_parser::parse_source_module_from_text(src, mr, &mut heap, &mut error_set);
  if error_set.has_errors() {
    let n = error_set.errors().len();
    let msg = error_set.pretty_print_error_messages_no_frame_for_test(&heap);
    let first = msg.lines().find(|l| !l.trim().is_empty()).unwrap_or("").to_string();
    return format!("err {n} {}", hex(first.as_bytes()));
  }
  let stored: usize = module
    .comment_store
    .all_comments()
    .iter()
    .map(|n| n.iter().count())
    .sum();
  let out = samlang_printer::pretty_print_source_module(&heap, width, &module);
  format!("ok {} {stored}", hex(out.as_bytes()))
}

/// The real Document of a module (hook H4b) followed by the real layout of it at `width`.
fn fmtdoc(width: usize, src: &str) -> String {
  let mut heap = Heap::new();
  let mut error_set = ErrorSet::new();
  let mr = heap.alloc_module_reference_from_string_vec(vec!["Test".to_string()]);
  let module = samlang_parser::parse_source_module_from_text(src, mr, &mut heap, &mut error_set);
  if error_set.has_errors() {
    return format!("err {}", error_set.errors().len());
  }
  let doc = samlang_printer::verif_hooks::module_doc(&heap, &module);
  let out = samlang_printer::pretty_print_source_module(&heap, width, &module);
  format!("ok {} {doc}", hex(out.as_bytes()))
}

/// The parsed import lines (path; comments; members) and the real Document of the module
/// (hook H4b): `ok <path>;<kind=hex,..|->;<hexmember,..|->/... | <doc>`.
fn imports(src: &str) -> String {
  use samlang_ast::source::CommentKind;
  let mut heap = Heap::new();
  let mut error_set = ErrorSet::new();
  let mr = heap.alloc_module_reference_from_string_vec(vec!["Test".to_string()]);
  let module = samlang_parser::parse_source_module_from_text(src, mr, &mut heap, &mut error_set);
  if error_set.has_errors() {
    return format!("err {}", error_set.errors().len());
  }
  let mut parts = Vec::new();
  for import in &module.imports {
    let comments: Vec<String> = module
      .comment_store
      .get(import.associated_comments)
      .iter()
      .map(|c| {
        let k = match c.kind {
          CommentKind::LINE => "line",
          CommentKind::BLOCK => "block",
          CommentKind::DOC => "doc",
        };
        format!("{k}={}", hex(c.text.as_str(&heap).as_bytes()))
      })
      .collect();
    let members: Vec<String> = import
      .imported_members
      .iter()
      .map(|m| {
        let name = hex(m.name.as_str(&heap).as_bytes());
        let cs: Vec<String> = module
          .comment_store
          .get(m.associated_comments)
          .iter()
          .map(|c| {
            let k = match c.kind {
              CommentKind::LINE => "line",
              CommentKind::BLOCK => "block",
              CommentKind::DOC => "doc",
            };
            format!("{k}={}", hex(c.text.as_str(&heap).as_bytes()))
          })
          .collect();
        if cs.is_empty() { name } else { format!("{name}@{}", cs.join("&")) }
      })
      .collect();
    parts.push(format!(
      "{};{};{}",
      hex(import.imported_module.pretty_print(&heap).as_bytes()),
      if comments.is_empty() { "-".to_string() } else { comments.join(",") },
      if members.is_empty() { "-".to_string() } else { members.join(",") }
    ));
  }
  let doc = samlang_printer::verif_hooks::module_doc(&heap, &module);
  let shape = if module.toplevels.is_empty()
    && matches!(
      module.comment_store.get(module.trailing_comments),
      samlang_ast::source::CommentsNode::NoComment
    ) {
    "only"
  } else {
    "more"
  };
  format!("ok {shape} {} | {doc}", if parts.is_empty() { "-".to_string() } else { parts.join("/") })
}

fn csv(s: &str) -> Vec<String> {
  if s == "-" { Vec::new() } else { s.split(',').map(|x| x.to_string()).collect() }
}

/// Expression fragment: `A cs hexname` | `U cs hexop e` | `B cs hexop ocs l r` | `F cs obj ncs hexname` |
/// `K cs callee scs n args.. ecs`; `false` = outside the fragment.
fn dump_aexpr(
  heap: &Heap,
  store: &samlang_ast::source::CommentStore,
  e: &samlang_ast::source::expr::E<()>,
  out: &mut Vec<String>,
) -> bool {
  use samlang_ast::source::{CommentKind, Literal, expr::E};
  let cs = |r| {
    let v: Vec<String> = store
      .get(r)
      .iter()
      .map(|c| {
        let k = match c.kind {
          CommentKind::LINE => "line",
          CommentKind::BLOCK => "block",
          CommentKind::DOC => "doc",
        };
        format!("{k}={}", hex(c.text.as_str(heap).as_bytes()))
      })
      .collect();
    if v.is_empty() { "-".to_string() } else { v.join(",") }
  };
  match e {
    E::LocalId(c, id) => {
      out.push("A".into());
      out.push(cs(c.associated_comments));
      out.push(hex(id.name.as_str(heap).as_bytes()));
      true
    }
    E::Literal(c, Literal::Int(i)) => {
      out.push("A".into());
      out.push(cs(c.associated_comments));
      out.push(hex(i.to_string().as_bytes()));
      true
    }
    E::Unary(u) => {
      out.push("U".into());
      out.push(cs(u.common.associated_comments));
      out.push(hex(u.operator.kind_str().as_bytes()));
      dump_aexpr(heap, store, &u.argument, out)
    }
    E::FieldAccess(f) if f.explicit_type_arguments.is_none() => {
      out.push("F".into());
      out.push(cs(f.common.associated_comments));
      if !dump_aexpr(heap, store, &f.object, out) {
        return false;
      }
      out.push(cs(f.field_name.associated_comments));
      out.push(hex(f.field_name.name.as_str(heap).as_bytes()));
      true
    }
    E::Call(c) => {
      out.push("K".into());
      out.push(cs(c.common.associated_comments));
      if !dump_aexpr(heap, store, &c.callee, out) {
        return false;
      }
      out.push(cs(c.arguments.start_associated_comments));
      out.push(c.arguments.expressions.len().to_string());
      for a in &c.arguments.expressions {
        if !dump_aexpr(heap, store, a, out) {
          return false;
        }
      }
      out.push(cs(c.arguments.ending_associated_comments));
      true
    }
    E::Binary(b) => {
      out.push("B".into());
      out.push(cs(b.common.associated_comments));
      out.push(hex(b.operator.kind_str().as_bytes()));
      out.push(cs(b.operator_preceding_comments));
      dump_aexpr(heap, store, &b.e1, out) && dump_aexpr(heap, store, &b.e2, out)
    }
    _ => false,
  }
}

/// Real parse of an expression, its tree (arithmetic fragment), the real Document (hook H4c) and
/// the real layout: `ok <hexout> <tree> | <doc>`.
fn exprdoc(width: usize, src: &str) -> String {
  let mut heap = Heap::new();
  let mut error_set = ErrorSet::new();
  let (store, e) =
    samlang_parser::parse_source_expression_from_text(src, ModuleReference::DUMMY, &mut heap, &mut error_set);
  if error_set.has_errors() {
    return format!("err {}", error_set.errors().len());
  }
  let mut tree = Vec::new();
  if !dump_aexpr(&heap, &store, &e, &mut tree) {
    return "unsupported".to_string();
  }
  let doc = samlang_printer::verif_hooks::expression_doc(&heap, &store, &e);
  let out = samlang_printer::pretty_print_expression(&heap, width, &store, &e);
  format!("ok {} {} | {doc}", hex(out.as_bytes()), tree.join(" "))
}

fn main() {
  std::panic::set_hook(Box::new(|_| {}));
  for_each_line(|line| {
    let r = catch_unwind(AssertUnwindSafe(|| -> String {
      let (op, rest) = line.split_once(' ').unwrap_or((line, ""));
      match op {
        "layout" => {
          let (w, doc) = rest.split_once(' ').unwrap_or((rest, ""));
          let w: usize = w.parse().unwrap();
          match samlang_printer::verif_hooks::layout(w, doc) {
            Ok(s) => format!("s:{}", hex(s.as_bytes())),
            Err(e) => format!("bad-doc:{e}"),
          }
        }
        "expand" => match samlang_printer::verif_hooks::expand(rest) {
          Ok(s) => format!("d:{s}"),
          Err(e) => format!("bad-doc:{e}"),
        },
        "flatten" => match samlang_printer::verif_hooks::flatten(rest) {
          Ok(Some(s)) => format!("d:{s}"),
          Ok(None) => "none".to_string(),
          Err(e) => format!("bad-doc:{e}"),
        },
        "queue" => {
          let t: Vec<&str> = rest.split(' ').collect();
          let text = unhex_str(t[0]);
          let ops: Vec<bool> = t.get(1).unwrap_or(&"").chars().map(|c| c == 'c').collect();
          let (answers, pending) = samlang_parser::verif_hooks_queue::queue_trace(&text, &ops);
          let show = |v: &Vec<(&'static str, String)>| {
            v.iter().map(|(k, s)| format!("{k}={}", hex(s.as_bytes()))).collect::<Vec<_>>().join(",")
          };
          let mut parts: Vec<String> = answers
            .iter()
            .map(|a| match a {
              samlang_parser::verif_hooks_queue::QueueAnswer::Peeked(s) => {
                format!("p:{}", hex(s.as_bytes()))
              }
              samlang_parser::verif_hooks_queue::QueueAnswer::Consumed(v) => format!("c:{}", show(v)),
            })
            .collect();
          parts.push(format!("|{}", show(&pending)));
          parts.join(";")
        }
        "prepend" => {
          let t: Vec<&str> = rest.split(' ').collect();
          let target: usize = t[0].parse().unwrap();
          let extra = unhexlist(t[1]);
          let groups: Vec<Vec<String>> = t[2..].iter().map(|g| unhexlist(g)).collect();
          if target >= groups.len() {
            return "skip".to_string();
          }
          let (texts, n) = samlang_parser::verif_hooks_queue::prepend_trace(&groups, target, &extra);
          format!("r:{} n:{n}", hexlist(&texts))
        }
        "fmt" => {
          let (w, src) = rest.split_once(' ').unwrap();
          fmt(w.parse().unwrap(), &unhex_str(src))
        }
        "fmtdoc" => {
          let (w, src) = rest.split_once(' ').unwrap();
          fmtdoc(w.parse().unwrap(), &unhex_str(src))
        }
        "imports" => imports(&unhex_str(rest)),
        "list" => {
          let t: Vec<&str> = rest.split(' ').collect();
          let (elems, end, pending) = samlang_parser::verif_hooks_queue::list_trace(
            &unhex_str(t[0]),
            t.get(1) == Some(&"p"),
          );
          let show = |v: &Vec<String>| if v.is_empty() { "-".to_string() } else { v.join(",") };
          let es: Vec<String> = elems.iter().map(|(n, cs)| format!("{n}={}", show(cs))).collect();
          format!(
            "{}|{}|{}",
            if es.is_empty() { "-".to_string() } else { es.join(";") },
            show(&end),
            show(&pending)
          )
        }
        "attach" => {
          let t: Vec<&str> = rest.split(' ').collect();
          let extra = csv(t.get(1).unwrap_or(&"-"));
          let (a, b) = samlang_parser::verif_hooks_queue::attach_trace(&unhex_str(t[0]), &extra);
          format!("{a} | {b}")
        }
        "paren" => {
          let t: Vec<&str> = rest.split(' ').collect();
          let (a, b) = samlang_parser::verif_hooks_queue::paren_trace(
            &unhex_str(t[0]),
            &csv(t.get(1).unwrap_or(&"-")),
            &csv(t.get(2).unwrap_or(&"-")),
          );
          format!("{a} | {b}")
        }
        "exprdoc" => {
          let (w, src) = rest.split_once(' ').unwrap();
          exprdoc(w.parse().unwrap(), &unhex_str(src))
        }
        "tok" => {
          let src = unhex_str(rest);
          let mut heap = Heap::new();
          let mut error_set = ErrorSet::new();
          let toks = samlang_parser::verif_hooks::produce_tokens(
            &src,
            ModuleReference::DUMMY,
            &mut heap,
            &mut error_set,
          );
          let v: Vec<String> = toks
            .iter()
            .map(|(k, s, (a, b, c, d))| format!("{k}:{a}:{b}:{c}:{d}:{}", hex(s.as_bytes())))
            .collect();
          if v.is_empty() { "-".to_string() } else { v.join(",") }
        }
        _ => "bad-op".to_string(),
      }
    }));
    match r {
      Ok(s) => s,
      Err(e) => format!("panic {}", hex(panic_msg(&e).as_bytes())),
    }
  });
}
