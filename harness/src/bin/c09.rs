//! Harness binary for property C09 (line protocol; see /verif/vlib/BUILDER_GUIDE.md).
fn main() {
  eprintln!("c09: not implemented yet");
  std::process::exit(2);
}
