//! Harness binary for property C07 (line protocol; see /verif/vlib/BUILDER_GUIDE.md).
fn main() {
  eprintln!("c07: not implemented yet");
  std::process::exit(2);
}
