//! Protocol `patcheck` (C07): the real parser + type checker on a generated module.
//!
//! Input line:  `chk <hex of samlang source>`  (one module `Test`, no imports);
//!              `chkstd <hex>`: the same, checked together with the embedded standard library
//! Answer:      `ok`                                   no diagnostics at all
//!              `E <line>:<Kind>[:<hex payload>] ...`  every diagnostic, sorted (BTreeSet order of ErrorSet)
//!              `panic <hex message>`                  the checker/parser panicked
//! Every answer but `panic` ends with ` #A <entry>:<hex>…`: one item per call of `is_additional_pattern_useful`
//! (`useful`) / `incomplete_counterexample` (`counterexample`), hex = the abstract patterns of the existing rows
//! rendered by the hook `samlang_checker::verif_hooks_c07` and joined by `;`.
//! Kinds that matter to C07: `NonExhaustiveMatch` (payload = pretty-printed counterexample),
//! `UselessPattern` (payload `1` = irrefutable if-let pattern, `0` = covered), everything else is
//! reported by its Debug variant name only.
use samlang_errors::{ErrorDetail, ErrorSet};
use samlang_heap::Heap;
use samverif_harness::util::*;
use std::collections::HashMap;
use std::panic::{AssertUnwindSafe, catch_unwind};

fn kind_name(d: &ErrorDetail) -> String {
  let dbg = format!("{d:?}");
  dbg.split(|c: char| !c.is_ascii_alphanumeric()).next().unwrap_or("?").to_string()
}

fn check(source: &str, with_std: bool) -> String {
  let mut heap = Heap::new();
  let mut error_set = ErrorSet::new();
  let mod_ref = heap.alloc_module_reference_from_string_vec(vec!["Test".to_string()]);
  let module =
    samlang_parser::parse_source_module_from_text(source, mod_ref, &mut heap, &mut error_set);
  let mut sources = HashMap::from([(mod_ref, module)]);
  if with_std {
    // the standard library as the compiler embeds it (std/*.sam via include_str!): tuple patterns are
    // resolved against std.tuples
    for (std_ref, text) in samlang_parser::builtin_std_raw_sources(&mut heap) {
      let m = samlang_parser::parse_source_module_from_text(&text, std_ref, &mut heap, &mut error_set);
      sources.insert(std_ref, m);
    }
  }
  let _ = samlang_checker::verif_hooks_c07::take();
  let _ = samlang_checker::verif_hooks_c07::take_scopes();
  let (_, global_cx) = samlang_checker::type_check_sources(&sources, &mut error_set);
  if with_std {
    // hook records of the Test module only: re-check it alone against the same global signature
    let _ = samlang_checker::verif_hooks_c07::take();
    let _ = samlang_checker::verif_hooks_c07::take_scopes();
    let mut scratch = ErrorSet::new();
    let _ = samlang_checker::type_check_module(mod_ref, &sources[&mod_ref], &global_cx, &mut scratch);
  }
  // hook (cfg(samlang_verif)): the abstract pattern lists the checker handed to the analysis
  let mut abs = String::new();
  for (entry, nodes) in samlang_checker::verif_hooks_c07::take() {
    abs.push_str(&format!(" {entry}:{}", hex(nodes.join(";").as_bytes())));
  }
  // hook: the type-parameter scope of every typing context, `#S <class>:<hex of "T=Bound,U=-">`
  abs.push_str(" #S");
  for (class, tparams) in samlang_checker::verif_hooks_c07::take_scopes() {
    let r = tparams
      .iter()
      .map(|(n, b)| format!("{n}={}", b.as_deref().unwrap_or("-")))
      .collect::<Vec<_>>()
      .join(",");
    abs.push_str(&format!(" {class}:{}", hex(r.as_bytes())));
  }
  if !error_set.has_errors() {
    return format!("ok #A{abs}");
  }
  let mut out = vec!["E".to_string()];
  for e in error_set.errors() {
    // diagnostics inside the standard library are reported on line 0
    let line = if e.location.module_reference == mod_ref { e.location.start.0 + 1 } else { 0 };
    let item = match &e.detail {
      ErrorDetail::NonExhaustiveMatch { counter_example } => {
        format!("{line}:NonExhaustiveMatch:{}", hex(counter_example.pretty_print(&heap).as_bytes()))
      }
      ErrorDetail::UselessPattern { only_pattern } => {
        format!("{line}:UselessPattern:{}", if *only_pattern { 1 } else { 0 })
      }
      d => format!("{line}:{}", kind_name(d)),
    };
    out.push(item);
  }
  format!("{} #A{abs}", out.join(" "))
}

fn main() {
  std::panic::set_hook(Box::new(|_| {}));
  for_each_line(|line| {
    let t: Vec<&str> = line.split(' ').collect();
    match t[0] {
      "chk" | "chkstd" if t.len() >= 2 => {
        let src = unhex_str(t[1]);
        let with_std = t[0] == "chkstd";
        match catch_unwind(AssertUnwindSafe(|| check(&src, with_std))) {
          Ok(s) => s,
          Err(e) => format!("panic {}", hex(panic_msg(&e).as_bytes())),
        }
      }
      _ => "bad-op".to_string(),
    }
  });
}
