//! Harness binary for property C06 (line protocol; see /verif/vlib/BUILDER_GUIDE.md).
fn main() {
  eprintln!("c06: not implemented yet");
  std::process::exit(2);
}
