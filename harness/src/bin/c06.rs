//! Harness for property C06 (static errors are always rejected). Line protocols, all executed
//! in-process on the real crates:
//!   tok <hex text>                 real TokenProducer (hook H6): yielded tokens + literal errors
//!   lit <hex text>                 real expression parser: error count + literal skeleton
//!   asg <ty> <ty>                  type_system::assignability_check / type_meet / is_the_same_type
//!   slv <tps> <concrete> <generic> type_system::solve_type_constraints
//!   sup <json>                     real resolve_all_transitive_super_types on declared toplevels
//!   prog <json>                    parser + type_check_sources (errors per module) + compile_sources
use samlang_ast::source::{Literal, expr};
use samlang_ast::{Location, Reason};
use samlang_checker::type_::{
  FunctionType, ISourceType, NominalType, PrimitiveTypeKind, Type, TypeParameterSignature,
};
use samlang_checker::verif_hooks_c06 as hooks;
use samlang_errors::{ErrorDetail, ErrorSet};
use samlang_heap::{Heap, ModuleReference, PStr};
use samverif_harness::util::*;
use std::collections::HashMap;
use std::panic::{AssertUnwindSafe, catch_unwind};
use std::sync::Arc;

// ---------------------------------------------------------------- types <-> protocol strings

struct P<'a> {
  s: &'a [u8],
  i: usize,
}

impl<'a> P<'a> {
  fn num(&mut self) -> Option<u32> {
    let st = self.i;
    while self.i < self.s.len() && self.s[self.i].is_ascii_digit() {
      self.i += 1;
    }
    std::str::from_utf8(&self.s[st..self.i]).ok()?.parse().ok()
  }
  fn eat(&mut self, c: u8) -> Option<()> {
    if self.i < self.s.len() && self.s[self.i] == c {
      self.i += 1;
      Some(())
    } else {
      None
    }
  }
  fn list(&mut self, heap: &mut Heap) -> Option<Vec<Arc<Type>>> {
    self.eat(b'(')?;
    let mut v = Vec::new();
    while self.i < self.s.len() && self.s[self.i] != b')' {
      v.push(Arc::new(self.ty(heap)?));
    }
    self.eat(b')')?;
    Some(v)
  }
  fn ty(&mut self, heap: &mut Heap) -> Option<Type> {
    let c = *self.s.get(self.i)?;
    self.i += 1;
    let r = Reason::new(Location::dummy(), None);
    match c {
      b'a' => {
        let p = self.num()?;
        Some(Type::Any(r, p == 1))
      }
      b'u' => Some(Type::Primitive(r, PrimitiveTypeKind::Unit)),
      b'b' => Some(Type::Primitive(r, PrimitiveTypeKind::Bool)),
      b'i' => Some(Type::Primitive(r, PrimitiveTypeKind::Int)),
      b'g' => {
        let n = self.num()?;
        self.eat(b';')?;
        Some(Type::Generic(r, heap.alloc_string(format!("T{n}"))))
      }
      b'n' => {
        let s = self.num()?;
        self.eat(b',')?;
        let m = self.num()?;
        self.eat(b',')?;
        let id = self.num()?;
        let targs = self.list(heap)?;
        Some(Type::Nominal(NominalType {
          reason: r,
          is_class_statics: s == 1,
          module_reference: heap.alloc_module_reference_from_string_vec(vec![format!("M{m}")]),
          id: heap.alloc_string(format!("C{id}")),
          type_arguments: targs,
        }))
      }
      b'f' => {
        let args = self.list(heap)?;
        let ret = self.ty(heap)?;
        Some(Type::Fn(FunctionType { reason: r, argument_types: args, return_type: Arc::new(ret) }))
      }
      _ => None,
    }
  }
}

fn parse_ty(s: &str, heap: &mut Heap) -> Option<Type> {
  let mut p = P { s: s.as_bytes(), i: 0 };
  let t = p.ty(heap)?;
  if p.i == s.len() { Some(t) } else { None }
}

fn show_ty(t: &Type, heap: &Heap, out: &mut String) {
  match t {
    Type::Any(_, p) => out.push_str(if *p { "a1" } else { "a0" }),
    Type::Primitive(_, PrimitiveTypeKind::Unit) => out.push('u'),
    Type::Primitive(_, PrimitiveTypeKind::Bool) => out.push('b'),
    Type::Primitive(_, PrimitiveTypeKind::Int) => out.push('i'),
    Type::Generic(_, n) => {
      out.push('g');
      out.push_str(&n.as_str(heap)[1..]);
      out.push(';');
    }
    Type::Nominal(n) => {
      out.push('n');
      out.push(if n.is_class_statics { '1' } else { '0' });
      out.push(',');
      out.push_str(&n.module_reference.pretty_print(heap)[1..]);
      out.push(',');
      out.push_str(&n.id.as_str(heap)[1..]);
      out.push('(');
      for a in &n.type_arguments {
        show_ty(a, heap, out);
      }
      out.push(')');
    }
    Type::Fn(f) => {
      out.push_str("f(");
      for a in &f.argument_types {
        show_ty(a, heap, out);
      }
      out.push(')');
      show_ty(&f.return_type, heap, out);
    }
  }
}

fn ty_str(t: &Type, heap: &Heap) -> String {
  let mut s = String::new();
  show_ty(t, heap, &mut s);
  s
}

// ---------------------------------------------------------------- literal skeleton of an expression

fn skel(e: &expr::E<()>, out: &mut String) {
  match e {
    expr::E::Literal(_, Literal::Int(i)) => out.push_str(&format!("(lit {i})")),
    expr::E::Literal(_, _) => out.push_str("(lit ?)"),
    expr::E::Unary(u) => {
      out.push_str(match u.operator {
        expr::UnaryOperator::NEG => "(neg ",
        expr::UnaryOperator::NOT => "(not ",
      });
      skel(&u.argument, out);
      out.push(')');
    }
    expr::E::Binary(b) => {
      out.push_str(&format!("(bin {} ", b.operator.kind_str()));
      skel(&b.e1, out);
      out.push(' ');
      skel(&b.e2, out);
      out.push(')');
    }
    expr::E::Tuple(_, l) => {
      out.push_str("(tuple");
      for x in &l.expressions {
        out.push(' ');
        skel(x, out);
      }
      out.push(')');
    }
    expr::E::Call(c) => {
      out.push_str("(call ");
      skel(&c.callee, out);
      for x in &c.arguments.expressions {
        out.push(' ');
        skel(x, out);
      }
      out.push(')');
    }
    _ => out.push('?'),
  }
}

fn loc_str(l: &Location) -> String {
  format!("{}:{}-{}:{}", l.start.0, l.start.1, l.end.0, l.end.1)
}

fn detail_kind(d: &ErrorDetail) -> String {
  let s = format!("{d:?}");
  s.chars().take_while(|c| c.is_ascii_alphanumeric()).collect()
}

// ---------------------------------------------------------------- whole programs

fn run_prog(line: &str) -> String {
  let v: serde_json::Value = match serde_json::from_str(line) {
    Ok(v) => v,
    Err(e) => return format!("{{\"bad\":\"{e}\"}}"),
  };
  let with_std = v["std"].as_bool().unwrap_or(true);
  let entry = v["entry"].as_str().unwrap_or("Main").to_string();
  let mut srcs: Vec<(String, String)> = v["sources"]
    .as_object()
    .map(|o| o.iter().map(|(k, t)| (k.clone(), t.as_str().unwrap_or("").to_string())).collect())
    .unwrap_or_default();
  srcs.sort();
  // pass 1: parser + checker, error list with modules
  let srcs1 = srcs.clone();
  let check = catch_unwind(AssertUnwindSafe(move || {
    let heap = &mut Heap::new();
    let mut error_set = ErrorSet::new();
    let mut texts: HashMap<ModuleReference, String> = HashMap::new();
    if with_std {
      for (m, s) in samlang_parser::builtin_std_raw_sources(heap) {
        texts.insert(m, s);
      }
    }
    for (name, text) in &srcs1 {
      let parts: Vec<String> = name.split('.').map(|s| s.to_string()).collect();
      texts.insert(heap.alloc_module_reference_from_string_vec(parts), text.clone());
    }
    let mut parsed = HashMap::new();
    for (m, t) in &texts {
      parsed.insert(*m, samlang_parser::parse_source_module_from_text(t, *m, heap, &mut error_set));
    }
    let _ = samlang_checker::type_check_sources(&parsed, &mut error_set);
    let mut errs: Vec<serde_json::Value> = Vec::new();
    for e in error_set.errors() {
      errs.push(serde_json::json!({
        "module": e.location.module_reference.pretty_print(heap),
        "kind": detail_kind(&e.detail),
        "syntax": e.is_syntax_error(),
        "loc": loc_str(&e.location),
      }));
    }
    errs
  }));
  // pass 2: the real compile_sources
  let do_compile = v["compile"].as_bool().unwrap_or(true);
  let (compile, msg) = if !do_compile {
    ("skipped".to_string(), String::new())
  } else {
    match samverif_harness::exec::compile_program(&srcs, &entry, with_std) {
      samverif_harness::exec::CompileOutcome::Ok(c) => {
        ("ok".to_string(), format!("wasm={}B ts={}B", c.wasm.len(), c.ts.len()))
      }
      samverif_harness::exec::CompileOutcome::Errors(e) => {
        ("err".to_string(), e.lines().rev().find(|l| !l.trim().is_empty()).unwrap_or("").to_string())
      }
      samverif_harness::exec::CompileOutcome::Panic(m) => ("panic".to_string(), m),
    }
  };
  match check {
    Ok(errs) => serde_json::json!({"check": "done", "errors": errs, "compile": compile, "msg": msg})
      .to_string(),
    Err(e) => serde_json::json!({"check": "panic", "errors": [], "panic": panic_msg(&e),
      "compile": compile, "msg": msg})
    .to_string(),
  }
}

/// `sup {"source": text, "queries": ["C1", ...]}`: module `M1`; for every queried toplevel the real
/// `resolve_all_transitive_super_types` on its own nominal type (type parameters as generics).
fn run_sup(line: &str) -> String {
  let v: serde_json::Value = match serde_json::from_str(line) {
    Ok(v) => v,
    Err(e) => return format!("bad {e}"),
  };
  let text = v["source"].as_str().unwrap_or("").to_string();
  let queries: Vec<String> = v["queries"]
    .as_array()
    .map(|a| a.iter().filter_map(|x| x.as_str().map(|s| s.to_string())).collect())
    .unwrap_or_default();
  let r = catch_unwind(AssertUnwindSafe(move || {
    let heap = &mut Heap::new();
    let mut es = ErrorSet::new();
    let m = heap.alloc_module_reference_from_string_vec(vec!["M1".to_string()]);
    let parsed = samlang_parser::parse_source_module_from_text(&text, m, heap, &mut es);
    if es.has_errors() {
      return "syntax".to_string();
    }
    let mut sources = HashMap::new();
    sources.insert(m, parsed);
    let (_, global_cx) = samlang_checker::type_check_sources(&sources, &mut es);
    let mut out = Vec::new();
    for q in &queries {
      let id = heap.alloc_string(q.clone());
      let Some(sig) = global_cx.get(&m).and_then(|mc| mc.interfaces.get(&id)) else {
        out.push(format!("{q}:missing"));
        continue;
      };
      let r0 = Reason::new(Location::dummy(), None);
      let nominal = NominalType {
        reason: r0,
        is_class_statics: false,
        module_reference: m,
        id,
        type_arguments: sig
          .type_parameters
          .iter()
          .map(|tp| Arc::new(Type::Generic(r0, tp.name)))
          .collect(),
      };
      let (types, cyclic) = hooks::resolve_supers(&global_cx, &nominal);
      let ts: Vec<String> = types.iter().map(|t| ty_str(&Type::Nominal(t.clone()), heap)).collect();
      out.push(format!("{q}:c={}:{}", cyclic as u8, if ts.is_empty() { "-".to_string() } else { ts.join("|") }));
    }
    out.join(" ")
  }));
  r.unwrap_or_else(|e| format!("panic {}", hex(panic_msg(&e).as_bytes())))
}

fn main() {
  std::panic::set_hook(Box::new(|_| {}));
  for_each_line(|line| {
    let (op, rest) = line.split_once(' ').unwrap_or((line, ""));
    match op {
      "tok" => {
        let text = unhex_str(rest.trim());
        let r = catch_unwind(AssertUnwindSafe(|| {
          let heap = &mut Heap::new();
          let mut es = ErrorSet::new();
          let toks =
            samlang_parser::verif_hooks::produce_tokens(&text, ModuleReference::DUMMY, heap, &mut es);
          let ts: Vec<String> = toks
            .iter()
            .map(|(k, t, (l0, c0, l1, c1))| format!("{k}:{}@{l0}:{c0}-{l1}:{c1}", hex(t.as_bytes())))
            .collect();
          let mut errs: Vec<String> = es
            .errors()
            .iter()
            .map(|e| {
              let m = match &e.detail {
                ErrorDetail::InvalidSyntax(s) if s == "Not a 32-bit integer." => "int".to_string(),
                ErrorDetail::InvalidSyntax(s) => format!("syntax:{}", hex(s.as_bytes())),
                d => detail_kind(d),
              };
              format!("{m}@{}", loc_str(&e.location))
            })
            .collect();
          errs.sort();
          format!("T {} E {}", if ts.is_empty() { "-".into() } else { ts.join(",") },
            if errs.is_empty() { "-".into() } else { errs.join(",") })
        }));
        r.unwrap_or_else(|e| format!("panic {}", hex(panic_msg(&e).as_bytes())))
      }
      "lit" => {
        let text = unhex_str(rest.trim());
        let r = catch_unwind(AssertUnwindSafe(|| {
          let heap = &mut Heap::new();
          let mut es = ErrorSet::new();
          let (_, e) = samlang_parser::parse_source_expression_from_text(
            &text,
            ModuleReference::DUMMY,
            heap,
            &mut es,
          );
          let mut s = String::new();
          skel(&e, &mut s);
          let n_int = es
            .errors()
            .iter()
            .filter(|e| matches!(&e.detail, ErrorDetail::InvalidSyntax(s) if s == "Not a 32-bit integer."))
            .count();
          format!("errs={} interrs={} {}", es.errors().len(), n_int, s)
        }));
        r.unwrap_or_else(|e| format!("panic {}", hex(panic_msg(&e).as_bytes())))
      }
      "asg" => {
        let t: Vec<&str> = rest.split(' ').collect();
        let heap = &mut Heap::new();
        let (Some(a), Some(b)) = (
          t.first().and_then(|s| parse_ty(s, heap)),
          t.get(1).and_then(|s| parse_ty(s, heap)),
        ) else {
          return "bad-type".to_string();
        };
        let r = catch_unwind(AssertUnwindSafe(|| {
          let asg = hooks::assignable(&a, &b);
          let meet = hooks::type_meet(&a, &b);
          let same = a.is_the_same_type(&b);
          format!(
            "a={} m={} s={} p={}{}",
            asg as u8,
            meet.map(|t| ty_str(&t, heap)).unwrap_or("none".to_string()),
            same as u8,
            hooks::contains_placeholder(&a) as u8,
            hooks::contains_placeholder(&b) as u8
          )
        }));
        r.unwrap_or_else(|e| format!("panic {}", hex(panic_msg(&e).as_bytes())))
      }
      "slv" => {
        let t: Vec<&str> = rest.split(' ').collect();
        if t.len() != 3 {
          return "bad-op".to_string();
        }
        let heap = &mut Heap::new();
        let tps: Vec<TypeParameterSignature> = t[0]
          .split(',')
          .filter(|s| !s.is_empty() && *s != "-")
          .map(|n| TypeParameterSignature { name: heap.alloc_string(format!("T{n}")), bound: None })
          .collect();
        let (Some(c), Some(g)) = (parse_ty(t[1], heap), parse_ty(t[2], heap)) else {
          return "bad-type".to_string();
        };
        let r = catch_unwind(AssertUnwindSafe(|| {
          let (subst, solved, err) = hooks::solve_type_constraints(&c, &g, &tps);
          let mut kv: Vec<(u32, String)> = subst
            .iter()
            .map(|(k, v): (&PStr, &Arc<Type>)| {
              (k.as_str(heap)[1..].parse::<u32>().unwrap_or(0), ty_str(v, heap))
            })
            .collect();
          kv.sort();
          let s: Vec<String> = kv.into_iter().map(|(k, v)| format!("{k}:{v}")).collect();
          format!(
            "s={} g={} e={}",
            if s.is_empty() { "-".to_string() } else { s.join(",") },
            ty_str(&solved, heap),
            err as u8
          )
        }));
        r.unwrap_or_else(|e| format!("panic {}", hex(panic_msg(&e).as_bytes())))
      }
      "sup" => run_sup(rest),
      "prog" => run_prog(rest),
      other => format!("bad-op {other}"),
    }
  });
}
