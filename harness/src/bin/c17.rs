//! Protocol `heapops` (C17): public API of samlang_heap::Heap.
use samverif_harness::util::*;
use samlang_heap::{Heap, ModuleReference, PStr};
use std::panic::{AssertUnwindSafe, catch_unwind};

fn show(heap: &Heap, p: PStr) -> String {
  // Debug of PStr is `PStr("...")` for inline and `PStr(id=N)` for table strings.
  let d = format!("{p:?}");
  if let Some(rest) = d.strip_prefix("PStr(id=") {
    format!("r:{}", rest.trim_end_matches(')'))
  } else {
    format!("i:{}", hex(p.as_str(heap).as_bytes()))
  }
}

fn main() {
  std::panic::set_hook(Box::new(|_| {}));
  let mut heap = Heap::new();
  let mut handles: std::collections::HashMap<String, PStr> = std::collections::HashMap::new();
  let mut counter: Option<samlang_heap::TempPStrCounter> = None;
  let mut mods: Vec<ModuleReference> =
    vec![ModuleReference::ROOT, ModuleReference::DUMMY, ModuleReference::STD_TUPLES];
  let mod_index = |mods: &mut Vec<ModuleReference>, m: ModuleReference| -> usize {
    if let Some(i) = mods.iter().position(|x| *x == m) {
      i
    } else {
      mods.push(m);
      mods.len() - 1
    }
  };
  for_each_line(|line| {
    let t: Vec<&str> = line.split(' ').collect();
    match t[0] {
      "reset" => {
        heap = Heap::new();
        handles.clear();
        counter = None;
        mods = vec![ModuleReference::ROOT, ModuleReference::DUMMY, ModuleReference::STD_TUPLES];
        "ok".to_string()
      }
      "as" => {
        let p = heap.alloc_string(unhex_str(t[2]));
        handles.insert(t[1].to_string(), p);
        show(&heap, p)
      }
      "st" => {
        let s: &'static str = Box::leak(unhex_str(t[2]).into_boxed_str());
        let p = match catch_unwind(AssertUnwindSafe(|| heap.alloc_str_for_test(s))) {
          Ok(p) => p,
          Err(_) => return "panic".to_string(),
        };
        handles.insert(t[1].to_string(), p);
        show(&heap, p)
      }
      "at" => {
        let p = heap.alloc_temp_str();
        handles.insert(t[1].to_string(), p);
        show(&heap, p)
      }
      "tc" => {
        // create_temp_counter: hands out `_t<id>` for ids from the current table length
        counter = Some(heap.create_temp_counter());
        "ok".to_string()
      }
      "tca" => match &counter {
        Some(c) => {
          let p = c.alloc_temp_str();
          handles.insert(t[1].to_string(), p);
          show(&heap, p)
        }
        None => "skip".to_string(),
      },
      "tcs" => match counter.take() {
        Some(c) => {
          heap.sync_temp_counter(&c);
          "ok".to_string()
        }
        None => "skip".to_string(),
      },
      "am" => {
        if t[1..].iter().any(|s| !handles.contains_key(*s)) {
          return "skip".to_string();
        }
        let parts: Vec<PStr> = t[1..].iter().map(|s| handles[*s]).collect();
        match catch_unwind(AssertUnwindSafe(|| heap.alloc_module_reference(parts))) {
          Ok(m) => format!("m:{}", mod_index(&mut mods, m)),
          Err(_) => "panic".to_string(),
        }
      }
      "ams" => {
        let parts: Vec<String> = t[1..].iter().map(|s| unhex_str(s)).collect();
        match catch_unwind(AssertUnwindSafe(|| heap.alloc_module_reference_from_string_vec(parts))) {
          Ok(m) => format!("m:{}", mod_index(&mut mods, m)),
          Err(_) => "panic".to_string(),
        }
      }
      "gm" => {
        let parts: Vec<String> = t[1..].iter().map(|s| unhex_str(s)).collect();
        match heap.get_allocated_module_reference_opt(parts) {
          Some(m) => format!("m:{}", mod_index(&mut mods, m)),
          None => "none".to_string(),
        }
      }
      "au" => {
        let i: usize = t[1].parse().unwrap();
        if i < mods.len() {
          heap.add_unmarked_module_reference(mods[i]);
          "ok".to_string()
        } else {
          "skip".to_string()
        }
      }
      "pop" => match heap.pop_unmarked_module_reference() {
        Some(m) => format!("p:{}", mod_index(&mut mods, m)),
        None => "p:none".to_string(),
      },
      "mk" => {
        let Some(&p) = handles.get(t[1]) else { return "skip".to_string() };
        match catch_unwind(AssertUnwindSafe(|| heap.mark(p))) {
          Ok(()) => "ok".to_string(),
          Err(_) => "panic".to_string(),
        }
      }
      "sw" => {
        let n: usize = t[1].parse().unwrap();
        match catch_unwind(AssertUnwindSafe(|| heap.sweep(n))) {
          Ok(()) => "ok".to_string(),
          Err(_) => "panic".to_string(),
        }
      }
      "rd" => {
        let Some(&p) = handles.get(t[1]) else { return "skip".to_string() };
        match catch_unwind(AssertUnwindSafe(|| p.as_str(&heap).to_string())) {
          Ok(s) => format!("s:{}", hex(s.as_bytes())),
          Err(_) => "panic".to_string(),
        }
      }
      "mp" => {
        // pretty-print a module reference (reads every part)
        let i: usize = t[1].parse().unwrap();
        if i >= mods.len() {
          return "skip".to_string();
        }
        let m = mods[i];
        match catch_unwind(AssertUnwindSafe(|| {
          (m.pretty_print(&heap), m.to_filename(&heap), m.encoded(&heap), m.is_std(&heap))
        })) {
          Ok((s, f, e, std)) => format!(
            "s:{} f:{} e:{} std:{}",
            hex(s.as_bytes()),
            hex(f.as_bytes()),
            hex(e.as_bytes()),
            std as u8
          ),
          Err(_) => "panic".to_string(),
        }
      }
      "stat" => {
        let s = heap.stat();
        let nums: Vec<&str> =
          s.split(|c: char| !c.is_ascii_digit()).filter(|x| !x.is_empty()).collect();
        nums.join(" ")
      }
      "du" => {
        let s = heap.debug_unmarked_strings();
        if s.is_empty() {
          "-".to_string()
        } else {
          s.split('\n').map(|x| hex(x.as_bytes())).collect::<Vec<_>>().join(",")
        }
      }
      "cmp" => {
        let (Some(&a), Some(&b)) = (handles.get(t[1]), handles.get(t[2])) else {
          return "skip".to_string();
        };
        use std::hash::{Hash, Hasher};
        let hash = |p: PStr| {
          let mut h = std::collections::hash_map::DefaultHasher::new();
          p.hash(&mut h);
          h.finish()
        };
        let eq = a == b;
        let heq = hash(a) == hash(b);
        let ord = match a.cmp(&b) {
          std::cmp::Ordering::Less => -1,
          std::cmp::Ordering::Equal => 0,
          std::cmp::Ordering::Greater => 1,
        };
        // hash equality must follow handle equality; report a flag only when inconsistent
        let hflag = if eq && !heq { " HASH-MISMATCH" } else { "" };
        format!("eq:{} ord:{}{}", eq as u8, ord, hflag)
      }
      "consts" => {
        // every `pub const X: PStr` of samlang-heap (table generated from the source by
        // extract/c17_consts.py): reads back its literal, equals the handle `alloc_string`
        // returns for the same text, hashes and orders like it
        use std::hash::{Hash, Hasher};
        let hash = |p: PStr| {
          let mut h = std::collections::hash_map::DefaultHasher::new();
          p.hash(&mut h);
          h.finish()
        };
        let mut bad = Vec::new();
        for (name, p, text) in samverif_harness::gen_pstr_consts::TABLE {
          let ok = catch_unwind(AssertUnwindSafe(|| {
            let q = heap.alloc_string(text.to_string());
            p.as_str(&heap) == *text
              && *p == q
              && hash(*p) == hash(q)
              && p.cmp(&q) == std::cmp::Ordering::Equal
          }))
          .unwrap_or(false);
          if !ok {
            bad.push(*name);
          }
        }
        format!("consts n={} bad={}", samverif_harness::gen_pstr_consts::TABLE.len(), bad.join(","))
      }
      other => format!("bad-op {other}"),
    }
  });
}
