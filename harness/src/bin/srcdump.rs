//! SRC (reference semantics): dump of the *checked* source AST for `lean/SamVerif/Model/Source.lean`.
//!
//! stdin : one JSON object per line {"sources": {"Mod.Name": "text", ...}, "entry": "Mod.Name", "std": true}
//!         (the same program format as harness/src/bin/exec.rs)
//! stdout: one JSON object per line {"check": "ok", "dump": "<S-expressions on one line>"}
//!         | {"check": "errors", "msg": ...} | {"check": "panic", "msg": ...}
//!
//! The modules are parsed and type checked by the real front end exactly as
//! `samlang_compiler::compile_sources` does (crates/samlang-compiler/src/lib.rs:37-75: parse in
//! module-name order, `samlang_checker::type_check_sources`, stop on errors). Nothing after the
//! checker runs: the dump is the input of `hir_lowering`, not its output.
//!
//! Dump grammar (atoms never contain blanks or parentheses; strings are `x` + hex of UTF-8):
//!   program  ::= (entry MOD) toplevel*
//!   toplevel ::= (class FQN typedef member*) | (iface FQN (NAME m|f NPARAMS)*)
//!   typedef  ::= (struct FIELD*) | (enum (VARIANT ARITY)*) | (none)
//!   member   ::= (fn NAME (PARAM*) expr) | (md NAME (PARAM*) expr)
//!   expr     ::= (int N) | (bool 0|1) | (str xHEX) | (var NAME) | (cid FQN) | (tup FQN expr*)
//!              | (fld IDX NAME expr) | (mth RECV NAME expr) | (un not|neg expr) | (call expr expr*)
//!              | (bin OP expr expr) | (if expr expr expr) | (iflet pat expr expr expr)
//!              | (match expr (pat expr)*) | (lam (PARAM*) expr) | (blk stmt* [(ret expr)])
//!   stmt     ::= (let pat expr) | (do expr)
//!   pat      ::= (pw) | (pv NAME) | (pt pat*) | (po (IDX NAME pat)*) | (pc TAG NAME pat*) | (por pat*)
//!   RECV     ::= FQN of the receiver's static nominal type | ?T for a type parameter T
//!   FQN      ::= module.path.Class ; classes of the root module (Str, Process, Vec) have no prefix
//! What the compiler itself relies on (hir_lowering.rs): `field_order` for field access and object
//! patterns (l.257, l.718), `tag_order` for variant patterns (l.822), the static receiver type for
//! the callee name (`create_hir_function_name`, l.241-248), the tuple's nominal type for its
//! constructor (l.343). The same items are dumped; no other type information is.
use rayon::prelude::*;
use samlang_ast::source::{self, expr, pattern};
use samlang_checker::type_::Type;
use samlang_heap::{Heap, ModuleReference, PStr};
use samverif_harness::util::{hex, panic_msg};
use std::collections::HashMap;
use std::io::BufRead;
use std::sync::Arc;

type T = Arc<Type>;

struct D<'a> {
  heap: &'a Heap,
  out: String,
}

impl<'a> D<'a> {
  fn s(&self, p: PStr) -> String {
    p.as_str(self.heap).to_string()
  }

  fn fqn(&self, m: ModuleReference, id: PStr) -> String {
    let ms = m.pretty_print(self.heap);
    if ms.is_empty() { self.s(id) } else { format!("{}.{}", ms, self.s(id)) }
  }

  fn push(&mut self, s: &str) {
    self.out.push_str(s);
  }

  fn recv(&self, t: &Type) -> String {
    match t {
      Type::Nominal(n) => self.fqn(n.module_reference, n.id),
      Type::Generic(_, name) => format!("?{}", self.s(*name)),
      Type::Primitive(_, k) => format!("?!{}", k),
      Type::Fn(_) => "?!fn".to_string(),
      Type::Any(_, _) => "?!any".to_string(),
    }
  }

  fn pat(&mut self, p: &pattern::MatchingPattern<T>) {
    match p {
      pattern::MatchingPattern::Wildcard { .. } => self.push("(pw)"),
      pattern::MatchingPattern::Id(id, _) => {
        let n = self.s(id.name);
        self.push(&format!("(pv {n})"));
      }
      pattern::MatchingPattern::Tuple(tp) => {
        self.push("(pt");
        for e in &tp.elements {
          self.push(" ");
          self.pat(&e.pattern);
        }
        self.push(")");
      }
      pattern::MatchingPattern::Object { elements, .. } => {
        self.push("(po");
        for e in elements {
          let n = self.s(e.field_name.name);
          self.push(&format!(" ({} {} ", e.field_order, n));
          self.pat(&e.pattern);
          self.push(")");
        }
        self.push(")");
      }
      pattern::MatchingPattern::Variant(v) => {
        let n = self.s(v.tag.name);
        self.push(&format!("(pc {} {}", v.tag_order, n));
        if let Some(dv) = &v.data_variables {
          for e in &dv.elements {
            self.push(" ");
            self.pat(&e.pattern);
          }
        }
        self.push(")");
      }
      pattern::MatchingPattern::Or { patterns, .. } => {
        self.push("(por");
        for q in patterns {
          self.push(" ");
          self.pat(q);
        }
        self.push(")");
      }
    }
  }

  fn block(&mut self, b: &expr::Block<T>) {
    self.push("(blk");
    for s in &b.statements {
      match s {
        expr::Statement::Declaration(d) => {
          self.push(" (let ");
          self.pat(&d.pattern);
          self.push(" ");
          self.expr(&d.assigned_expression);
          self.push(")");
        }
        expr::Statement::Expression(e) => {
          self.push(" (do ");
          self.expr(e);
          self.push(")");
        }
      }
    }
    if let Some(e) = &b.expression {
      self.push(" (ret ");
      self.expr(e);
      self.push(")");
    }
    self.push(")");
  }

  fn if_else(&mut self, e: &expr::IfElse<T>) {
    match e.condition.as_ref() {
      expr::IfElseCondition::Expression(c) => {
        self.push("(if ");
        self.expr(c);
      }
      expr::IfElseCondition::Guard(p, c) => {
        self.push("(iflet ");
        self.pat(p);
        self.push(" ");
        self.expr(c);
      }
    }
    self.push(" ");
    self.block(&e.e1);
    self.push(" ");
    match e.e2.as_ref() {
      expr::IfElseOrBlock::IfElse(e2) => self.if_else(e2),
      expr::IfElseOrBlock::Block(b) => self.block(b),
    }
    self.push(")");
  }

  fn expr(&mut self, e: &expr::E<T>) {
    match e {
      expr::E::Literal(_, source::Literal::Int(i)) => self.push(&format!("(int {i})")),
      expr::E::Literal(_, source::Literal::Bool(b)) => {
        self.push(if *b { "(bool 1)" } else { "(bool 0)" })
      }
      expr::E::Literal(_, source::Literal::String(s)) => {
        let h = hex(self.s(*s).as_bytes());
        self.push(&format!("(str x{})", if h == "-" { String::new() } else { h }));
      }
      expr::E::LocalId(_, id) => {
        let n = self.s(id.name);
        self.push(&format!("(var {n})"));
      }
      expr::E::ClassId(_, m, id) => {
        let n = self.fqn(*m, id.name);
        self.push(&format!("(cid {n})"));
      }
      expr::E::Tuple(common, es) => {
        let n = self.recv(&common.type_);
        self.push(&format!("(tup {n}"));
        for x in &es.expressions {
          self.push(" ");
          self.expr(x);
        }
        self.push(")");
      }
      expr::E::FieldAccess(f) => {
        let n = self.s(f.field_name.name);
        self.push(&format!("(fld {} {} ", f.field_order, n));
        self.expr(&f.object);
        self.push(")");
      }
      expr::E::MethodAccess(m) => {
        let r = self.recv(m.object.type_());
        let n = self.s(m.method_name.name);
        self.push(&format!("(mth {r} {n} "));
        self.expr(&m.object);
        self.push(")");
      }
      expr::E::Unary(u) => {
        self.push(match u.operator {
          expr::UnaryOperator::NOT => "(un not ",
          expr::UnaryOperator::NEG => "(un neg ",
        });
        self.expr(&u.argument);
        self.push(")");
      }
      expr::E::Call(c) => {
        self.push("(call ");
        self.expr(&c.callee);
        for a in &c.arguments.expressions {
          self.push(" ");
          self.expr(a);
        }
        self.push(")");
      }
      expr::E::Binary(b) => {
        let op = match b.operator {
          expr::BinaryOperator::MUL => "mul",
          expr::BinaryOperator::DIV => "div",
          expr::BinaryOperator::MOD => "mod",
          expr::BinaryOperator::PLUS => "add",
          expr::BinaryOperator::MINUS => "sub",
          expr::BinaryOperator::LT => "lt",
          expr::BinaryOperator::LE => "le",
          expr::BinaryOperator::GT => "gt",
          expr::BinaryOperator::GE => "ge",
          expr::BinaryOperator::EQ => "eq",
          expr::BinaryOperator::NE => "ne",
          expr::BinaryOperator::AND => "and",
          expr::BinaryOperator::OR => "or",
          expr::BinaryOperator::CONCAT => "concat",
        };
        self.push(&format!("(bin {op} "));
        self.expr(&b.e1);
        self.push(" ");
        self.expr(&b.e2);
        self.push(")");
      }
      expr::E::IfElse(i) => self.if_else(i),
      expr::E::Match(m) => {
        self.push("(match ");
        self.expr(&m.matched);
        for c in &m.cases {
          self.push(" (");
          self.pat(&c.pattern);
          self.push(" ");
          self.expr(&c.body);
          self.push(")");
        }
        self.push(")");
      }
      expr::E::Lambda(l) => {
        self.push("(lam (");
        for (i, p) in l.parameters.parameters.iter().enumerate() {
          if i > 0 {
            self.push(" ");
          }
          let n = self.s(p.name.name);
          self.push(&n);
        }
        self.push(") ");
        self.expr(&l.body);
        self.push(")");
      }
      expr::E::Block(b) => self.block(b),
    }
  }

  fn toplevel(&mut self, m: ModuleReference, t: &source::Toplevel<T>) {
    match t {
      source::Toplevel::Interface(i) => {
        let n = self.fqn(m, i.name.name);
        self.push(&format!(" (iface {n}"));
        for d in &i.members.members {
          let dn = self.s(d.name.name);
          self.push(&format!(
            " ({} {} {})",
            dn,
            if d.is_method { "m" } else { "f" },
            d.parameters.parameters.len()
          ));
        }
        self.push(")");
      }
      source::Toplevel::Class(c) => {
        let n = self.fqn(m, c.name.name);
        self.push(&format!(" (class {n} "));
        match &c.type_definition {
          None => self.push("(none)"),
          Some(source::TypeDefinition::Struct { fields, .. }) => {
            self.push("(struct");
            for f in fields {
              let fnm = self.s(f.name.name);
              self.push(&format!(" {fnm}"));
            }
            self.push(")");
          }
          Some(source::TypeDefinition::Enum { variants, .. }) => {
            self.push("(enum");
            for v in variants {
              let vn = self.s(v.name.name);
              let ar = v.associated_data_types.as_ref().map(|l| l.annotations.len()).unwrap_or(0);
              self.push(&format!(" ({vn} {ar})"));
            }
            self.push(")");
          }
        }
        for mem in &c.members.members {
          let mn = self.s(mem.decl.name.name);
          self.push(&format!(" ({} {} (", if mem.decl.is_method { "md" } else { "fn" }, mn));
          for (i, p) in mem.decl.parameters.parameters.iter().enumerate() {
            if i > 0 {
              self.push(" ");
            }
            let pn = self.s(p.name.name);
            self.push(&pn);
          }
          self.push(") ");
          self.expr(&mem.body);
          self.push(")");
        }
        self.push(")");
      }
    }
  }
}

enum Out {
  Ok(String),
  Errors(String),
}

fn dump_program(sources: &[(String, String)], entry: &str, with_std: bool) -> Out {
  let heap = &mut Heap::new();
  let mut handles: HashMap<ModuleReference, String> = HashMap::new();
  if with_std {
    for (m, s) in samlang_parser::builtin_std_raw_sources(heap) {
      handles.insert(m, s);
    }
  }
  let mut entry_found = false;
  for (name, text) in sources {
    let parts: Vec<String> = name.split('.').map(|s| s.to_string()).collect();
    let m = heap.alloc_module_reference_from_string_vec(parts);
    if name == entry {
      entry_found = true;
    }
    handles.insert(m, text.clone());
  }
  if !entry_found {
    return Out::Errors(format!("Invalid entry point: {entry} does not exist."));
  }
  // crates/samlang-compiler/src/lib.rs:45-75
  let mut error_set = samlang_errors::ErrorSet::new();
  let mut parsed = HashMap::new();
  let mut ordered: Vec<_> = handles.iter().collect();
  ordered.sort_by_cached_key(|(m, _)| m.pretty_print(heap));
  for (m, text) in ordered {
    let p = samlang_parser::parse_source_module_from_text(text, *m, heap, &mut error_set);
    parsed.insert(*m, p);
  }
  let checked = samlang_checker::type_check_sources(&parsed, &mut error_set).0;
  if error_set.has_errors() {
    return Out::Errors(error_set.pretty_print_error_messages(heap, &handles));
  }
  let mut mods: Vec<_> = checked.iter().collect();
  mods.sort_by_cached_key(|(m, _)| m.pretty_print(heap));
  let mut d = D { heap, out: String::new() };
  d.push(&format!("(entry {entry})"));
  for (m, module) in mods {
    for t in &module.toplevels {
      d.toplevel(*m, t);
    }
  }
  Out::Ok(d.out)
}

fn main() {
  std::panic::set_hook(Box::new(|_| {}));
  let lines: Vec<String> =
    std::io::stdin().lock().lines().map(|l| l.unwrap()).filter(|l| !l.trim().is_empty()).collect();
  let answers: Vec<String> = lines
    .par_iter()
    .map(|line| {
      let v: serde_json::Value = match serde_json::from_str(line) {
        Ok(v) => v,
        Err(e) => return serde_json::json!({"check": "bad-input", "msg": e.to_string()}).to_string(),
      };
      let sources: Vec<(String, String)> = v["sources"]
        .as_object()
        .map(|m| m.iter().map(|(k, t)| (k.clone(), t.as_str().unwrap_or("").to_string())).collect())
        .unwrap_or_default();
      let entry = v["entry"].as_str().unwrap_or("").to_string();
      let with_std = v["std"].as_bool().unwrap_or(true);
      let r = std::panic::catch_unwind(move || dump_program(&sources, &entry, with_std));
      match r {
        Ok(Out::Ok(d)) => serde_json::json!({"check": "ok", "dump": d}).to_string(),
        Ok(Out::Errors(e)) => serde_json::json!({"check": "errors", "msg": e}).to_string(),
        Err(e) => serde_json::json!({"check": "panic", "msg": panic_msg(&e)}).to_string(),
      }
    })
    .collect();
  for a in answers {
    println!("{a}");
  }
}
