//! Harness binary for property C02 (line protocol; see /verif/vlib/BUILDER_GUIDE.md).
fn main() {
  eprintln!("c02: not implemented yet");
  std::process::exit(2);
}
