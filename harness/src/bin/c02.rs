//! Harness binary for property C02 (optimisation passes preserve behaviour).
//!
//! Kernel protocols (answers compared line by line with lean/Driver/C02.lean):
//!   fold OP a b | tgt OP a b | merge OUTER INNER c1 c2 | trip G i0 step bound
//!   flex OP e1 e2 | order OP e1 e2 | unwrap OP e1 e2 | ccp OP o1 o2
//!   ivloop G i0 step bound m c fuel | ivorig G i0 step bound m c fuel
//! Oracle protocol (independent of the Lean model): a MIR interpreter with the target's 32-bit
//! semantics runs a program before and after one real pass / round driver / `optimize_sources`:
//!   prog PASS CFG | a,b;c,d;… | fn f0 2 … ret x end fn f1 …
//!   show PASS CFG | | <program>      (prints the MIR before and after, for replays)
use samlang_ast::hir::BinaryOperator as B;
use samlang_ast::mir::*;
use samlang_heap::{Heap, PStr};
use samlang_optimization::{OptimizationConfiguration, verif_hooks};
use samverif_harness::util::*;
use std::collections::HashMap;
use std::panic::{AssertUnwindSafe, catch_unwind};

fn op_of(s: &str) -> Option<B> {
  Some(match s {
    "mul" => B::MUL,
    "div" => B::DIV,
    "mod" => B::MOD,
    "add" => B::PLUS,
    "sub" => B::MINUS,
    "and" => B::LAND,
    "or" => B::LOR,
    "shl" => B::SHL,
    "shr" => B::SHR,
    "xor" => B::XOR,
    "lt" => B::LT,
    "le" => B::LE,
    "gt" => B::GT,
    "ge" => B::GE,
    "eq" => B::EQ,
    "ne" => B::NE,
    _ => return None,
  })
}

fn op_name(o: B) -> &'static str {
  match o {
    B::MUL => "mul",
    B::DIV => "div",
    B::MOD => "mod",
    B::PLUS => "add",
    B::MINUS => "sub",
    B::LAND => "and",
    B::LOR => "or",
    B::SHL => "shl",
    B::SHR => "shr",
    B::XOR => "xor",
    B::LT => "lt",
    B::LE => "le",
    B::GT => "gt",
    B::GE => "ge",
    B::EQ => "eq",
    B::NE => "ne",
  }
}

fn name(heap: &mut Heap, s: &str) -> PStr {
  heap.alloc_string(s.to_string())
}

fn var(heap: &mut Heap, s: &str) -> Expression {
  Expression::var_name(name(heap, s), INT_32_TYPE)
}

/// `i<n>` Int32Literal, `j<n>` Int31Literal, `s<k>` StringName, `v<k>` Variable.
fn expr_of(heap: &mut Heap, s: &str) -> Option<Expression> {
  let (k, rest) = s.split_at(1);
  Some(match k {
    "i" => Expression::Int32Literal(rest.parse().ok()?),
    "j" => Expression::Int31Literal(rest.parse().ok()?),
    "s" => Expression::StringName(name(heap, &format!("s{:02}", rest.parse::<u32>().ok()?))),
    "v" => var(heap, &format!("v{:02}", rest.parse::<u32>().ok()?)),
    _ => return None,
  })
}

fn show_expr(heap: &Heap, e: &Expression) -> String {
  match e {
    Expression::Int32Literal(n) => format!("i{n}"),
    Expression::Int31Literal(n) => format!("j{n}"),
    Expression::StringName(p) => p.as_str(heap).to_string(),
    Expression::Variable(v) => v.name.as_str(heap).to_string(),
  }
}

fn show_binary(heap: &Heap, b: &Binary) -> String {
  format!("{} {} {}", op_name(b.operator), show_expr(heap, &b.e1), show_expr(heap, &b.e2))
}

// ---------------------------------------------------------------------------------------------
// Program text -> MIR
// ---------------------------------------------------------------------------------------------

struct Parser<'a> {
  toks: Vec<&'a str>,
  pos: usize,
}

type PResult<T> = Result<T, String>;

impl<'a> Parser<'a> {
  fn next(&mut self) -> PResult<&'a str> {
    let t = self.toks.get(self.pos).copied().ok_or_else(|| "unexpected end".to_string())?;
    self.pos += 1;
    Ok(t)
  }
  fn peek(&self) -> Option<&'a str> {
    self.toks.get(self.pos).copied()
  }
  fn expect(&mut self, s: &str) -> PResult<()> {
    let t = self.next()?;
    if t == s { Ok(()) } else { Err(format!("expected {s} got {t}")) }
  }
  fn num(&mut self) -> PResult<usize> {
    self.next()?.parse::<usize>().map_err(|e| e.to_string())
  }
  fn expr(&mut self, heap: &mut Heap) -> PResult<Expression> {
    let t = self.next()?;
    let c = t.chars().next().unwrap();
    if c == '-' || c.is_ascii_digit() {
      Ok(Expression::Int32Literal(t.parse::<i32>().map_err(|e| e.to_string())?))
    } else {
      Ok(var(heap, t))
    }
  }
  fn block(&mut self, heap: &mut Heap) -> PResult<Vec<Statement>> {
    self.expect("{")?;
    let s = self.stmts(heap)?;
    self.expect("}")?;
    Ok(s)
  }
  fn stmts(&mut self, heap: &mut Heap) -> PResult<Vec<Statement>> {
    let mut out = Vec::new();
    loop {
      match self.peek() {
        None | Some("}") | Some("ret") => return Ok(out),
        _ => out.push(self.stmt(heap)?),
      }
    }
  }
  fn opt_name(&mut self, heap: &mut Heap) -> PResult<Option<PStr>> {
    let t = self.next()?;
    Ok(if t == "_" { None } else { Some(name(heap, t)) })
  }
  fn stmt(&mut self, heap: &mut Heap) -> PResult<Statement> {
    let k = self.next()?;
    Ok(match k {
      "bin" => {
        let n = self.next()?;
        let n = name(heap, n);
        let o = self.next()?;
        let operator = op_of(o).ok_or_else(|| format!("bad op {o}"))?;
        let e1 = self.expr(heap)?;
        let e2 = self.expr(heap)?;
        Statement::Binary(Binary { name: n, operator, e1, e2 })
      }
      "not" => {
        let n = self.next()?;
        Statement::Not { name: name(heap, n), operand: self.expr(heap)? }
      }
      "cast" => {
        let n = self.next()?;
        Statement::Cast { name: name(heap, n), type_: INT_32_TYPE, assigned_expression: self.expr(heap)? }
      }
      "call" => {
        let f = self.next()?;
        let n = self.num()?;
        let mut arguments = Vec::new();
        for _ in 0..n {
          arguments.push(self.expr(heap)?);
        }
        let return_collector = self.opt_name(heap)?;
        Statement::Call {
          callee: Callee::FunctionName(FunctionNameExpression {
            name: FunctionName { type_name: TypeNameId::EMPTY, fn_name: name(heap, f) },
            type_: Type::new_fn_unwrapped(vec![INT_32_TYPE; n], INT_32_TYPE),
          }),
          arguments,
          return_type: INT_32_TYPE,
          return_collector,
        }
      }
      "if" => {
        let condition = self.expr(heap)?;
        let s1 = self.block(heap)?;
        let s2 = self.block(heap)?;
        let n = self.num()?;
        let mut final_assignments = Vec::new();
        for _ in 0..n {
          let nm = self.next()?;
          let nm = name(heap, nm);
          let e1 = self.expr(heap)?;
          let e2 = self.expr(heap)?;
          final_assignments.push(IfElseFinalAssignment { name: nm, type_: INT_32_TYPE, e1, e2 });
        }
        Statement::IfElse { condition, s1, s2, final_assignments }
      }
      "sif" => {
        let condition = self.expr(heap)?;
        let invert_condition = self.num()? != 0;
        let statements = self.block(heap)?;
        Statement::SingleIf { condition, invert_condition, statements }
      }
      "brk" => Statement::Break(self.expr(heap)?),
      "struct" => {
        let n = self.next()?;
        let n = name(heap, n);
        let k = self.num()?;
        let mut expression_list = Vec::new();
        for _ in 0..k {
          expression_list.push(self.expr(heap)?);
        }
        Statement::StructInit { struct_variable_name: n, type_name: TypeNameId::STR, expression_list }
      }
      "idx" => {
        let n = self.next()?;
        let n = name(heap, n);
        let pointer_expression = self.expr(heap)?;
        let index = self.num()?;
        Statement::IndexedAccess { name: n, type_: INT_32_TYPE, pointer_expression, index }
      }
      "isp" => {
        let n = self.next()?;
        Statement::IsPointer { name: name(heap, n), pointer_type: TypeNameId::STR, operand: self.expr(heap)? }
      }
      "clo" => {
        let n = self.next()?;
        let n = name(heap, n);
        let f = self.next()?;
        let context = self.expr(heap)?;
        Statement::ClosureInit {
          closure_variable_name: n,
          closure_type_name: TypeNameId::STR,
          function_name: FunctionNameExpression {
            name: FunctionName { type_name: TypeNameId::EMPTY, fn_name: name(heap, f) },
            type_: Type::new_fn_unwrapped(vec![INT_32_TYPE; 2], INT_32_TYPE),
          },
          context,
        }
      }
      "icall" => {
        let v = self.next()?;
        let v = VariableName { name: name(heap, v), type_: INT_32_TYPE };
        let k = self.num()?;
        let mut arguments = Vec::new();
        for _ in 0..k {
          arguments.push(self.expr(heap)?);
        }
        let return_collector = self.opt_name(heap)?;
        Statement::Call { callee: Callee::Variable(v), arguments, return_type: INT_32_TYPE, return_collector }
      }
      "while" => {
        let n = self.num()?;
        let mut loop_variables = Vec::new();
        for _ in 0..n {
          let nm = self.next()?;
          let nm = name(heap, nm);
          let initial_value = self.expr(heap)?;
          let loop_value = self.expr(heap)?;
          loop_variables.push(GenenalLoopVariable { name: nm, type_: INT_32_TYPE, initial_value, loop_value });
        }
        let statements = self.block(heap)?;
        let break_collector = self.opt_name(heap)?.map(|n| VariableName { name: n, type_: INT_32_TYPE });
        Statement::While { loop_variables, statements, break_collector }
      }
      other => return Err(format!("bad statement {other}")),
    })
  }
  fn function(&mut self, heap: &mut Heap) -> PResult<Function> {
    self.expect("fn")?;
    let f = self.next()?;
    let n = self.num()?;
    let parameters = (0..n).map(|i| name(heap, &format!("p{i}"))).collect();
    let body = self.stmts(heap)?;
    self.expect("ret")?;
    let return_value = self.expr(heap)?;
    self.expect("end")?;
    Ok(Function {
      name: FunctionName { type_name: TypeNameId::EMPTY, fn_name: name(heap, f) },
      parameters,
      type_: Type::new_fn_unwrapped(vec![INT_32_TYPE; n], INT_32_TYPE),
      body,
      return_value,
    })
  }
}

fn parse_program(heap: &mut Heap, text: &str) -> PResult<Vec<Function>> {
  let mut p = Parser { toks: text.split_whitespace().collect(), pos: 0 };
  let mut fs = Vec::new();
  while p.peek().is_some() {
    fs.push(p.function(heap)?);
  }
  if fs.is_empty() { Err("no function".to_string()) } else { Ok(fs) }
}

// ---------------------------------------------------------------------------------------------
// MIR interpreter: the target's semantics (wasm i32 ops, traps), prints as the observable trace
// ---------------------------------------------------------------------------------------------

#[derive(Debug, Clone, PartialEq, Eq)]
enum Stop {
  Trap(String),
  Timeout,
  Bad(String),
}

enum Flow {
  Next,
  Break(i32),
}

struct Machine<'a> {
  heap: &'a Heap,
  functions: &'a [Function],
  lines: Vec<String>,
  steps: u64,
  limit: u64,
  /// heap objects (structs, closures `[function index, context]`); a pointer is `PTR_BASE + index`
  objs: Vec<Vec<i32>>,
  closure_fns: Vec<FunctionName>,
}

const PTR_BASE: i32 = 1_000_000_000;

fn target_binary(op: B, a: i32, b: i32) -> Result<i32, Stop> {
  Ok(match op {
    B::MUL => a.wrapping_mul(b),
    B::DIV => {
      if b == 0 {
        return Err(Stop::Trap(format!("div0:{a}")));
      }
      if a == i32::MIN && b == -1 {
        return Err(Stop::Trap("divovf".to_string()));
      }
      a / b
    }
    B::MOD => {
      if b == 0 {
        return Err(Stop::Trap(format!("rem0:{a}")));
      }
      a.wrapping_rem(b)
    }
    B::PLUS => a.wrapping_add(b),
    B::MINUS => a.wrapping_sub(b),
    B::LAND => a & b,
    B::LOR => a | b,
    B::SHL => a.wrapping_shl(b as u32),
    B::SHR => ((a as u32).wrapping_shr(b as u32)) as i32,
    B::XOR => a ^ b,
    B::LT => (a < b) as i32,
    B::LE => (a <= b) as i32,
    B::GT => (a > b) as i32,
    B::GE => (a >= b) as i32,
    B::EQ => (a == b) as i32,
    B::NE => (a != b) as i32,
  })
}

impl<'a> Machine<'a> {
  fn eval(&self, env: &HashMap<PStr, i32>, e: &Expression) -> Result<i32, Stop> {
    match e {
      Expression::Int32Literal(n) | Expression::Int31Literal(n) => Ok(*n),
      Expression::StringName(_) => Err(Stop::Bad("string name in int program".into())),
      Expression::Variable(v) => env
        .get(&v.name)
        .copied()
        .ok_or_else(|| Stop::Bad(format!("unbound variable {}", v.name.as_str(self.heap)))),
    }
  }

  fn deref(&self, p: i32) -> Result<&Vec<i32>, Stop> {
    if p < PTR_BASE {
      return Err(Stop::Bad("dereference of a non-pointer".into()));
    }
    self.objs.get((p - PTR_BASE) as usize).ok_or_else(|| Stop::Bad("dangling pointer".into()))
  }

  fn tick(&mut self) -> Result<(), Stop> {
    self.steps += 1;
    if self.steps > self.limit { Err(Stop::Timeout) } else { Ok(()) }
  }

  fn call(&mut self, f: &FunctionName, args: Vec<i32>, depth: usize) -> Result<i32, Stop> {
    let fname = f.fn_name.as_str(self.heap);
    if f.type_name == TypeNameId::STR && fname == "fromInt" {
      // strings are only ever produced by Str.fromInt and consumed by Process.println in the
      // generated sources: the string is represented by the integer it prints
      return Ok(args.last().copied().unwrap_or(0));
    }
    if f.type_name == TypeNameId::PROCESS && fname == "println" {
      self.lines.push(args.last().copied().unwrap_or(0).to_string());
      return Ok(0);
    }
    if fname == "print" {
      self.lines.push(args.iter().map(|a| a.to_string()).collect::<Vec<_>>().join(" "));
      return Ok(0);
    }
    if depth > 150 {
      return Err(Stop::Timeout);
    }
    let functions = self.functions;
    let func = functions
      .iter()
      .find(|g| g.name == *f)
      .ok_or_else(|| Stop::Bad(format!("unknown function {fname}")))?;
    if func.parameters.len() != args.len() {
      return Err(Stop::Bad(format!("arity mismatch calling {fname}")));
    }
    let mut env: HashMap<PStr, i32> = HashMap::new();
    for (p, a) in func.parameters.iter().zip(args) {
      env.insert(*p, a);
    }
    match self.stmts(&mut env, &func.body, depth)? {
      Flow::Next => {}
      Flow::Break(_) => return Err(Stop::Bad("break outside loop".into())),
    }
    self.eval(&env, &func.return_value)
  }

  fn stmts(&mut self, env: &mut HashMap<PStr, i32>, ss: &[Statement], depth: usize) -> Result<Flow, Stop> {
    for s in ss {
      if let Flow::Break(v) = self.stmt(env, s, depth)? {
        return Ok(Flow::Break(v));
      }
    }
    Ok(Flow::Next)
  }

  fn stmt(&mut self, env: &mut HashMap<PStr, i32>, s: &Statement, depth: usize) -> Result<Flow, Stop> {
    self.tick()?;
    match s {
      Statement::Binary(b) => {
        let a = self.eval(env, &b.e1)?;
        let c = self.eval(env, &b.e2)?;
        env.insert(b.name, target_binary(b.operator, a, c)?);
      }
      Statement::Not { name, operand } => {
        let a = self.eval(env, operand)?;
        env.insert(*name, a ^ 1);
      }
      Statement::Cast { name, type_: _, assigned_expression }
      | Statement::LateInitAssignment { name, assigned_expression } => {
        let a = self.eval(env, assigned_expression)?;
        env.insert(*name, a);
      }
      Statement::LateInitDeclaration { .. } => {}
      Statement::Call { callee, arguments, return_type: _, return_collector } => {
        let mut args = Vec::new();
        for a in arguments {
          args.push(self.eval(env, a)?);
        }
        let r = match callee {
          Callee::FunctionName(f) => self.call(&f.name, args, depth + 1)?,
          Callee::Variable(v) => {
            let c = self.eval(env, &Expression::Variable(*v))?;
            let obj = self.deref(c)?.clone();
            if obj.len() != 2 || obj[0] < 0 || obj[0] as usize >= self.closure_fns.len() {
              return Err(Stop::Bad("call of a non-closure".into()));
            }
            let f = self.closure_fns[obj[0] as usize];
            let mut full = vec![obj[1]];
            full.extend(args);
            self.call(&f, full, depth + 1)?
          }
        };
        if let Some(c) = return_collector {
          env.insert(*c, r);
        }
      }
      Statement::IfElse { condition, s1, s2, final_assignments } => {
        let c = self.eval(env, condition)? != 0;
        if let Flow::Break(v) = self.stmts(env, if c { s1 } else { s2 }, depth)? {
          return Ok(Flow::Break(v));
        }
        let mut vals = Vec::new();
        for fa in final_assignments {
          vals.push(self.eval(env, if c { &fa.e1 } else { &fa.e2 })?);
        }
        for (fa, v) in final_assignments.iter().zip(vals) {
          env.insert(fa.name, v);
        }
      }
      Statement::SingleIf { condition, invert_condition, statements } => {
        let c = (self.eval(env, condition)? != 0) ^ *invert_condition;
        if c {
          if let Flow::Break(v) = self.stmts(env, statements, depth)? {
            return Ok(Flow::Break(v));
          }
        }
      }
      Statement::Break(e) => return Ok(Flow::Break(self.eval(env, e)?)),
      Statement::While { loop_variables, statements, break_collector } => {
        let mut vals = Vec::new();
        for v in loop_variables {
          vals.push(self.eval(env, &v.initial_value)?);
        }
        loop {
          self.tick()?;
          for (v, x) in loop_variables.iter().zip(&vals) {
            env.insert(v.name, *x);
          }
          if let Flow::Break(v) = self.stmts(env, statements, depth)? {
            if let Some(bc) = break_collector {
              env.insert(bc.name, v);
            }
            break;
          }
          vals.clear();
          for v in loop_variables {
            vals.push(self.eval(env, &v.loop_value)?);
          }
        }
      }
      Statement::IsPointer { name, pointer_type: _, operand } => {
        let v = self.eval(env, operand)?;
        env.insert(*name, (v >= PTR_BASE) as i32);
      }
      Statement::IndexedAccess { name, type_: _, pointer_expression, index } => {
        let p = self.eval(env, pointer_expression)?;
        let obj = self.deref(p)?;
        let v = *obj.get(*index).ok_or_else(|| Stop::Bad("field index out of range".into()))?;
        env.insert(*name, v);
      }
      Statement::StructInit { struct_variable_name, type_name: _, expression_list } => {
        let mut fields = Vec::new();
        for e in expression_list {
          fields.push(self.eval(env, e)?);
        }
        self.objs.push(fields);
        env.insert(*struct_variable_name, PTR_BASE + (self.objs.len() as i32 - 1));
      }
      Statement::ClosureInit { closure_variable_name, closure_type_name: _, function_name, context } => {
        let c = self.eval(env, context)?;
        let idx = match self.closure_fns.iter().position(|f| *f == function_name.name) {
          Some(i) => i,
          None => {
            self.closure_fns.push(function_name.name);
            self.closure_fns.len() - 1
          }
        };
        self.objs.push(vec![idx as i32, c]);
        env.insert(*closure_variable_name, PTR_BASE + (self.objs.len() as i32 - 1));
      }
    }
    Ok(Flow::Next)
  }
}

#[derive(Debug, Clone, PartialEq, Eq)]
struct Outcome {
  lines: Vec<String>,
  end: Result<i32, Stop>,
  steps: u64,
}

impl Outcome {
  fn show(&self) -> String {
    let l = if self.lines.is_empty() { "-".to_string() } else { self.lines.join(",").replace(' ', "_") };
    let e = match &self.end {
      Ok(v) => format!("ret:{v}"),
      Err(Stop::Trap(k)) => format!("trap:{k}"),
      Err(Stop::Timeout) => "timeout".to_string(),
      Err(Stop::Bad(m)) => format!("bad:{}", m.replace(' ', "_")),
    };
    format!("{l}|{e}")
  }
}

fn run_main(heap: &Heap, functions: &[Function], args: &[i32], limit: u64) -> Outcome {
  run_entry(heap, functions, args, limit, "f0")
}

fn run_entry(heap: &Heap, functions: &[Function], args: &[i32], limit: u64, entry: &str) -> Outcome {
  let mut m = Machine { heap, functions, lines: Vec::new(), steps: 0, limit, objs: Vec::new(), closure_fns: Vec::new() };
  let main = functions.iter().find(|f| f.name.fn_name.as_str(heap) == entry);
  let end = match main {
    None => Err(Stop::Bad(format!("entry function {entry} disappeared"))),
    Some(f) => {
      let mut a = args.to_vec();
      a.resize(f.parameters.len(), 0);
      m.call(&f.name.clone(), a, 0)
    }
  };
  Outcome { lines: m.lines, end, steps: m.steps }
}

// ---------------------------------------------------------------------------------------------
// Running the real passes
// ---------------------------------------------------------------------------------------------

fn config(bits: u32) -> OptimizationConfiguration {
  OptimizationConfiguration {
    does_perform_local_value_numbering: bits & 1 != 0,
    does_perform_common_sub_expression_elimination: bits & 2 != 0,
    does_perform_loop_optimization: bits & 4 != 0,
    does_perform_inlining: bits & 8 != 0,
    does_perform_scalar_replacement: bits & 16 != 0,
  }
}

fn sources_of(functions: Vec<Function>) -> Sources {
  let main_function_names = functions.iter().take(1).map(|f| f.name).collect();
  Sources {
    symbol_table: SymbolTable::new(),
    global_variables: Vec::new(),
    closure_types: Vec::new(),
    type_definitions: Vec::new(),
    main_function_names,
    functions,
  }
}

/// Applies `pass` to a clone of the program. Err = the compiler panicked.
fn apply_pass(heap: &mut Heap, functions: &[Function], pass: &str, cfg: u32) -> Result<Vec<Function>, String> {
  let fs: Vec<Function> = functions.to_vec();
  let r = catch_unwind(AssertUnwindSafe(|| match pass {
    "all" => {
      let out = samlang_optimization::optimize_sources(heap, sources_of(fs), &config(cfg)).functions;
      if let Err(m) = temp_counter_invariant(heap, &out) {
        panic!("{m}");
      }
      out
    }
    "inline" | "unused" => {
      verif_hooks::run_pass_sources(pass, heap, sources_of(fs)).expect("known pass").functions
    }
    _ => {
      let mut fs = fs;
      let counter = heap.create_temp_counter();
      for f in fs.iter_mut() {
        assert!(verif_hooks::run_pass(pass, f, &counter, &config(cfg)), "unknown pass");
      }
      heap.sync_temp_counter(&counter);
      fs
    }
  }));
  r.map_err(|e| panic_msg(&e))
}

fn print_program(heap: &Heap, fs: &[Function]) -> String {
  let t = SymbolTable::new();
  fs.iter().map(|f| f.debug_print(heap, &t)).collect::<Vec<_>>().join("\n")
}

fn parse_args(s: &str) -> Vec<Vec<i32>> {
  s.split(';')
    .filter(|t| !t.trim().is_empty())
    .map(|t| t.split(',').filter(|x| !x.trim().is_empty()).map(|x| x.trim().parse::<i32>().unwrap_or(0)).collect())
    .collect()
}

const BEFORE_LIMIT: u64 = 60_000;

/// Compiles one samlang module through the real front end (parser, checker, HIR lowering,
/// generics specialisation, type dedup, constant-parameter elimination, tail-recursion rewrite).
fn compile_source(heap: &mut Heap, text: &str) -> Result<Sources, String> {
  let mut error_set = samlang_errors::ErrorSet::new();
  let mr = heap.alloc_module_reference_from_string_vec(vec!["Demo".to_string()]);
  let parsed = samlang_parser::parse_source_module_from_text(text, mr, heap, &mut error_set);
  let mut parsed_sources = HashMap::new();
  parsed_sources.insert(mr, parsed);
  let checked = samlang_checker::type_check_sources(&parsed_sources, &mut error_set).0;
  if error_set.has_errors() {
    let handles = HashMap::from([(mr, text.to_string())]);
    return Err(error_set.pretty_print_error_messages(heap, &handles).replace('\n', " / "));
  }
  Ok(samlang_compiler::compile_sources_to_mir(heap, &checked))
}

fn apply_pass_sources(heap: &mut Heap, src: &Sources, pass: &str, cfg: u32) -> Result<Vec<Function>, String> {
  let functions = src.functions.clone();
  let rebuilt = |fs: Vec<Function>| Sources {
    symbol_table: SymbolTable::new(),
    global_variables: src.global_variables.clone(),
    closure_types: src.closure_types.clone(),
    type_definitions: src.type_definitions.clone(),
    main_function_names: src.main_function_names.clone(),
    functions: fs,
  };
  let r = catch_unwind(AssertUnwindSafe(|| match pass {
    "all" => {
      let out = samlang_optimization::optimize_sources(heap, rebuilt(functions), &config(cfg)).functions;
      if let Err(m) = temp_counter_invariant(heap, &out) {
        panic!("{m}");
      }
      out
    }
    "inline" | "unused" => verif_hooks::run_pass_sources(pass, heap, rebuilt(functions)).expect("known pass").functions,
    _ => {
      let mut fs = functions;
      let counter = heap.create_temp_counter();
      for f in fs.iter_mut() {
        assert!(verif_hooks::run_pass(pass, f, &counter, &config(cfg)), "unknown pass");
      }
      heap.sync_temp_counter(&counter);
      fs
    }
  }));
  r.map_err(|e| panic_msg(&e))
}

/// The invariant `optimize_sources` owes to later phases: every temporary name `_tN…` it left in
/// the program is below the heap's next temporary id (otherwise `compile_mir_to_lir`, which draws
/// from the heap, re-issues names that are already in use).
fn temp_counter_invariant(heap: &Heap, functions: &[Function]) -> Result<(), String> {
  let next_name = heap.create_temp_counter().alloc_temp_str();
  let next: u64 = next_name.as_str(heap).trim_start_matches("_t").parse().unwrap_or(u64::MAX);
  let mut worst: Option<(u64, String, String)> = None;
  let mut note = |heap: &Heap, f: &Function, n: &PStr| {
    let s = n.as_str(heap);
    if let Some(rest) = s.strip_prefix("_t") {
      let digits: String = rest.chars().take_while(|c| c.is_ascii_digit()).collect();
      if let Ok(id) = digits.parse::<u64>() {
        if id >= next && worst.as_ref().map(|w| id > w.0).unwrap_or(true) {
          worst = Some((id, s.to_string(), f.name.fn_name.as_str(heap).to_string()));
        }
      }
    }
  };
  fn walk_defs(ss: &[Statement], out: &mut Vec<PStr>) {
    for s in ss {
      match s {
        Statement::Binary(b) => out.push(b.name),
        Statement::Not { name, .. }
        | Statement::IsPointer { name, .. }
        | Statement::IndexedAccess { name, .. }
        | Statement::Cast { name, .. }
        | Statement::LateInitDeclaration { name, .. } => out.push(*name),
        Statement::Call { return_collector, .. } => out.extend(return_collector.iter().copied()),
        Statement::IfElse { s1, s2, final_assignments, .. } => {
          walk_defs(s1, out);
          walk_defs(s2, out);
          out.extend(final_assignments.iter().map(|fa| fa.name));
        }
        Statement::SingleIf { statements, .. } => walk_defs(statements, out),
        Statement::While { loop_variables, statements, break_collector } => {
          out.extend(loop_variables.iter().map(|v| v.name));
          walk_defs(statements, out);
          out.extend(break_collector.iter().map(|v| v.name));
        }
        Statement::StructInit { struct_variable_name, .. } => out.push(*struct_variable_name),
        Statement::ClosureInit { closure_variable_name, .. } => out.push(*closure_variable_name),
        Statement::Break(_) | Statement::LateInitAssignment { .. } => {}
      }
    }
  }
  for f in functions {
    let mut defs = Vec::new();
    walk_defs(&f.body, &mut defs);
    for n in &defs {
      note(heap, f, n);
    }
  }
  match worst {
    None => Ok(()),
    Some((id, name, func)) => Err(format!(
      "temp-counter-stale next_heap_temp={next} but optimised function {func} defines {name} (id {id})"
    )),
  }
}

/// One build of a samlang module: `cfg = None` = no optimisation at all, `Some(bits)` = optimize_sources
/// with that configuration; lowering and emission exactly as `samlang_compiler::compile_sources`.
fn build_with(text: &str, cfg: Option<u32>, loader: &str) -> Result<samverif_harness::exec::Compiled, String> {
  let text = text.to_string();
  let loader = loader.to_string();
  let r = catch_unwind(AssertUnwindSafe(move || {
    let heap = &mut Heap::new();
    let mut error_set = samlang_errors::ErrorSet::new();
    let mr = heap.alloc_module_reference_from_string_vec(vec!["Demo".to_string()]);
    let parsed = samlang_parser::parse_source_module_from_text(&text, mr, heap, &mut error_set);
    let mut parsed_sources = HashMap::new();
    parsed_sources.insert(mr, parsed);
    let checked = samlang_checker::type_check_sources(&parsed_sources, &mut error_set).0;
    if error_set.has_errors() {
      return Err("rejected".to_string());
    }
    let mut mir = samlang_compiler::compile_sources_to_mir(heap, &checked);
    if let Some(bits) = cfg {
      mir = samlang_optimization::optimize_sources(heap, mir, &config(bits));
      temp_counter_invariant(heap, &mir.functions)?;
    }
    let mut lir = samlang_compiler::compile_mir_to_lir(heap, mir);
    let common_ts_code = lir.pretty_print(heap);
    let mut main_fn_name = String::new();
    FunctionName { type_name: lir.symbol_table.create_main_type_name(mr), fn_name: PStr::MAIN_FN }
      .write_encoded(&mut main_fn_name, heap, &lir.symbol_table);
    let ts = format!("{common_ts_code}\n{main_fn_name}();\n");
    let wasm_js = format!(
      "const binary = require('fs').readFileSync(require('path').join(__dirname, '__all__.wasm'));\nrequire('./__samlang_loader__.js')(binary).{main_fn_name}();\n"
    );
    let (wat, wasm) = samlang_compiler::compile_lir_to_wasm(heap, lir);
    Ok(samverif_harness::exec::Compiled { ts, wasm_js, loader, wat, wasm })
  }));
  match r {
    Ok(x) => x,
    Err(e) => Err(format!("compiler-panic {}", panic_msg(&e).replace('\n', " "))),
  }
}

/// `e2e CFGS TS | | <hex source>`: CFGS = comma list of `real` (the shipped compile_sources), or
/// configuration bits; every build is run under Node and compared with the un-optimised build.
fn e2e_line(rest: &str, n: usize) -> String {
  use samverif_harness::exec;
  let parts: Vec<&str> = rest.splitn(3, '|').collect();
  if parts.len() != 3 {
    return "bad-line".to_string();
  }
  let head: Vec<&str> = parts[0].split_whitespace().collect();
  if head.len() != 2 {
    return "bad-line".to_string();
  }
  let run_ts = head[1] == "1";
  let text = unhex_str(parts[2].trim());
  if exec::find_node().is_none() {
    return "no-node".to_string();
  }
  // the shipped pipeline (also the source of the loader text)
  let real = match exec::compile_program(&[("Demo".to_string(), text.clone())], "Demo", false) {
    exec::CompileOutcome::Ok(c) => c,
    exec::CompileOutcome::Errors(e) => return format!("bad-program {}", e.replace('\n', " / ")),
    exec::CompileOutcome::Panic(m) => return format!("panic {}", m.replace('\n', " ")),
  };
  let timeout = std::time::Duration::from_secs(20);
  let show = |r: &exec::RunResult| format!("{}|{}", r.lines.join(","), r.end.replace(' ', "_"));
  let base = match build_with(&text, None, &real.loader) {
    Ok(c) => exec::run_compiled(&c, &exec::scratch_dir("c02", n * 100), timeout, run_ts),
    Err(m) => return format!("baseline-failed {m}"),
  };
  if base.wasm.end == "timeout" {
    return "ok inconclusive-timeout".to_string();
  }
  let mut compared = 0;
  for (k, c) in head[0].split(',').enumerate() {
    let built = if c == "real" {
      Ok(exec::Compiled { ts: real.ts.clone(), wasm_js: real.wasm_js.clone(), loader: real.loader.clone(), wat: String::new(), wasm: real.wasm.clone() })
    } else {
      build_with(&text, Some(c.parse().unwrap_or(31)), &real.loader)
    };
    let built = match built {
      Ok(b) => b,
      Err(m) => return format!("invariant cfg={c} {}", m.replace(' ', "_")),
    };
    let runs = exec::run_compiled(&built, &exec::scratch_dir("c02", n * 100 + k + 1), timeout, run_ts);
    compared += 1;
    if runs.wasm != base.wasm {
      return format!("diff cfg={c} backend=wasm unoptimised={} optimised={}", show(&base.wasm), show(&runs.wasm));
    }
    if run_ts && runs.ts != base.ts {
      return format!("diff cfg={c} backend=ts unoptimised={} optimised={}", show(&base.ts), show(&runs.ts));
    }
  }
  format!("ok compared={compared} lines={} end={}", base.wasm.lines.len(), base.wasm.end.replace(' ', "_"))
}

/// `srcprog PASS CFG | a,b;… | <hex of samlang source>`: entry function is `run`.
fn srcprog_line(rest: &str, show: bool) -> String {
  let parts: Vec<&str> = rest.splitn(3, '|').collect();
  if parts.len() != 3 {
    return "bad-line".to_string();
  }
  let head: Vec<&str> = parts[0].split_whitespace().collect();
  if head.len() != 2 {
    return "bad-line".to_string();
  }
  let (pass, cfg) = (head[0], head[1].parse::<u32>().unwrap_or(31));
  let text = unhex_str(parts[2].trim());
  let mut heap = Heap::new();
  let src = match catch_unwind(AssertUnwindSafe(|| compile_source(&mut heap, &text))) {
    Ok(Ok(s)) => s,
    Ok(Err(e)) => return format!("bad-program {e}"),
    Err(e) => return format!("front-end-panic {}", panic_msg(&e)),
  };
  let before = src.functions.clone();
  let after = match apply_pass_sources(&mut heap, &src, pass, cfg) {
    Ok(f) => f,
    Err(m) => return format!("panic {}", m.replace('\n', " ")),
  };
  let t = &src.symbol_table;
  let pr = |fs: &[Function]| fs.iter().map(|f| f.debug_print(&heap, t)).collect::<Vec<_>>().join("\n");
  let (tb, ta) = (pr(&before), pr(&after));
  if show {
    return format!("BEFORE: {} AFTER: {}", tb.replace('\n', " ; "), ta.replace('\n', " ; "));
  }
  compare_runs(&heap, &before, &after, parts[1], "main", tb != ta)
}

fn compare_runs(heap: &Heap, before: &[Function], after: &[Function], args: &str, entry: &str, changed: bool) -> String {
  let mut args = parse_args(args);
  if args.is_empty() {
    args.push(Vec::new());
  }
  let (mut traps, mut timeouts, mut lines, mut compared) = (0, 0, 0, 0);
  for (i, a) in args.iter().enumerate() {
    let ob = run_entry(heap, before, a, BEFORE_LIMIT, entry);
    if ob.end == Err(Stop::Timeout) {
      timeouts += 1;
      continue;
    }
    let oa = run_entry(heap, after, a, ob.steps * 20 + 50_000, entry);
    compared += 1;
    if matches!(ob.end, Err(Stop::Trap(_))) {
      traps += 1;
    }
    lines += ob.lines.len();
    if ob.lines != oa.lines || ob.end != oa.end {
      let a_s = a.iter().map(|x| x.to_string()).collect::<Vec<_>>().join(",");
      return format!("diff arg={i} args={a_s} before={} after={}", ob.show(), oa.show());
    }
  }
  format!("ok compared={compared} traps={traps} timeouts={timeouts} lines={lines} changed={}", changed as u8)
}

fn prog_line(rest: &str, show: bool) -> String {
  let parts: Vec<&str> = rest.splitn(3, '|').collect();
  if parts.len() != 3 {
    return "bad-line".to_string();
  }
  let head: Vec<&str> = parts[0].split_whitespace().collect();
  if head.len() != 2 {
    return "bad-line".to_string();
  }
  let (pass, cfg) = (head[0], head[1].parse::<u32>().unwrap_or(31));
  let mut heap = Heap::new();
  let before = match parse_program(&mut heap, parts[2]) {
    Ok(f) => f,
    Err(e) => return format!("bad-program {e}"),
  };
  let after = match apply_pass(&mut heap, &before, pass, cfg) {
    Ok(f) => f,
    Err(m) => return format!("panic {}", m.replace('\n', " ")),
  };
  let (tb, ta) = (print_program(&heap, &before), print_program(&heap, &after));
  if show {
    return format!("BEFORE: {} AFTER: {}", tb.replace('\n', " ; "), ta.replace('\n', " ; "));
  }
  compare_runs(&heap, &before, &after, parts[1], "f0", tb != ta)
}

// ---------------------------------------------------------------------------------------------
// The observed counting loop (tie of the Lean loop kernel with loop_optimizations.rs)
// ---------------------------------------------------------------------------------------------

fn obs_loop_text(g: &str, i0: i32, step: i32, bound: i32, m: i32, c: i32) -> String {
  // the loop continues while `i G bound`; the guard statement tests the inverse and breaks
  let inv = match g {
    "lt" => "ge",
    "le" => "gt",
    "gt" => "le",
    _ => "lt",
  };
  let derived = if c == 0 {
    format!("bin j mul i {m}")
  } else if m == 1 {
    format!("bin j add i {c}")
  } else {
    format!("bin t mul i {m} bin j add t {c}")
  };
  format!(
    "fn f0 0 while 2 i {i0} ni last 0 j {{ bin cc {inv} i {bound} sif cc 0 {{ brk last }} call print 1 last _ {derived} bin ni add i {step} }} r ret r end"
  )
}

/// `srloop|srorig G BOUND GI K (i0 st)*K ND (base m c)*ND FUEL`: a loop with K basic induction
/// variables, guard on variable GI (printed, so it is never eliminated), ND derived variables, each
/// printed. Output: all printed numbers in order.
fn sr_line(t: &[&str], optimised: bool) -> String {
  let nums: Vec<i64> = t[2..].iter().map(|x| x.parse::<i64>().unwrap_or(0)).collect();
  if nums.len() < 3 {
    return "bad-line".to_string();
  }
  let (bound, gi, k) = (nums[0], nums[1] as usize, nums[2] as usize);
  if nums.len() < 3 + 2 * k + 1 {
    return "bad-line".to_string();
  }
  let nd = nums[3 + 2 * k] as usize;
  if nums.len() != 3 + 2 * k + 1 + 3 * nd + 1 || gi >= k {
    return "bad-line".to_string();
  }
  let inv = match t[1] {
    "lt" => "ge",
    "le" => "gt",
    "gt" => "le",
    _ => "lt",
  };
  let mut lvs = String::new();
  let mut incs = String::new();
  for v in 0..k {
    lvs.push_str(&format!("v{v} {} n{v} ", nums[3 + 2 * v]));
    incs.push_str(&format!("bin n{v} add v{v} {} ", nums[4 + 2 * v]));
  }
  let mut body = format!("bin cc {inv} v{gi} {bound} sif cc 0 {{ brk 0 }} call print 1 v{gi} _ ");
  for d in 0..nd {
    let (b, m, c) = (nums[4 + 2 * k + 3 * d], nums[5 + 2 * k + 3 * d], nums[6 + 2 * k + 3 * d]);
    if c == 0 {
      body.push_str(&format!("bin d{d} mul v{b} {m} "));
    } else if m == 1 {
      body.push_str(&format!("bin d{d} add v{b} {c} "));
    } else {
      body.push_str(&format!("bin t{d} mul v{b} {m} bin d{d} add t{d} {c} "));
    }
    body.push_str(&format!("call print 1 d{d} _ "));
  }
  let text = format!("fn f0 0 while {k} {lvs}{{ {body}{incs}}} r ret r end");
  let fuel = *nums.last().unwrap() as u64;
  run_loop_text(&text, optimised, fuel).split(" ret ").next().unwrap_or("bad").to_string()
}

fn iv_line(t: &[&str], optimised: bool) -> String {
  if t.len() != 8 {
    return "bad-line".to_string();
  }
  let p: Vec<i32> = t[2..7].iter().map(|x| x.parse::<i32>().unwrap_or(0)).collect();
  let fuel: u64 = t[7].parse().unwrap_or(100);
  let text = obs_loop_text(t[1], p[0], p[1], p[2], p[3], p[4]);
  run_loop_text(&text, optimised, fuel)
}

fn run_loop_text(text: &str, optimised: bool, fuel: u64) -> String {
  let mut heap = Heap::new();
  let before = parse_program(&mut heap, text).expect("well-formed loop");
  let prog = if optimised {
    match apply_pass(&mut heap, &before, "loop", 31) {
      Ok(f) => f,
      Err(_) => return "panic".to_string(),
    }
  } else {
    before
  };
  // `fuel` = number of guard evaluations allowed, as in the model
  let mut m = Machine { heap: &heap, functions: &prog, lines: Vec::new(), steps: 0, limit: u64::MAX, objs: Vec::new(), closure_fns: Vec::new() };
  let f = &prog[0];
  let mut env: HashMap<PStr, i32> = HashMap::new();
  // run prefix statements, then the loop with an iteration bound
  let mut ret = None;
  for s in &f.body {
    if let Statement::While { loop_variables, statements, break_collector } = s {
      let mut vals: Vec<i32> = Vec::new();
      for v in loop_variables {
        match m.eval(&env, &v.initial_value) {
          Ok(x) => vals.push(x),
          Err(e) => return format!("bad {e:?}"),
        }
      }
      let mut left = fuel;
      loop {
        if left == 0 {
          return "fuel".to_string();
        }
        left -= 1;
        for (v, x) in loop_variables.iter().zip(&vals) {
          env.insert(v.name, *x);
        }
        match m.stmts(&mut env, statements, 0) {
          Ok(Flow::Break(v)) => {
            if let Some(bc) = break_collector {
              env.insert(bc.name, v);
            }
            ret = Some(v);
            break;
          }
          Ok(Flow::Next) => {}
          Err(e) => return format!("bad {e:?}"),
        }
        vals.clear();
        for v in loop_variables {
          match m.eval(&env, &v.loop_value) {
            Ok(x) => vals.push(x),
            Err(e) => return format!("bad {e:?}"),
          }
        }
      }
    } else if let Err(e) = m.stmt(&mut env, s, 0) {
      return format!("bad {e:?}");
    }
  }
  let r = match m.eval(&env, &f.return_value) {
    Ok(v) => v,
    Err(_) => ret.unwrap_or(0),
  };
  let printed = if m.lines.is_empty() { "-".to_string() } else { m.lines.join(",") };
  format!("out {printed} ret {r}")
}

/// `lvn` protocol printer (same token language as the input)
fn show_lvn_stmts(heap: &Heap, ss: &[Statement]) -> String {
  let mut out: Vec<String> = Vec::new();
  for s in ss {
    match s {
      Statement::Binary(b) => out.push(format!(
        "b {} {} {} {}",
        b.name.as_str(heap),
        op_name(b.operator),
        show_expr(heap, &b.e1),
        show_expr(heap, &b.e2)
      )),
      Statement::Call { arguments, .. } => out.push(format!("p {}", show_expr(heap, &arguments[0]))),
      Statement::Break(e) => out.push(format!("k {}", show_expr(heap, e))),
      Statement::SingleIf { condition, invert_condition, statements } => {
        let inner = show_lvn_stmts(heap, statements);
        out.push(format!(
          "[ {} {} {}]",
          show_expr(heap, condition),
          *invert_condition as u8,
          if inner.is_empty() { String::new() } else { format!("{inner} ") }
        ))
      }
      Statement::IfElse { condition, s1, s2, final_assignments } => {
        let (b1, b2) = (show_lvn_stmts(heap, s1), show_lvn_stmts(heap, s2));
        let f = final_assignments
          .iter()
          .map(|fa| format!("{} {} {}", fa.name.as_str(heap), show_expr(heap, &fa.e1), show_expr(heap, &fa.e2)))
          .collect::<Vec<_>>()
          .join(" ");
        let sp = |s: String| if s.is_empty() { s } else { format!("{s} ") };
        out.push(format!(
          "{{ {} {}| {}; {} {}}}",
          show_expr(heap, condition),
          sp(b1),
          sp(b2),
          final_assignments.len(),
          sp(f)
        ))
      }
      _ => out.push("?".to_string()),
    }
  }
  out.join(" ")
}

/// `(b X OP A B | p A | k A | [ C INV … ])*` -> statements (operands `v<k>` / `i<n>`)
fn straight_line(heap: &mut Heap, t: &[&str]) -> Option<Vec<Statement>> {
  let mut body = Vec::new();
  let mut i = 0;
  while i < t.len() {
    if t[i] == "k" && i + 1 < t.len() {
      body.push(Statement::Break(expr_of(heap, t[i + 1])?));
      i += 2;
      continue;
    }
    if t[i] == "{" && i + 1 < t.len() {
      let bar = (i..t.len()).find(|j| t[*j] == "|")?;
      let semi = (bar..t.len()).find(|j| t[*j] == ";")?;
      let close = (semi..t.len()).find(|j| t[*j] == "}")?;
      let condition = expr_of(heap, t[i + 1])?;
      let s1 = straight_line(heap, &t[i + 2..bar])?;
      let s2 = straight_line(heap, &t[bar + 1..semi])?;
      let n: usize = t[semi + 1].parse().ok()?;
      if semi + 2 + 3 * n != close {
        return None;
      }
      let mut final_assignments = Vec::new();
      for k in 0..n {
        let nm = expr_of(heap, t[semi + 2 + 3 * k])?.as_variable()?.name;
        let e1 = expr_of(heap, t[semi + 3 + 3 * k])?;
        let e2 = expr_of(heap, t[semi + 4 + 3 * k])?;
        final_assignments.push(IfElseFinalAssignment { name: nm, type_: INT_32_TYPE, e1, e2 });
      }
      body.push(Statement::IfElse { condition, s1, s2, final_assignments });
      i = close + 1;
      continue;
    }
    if t[i] == "[" && i + 2 < t.len() {
      let close = (i..t.len()).find(|j| t[*j] == "]")?;
      let condition = expr_of(heap, t[i + 1])?;
      let statements = straight_line(heap, &t[i + 3..close])?;
      body.push(Statement::SingleIf { condition, invert_condition: t[i + 2] == "1", statements });
      i = close + 1;
      continue;
    }
    if t[i] == "b" && i + 4 < t.len() {
      let n = expr_of(heap, t[i + 1])?;
      let o = op_of(t[i + 2])?;
      let a = expr_of(heap, t[i + 3])?;
      let b = expr_of(heap, t[i + 4])?;
      let n = n.as_variable()?.name;
      body.push(Statement::Binary(Binary { name: n, operator: o, e1: a, e2: b }));
      i += 5;
    } else if t[i] == "p" && i + 1 < t.len() {
      let a = expr_of(heap, t[i + 1])?;
      body.push(Statement::Call {
        callee: Callee::FunctionName(FunctionNameExpression {
          name: FunctionName { type_name: TypeNameId::EMPTY, fn_name: name(heap, "print") },
          type_: Type::new_fn_unwrapped(vec![INT_32_TYPE], INT_32_TYPE),
        }),
        arguments: vec![a],
        return_type: INT_32_TYPE,
        return_collector: None,
      });
      i += 2;
    } else {
      return None;
    }
  }
  Some(body)
}

/// every statement kind LICM dispatches on (token language of the `licmk` protocol)
fn all_kinds(heap: &mut Heap, t: &[&str]) -> Option<Vec<Statement>> {
  let mut body = Vec::new();
  let mut i = 0;
  let var_name = |heap: &mut Heap, s: &str| -> Option<PStr> { Some(expr_of(heap, s)?.as_variable()?.name) };
  while i < t.len() {
    match t[i] {
      "b" => {
        let n = var_name(heap, t.get(i + 1)?)?;
        let o = op_of(t.get(i + 2)?)?;
        let a = expr_of(heap, t.get(i + 3)?)?;
        let b = expr_of(heap, t.get(i + 4)?)?;
        body.push(Statement::Binary(Binary { name: n, operator: o, e1: a, e2: b }));
        i += 5;
      }
      "ip" | "nt" | "cs" | "cl" | "la" => {
        let n = var_name(heap, t.get(i + 1)?)?;
        let a = expr_of(heap, t.get(i + 2)?)?;
        body.push(match t[i] {
          "ip" => Statement::IsPointer { name: n, pointer_type: TypeNameId::STR, operand: a },
          "nt" => Statement::Not { name: n, operand: a },
          "cs" => Statement::Cast { name: n, type_: INT_32_TYPE, assigned_expression: a },
          "la" => Statement::LateInitAssignment { name: n, assigned_expression: a },
          _ => Statement::ClosureInit {
            closure_variable_name: n,
            closure_type_name: TypeNameId::STR,
            function_name: FunctionNameExpression {
              name: FunctionName { type_name: TypeNameId::EMPTY, fn_name: name(heap, "g") },
              type_: Type::new_fn_unwrapped(vec![INT_32_TYPE], INT_32_TYPE),
            },
            context: a,
          },
        });
        i += 3;
      }
      "ix" => {
        let n = var_name(heap, t.get(i + 1)?)?;
        let a = expr_of(heap, t.get(i + 2)?)?;
        let index: usize = t.get(i + 3)?.parse().ok()?;
        body.push(Statement::IndexedAccess { name: n, type_: INT_32_TYPE, pointer_expression: a, index });
        i += 4;
      }
      "st" => {
        let n = var_name(heap, t.get(i + 1)?)?;
        let k: usize = t.get(i + 2)?.parse().ok()?;
        let mut es = Vec::new();
        for j in 0..k {
          es.push(expr_of(heap, t.get(i + 3 + j)?)?);
        }
        body.push(Statement::StructInit { struct_variable_name: n, type_name: TypeNameId::STR, expression_list: es });
        i += 3 + k;
      }
      "ld" => {
        let n = var_name(heap, t.get(i + 1)?)?;
        body.push(Statement::LateInitDeclaration { name: n, type_: INT_32_TYPE });
        i += 2;
      }
      "cr" => {
        let c = if *t.get(i + 1)? == "_" { None } else { Some(var_name(heap, t[i + 1])?) };
        let k: usize = t.get(i + 2)?.parse().ok()?;
        let mut es = Vec::new();
        for j in 0..k {
          es.push(expr_of(heap, t.get(i + 3 + j)?)?);
        }
        body.push(Statement::Call {
          callee: Callee::FunctionName(FunctionNameExpression {
            name: FunctionName { type_name: TypeNameId::EMPTY, fn_name: name(heap, "h") },
            type_: Type::new_fn_unwrapped(vec![INT_32_TYPE; k], INT_32_TYPE),
          }),
          arguments: es,
          return_type: INT_32_TYPE,
          return_collector: c,
        });
        i += 3 + k;
      }
      "ic" => {
        let v = var_name(heap, t.get(i + 1)?)?;
        let c = if *t.get(i + 2)? == "_" { None } else { Some(var_name(heap, t[i + 2])?) };
        let k: usize = t.get(i + 3)?.parse().ok()?;
        let mut es = Vec::new();
        for j in 0..k {
          es.push(expr_of(heap, t.get(i + 4 + j)?)?);
        }
        body.push(Statement::Call {
          callee: Callee::Variable(VariableName { name: v, type_: INT_32_TYPE }),
          arguments: es,
          return_type: INT_32_TYPE,
          return_collector: c,
        });
        i += 4 + k;
      }
      "p" | "k" => {
        let a = expr_of(heap, t.get(i + 1)?)?;
        if t[i] == "k" {
          body.push(Statement::Break(a));
        } else {
          body.push(Statement::Call {
            callee: Callee::FunctionName(FunctionNameExpression {
              name: FunctionName { type_name: TypeNameId::EMPTY, fn_name: name(heap, "print") },
              type_: Type::new_fn_unwrapped(vec![INT_32_TYPE], INT_32_TYPE),
            }),
            arguments: vec![a],
            return_type: INT_32_TYPE,
            return_collector: None,
          });
        }
        i += 2;
      }
      "wh" => {
        let n = var_name(heap, t.get(i + 1)?)?;
        body.push(Statement::While {
          loop_variables: Vec::new(),
          statements: vec![Statement::Break(Expression::i32(1))],
          break_collector: Some(VariableName { name: n, type_: INT_32_TYPE }),
        });
        i += 2;
      }
      "if" => {
        let k: usize = t.get(i + 1)?.parse().ok()?;
        let mut fas = Vec::new();
        for j in 0..k {
          fas.push(IfElseFinalAssignment {
            name: var_name(heap, t.get(i + 2 + j)?)?,
            type_: INT_32_TYPE,
            e1: Expression::i32(1),
            e2: Expression::i32(2),
          });
        }
        body.push(Statement::IfElse {
          condition: Expression::var_name(name(heap, "v01"), INT_32_TYPE),
          s1: Vec::new(),
          s2: Vec::new(),
          final_assignments: fas,
        });
        i += 2 + k;
      }
      "sf" => {
        body.push(Statement::SingleIf {
          condition: Expression::var_name(name(heap, "v01"), INT_32_TYPE),
          invert_condition: false,
          statements: vec![Statement::Break(Expression::i32(0))],
        });
        i += 1;
      }
      _ => return None,
    }
  }
  Some(body)
}

fn kernel_line(t: &[&str]) -> String {
  let int = |s: &str| s.parse::<i32>();
  match t[0] {
    "fold" if t.len() == 4 => match (op_of(t[1]), int(t[2]), int(t[3])) {
      (Some(o), Ok(a), Ok(b)) => match verif_hooks::evaluate_bin_op(o, a, b) {
        Some(v) => format!("v {v}"),
        None => "nofold".to_string(),
      },
      _ => "bad-line".to_string(),
    },
    "tgt" if t.len() == 4 => match (op_of(t[1]), int(t[2]), int(t[3])) {
      (Some(o), Ok(a), Ok(b)) => match target_binary(o, a, b) {
        Ok(v) => format!("v {v}"),
        Err(_) => "trap".to_string(),
      },
      _ => "bad-line".to_string(),
    },
    "merge" if t.len() == 5 => match (op_of(t[1]), op_of(t[2]), int(t[3]), int(t[4])) {
      (Some(o), Some(i), Ok(c1), Ok(c2)) => match verif_hooks::merge_binary_expression(o, i, c1, c2) {
        Some((op, c)) => format!("m {} {c}", op_name(op)),
        None => "none".to_string(),
      },
      _ => "bad-line".to_string(),
    },
    "trip" if t.len() == 5 => {
      let g = match t[1] {
        "lt" => 0u8,
        "le" => 1,
        "gt" => 2,
        "ge" => 3,
        _ => return "bad-line".to_string(),
      };
      match (int(t[2]), int(t[3]), int(t[4])) {
        (Ok(i0), Ok(st), Ok(b)) => {
          match verif_hooks::analyze_number_of_iterations_to_break_guard(i0, st, g, b) {
            Some(n) => format!("n {n}"),
            None => "none".to_string(),
          }
        }
        _ => "bad-line".to_string(),
      }
    }
    "flex" | "order" | "unwrap" if t.len() == 4 => {
      let mut heap = Heap::new();
      match (op_of(t[1]), expr_of(&mut heap, t[2]), expr_of(&mut heap, t[3])) {
        (Some(o), Some(a), Some(b)) => match t[0] {
          "flex" => show_binary(&heap, &Statement::binary_flexible_unwrapped(PStr::INVALID_PSTR, o, a, b)),
          "unwrap" => show_binary(&heap, &Statement::binary_unwrapped(PStr::INVALID_PSTR, o, a, b)),
          _ => {
            let (operator, e1, e2) = Statement::flexible_order_binary(o, a, b);
            show_binary(&heap, &Binary { name: PStr::INVALID_PSTR, operator, e1, e2 })
          }
        },
        _ => "bad-line".to_string(),
      }
    }
    "ccp" if t.len() == 4 => {
      let mut heap = Heap::new();
      match (op_of(t[1]), expr_of(&mut heap, t[2]), expr_of(&mut heap, t[3])) {
        (Some(o), Some(a), Some(b)) => {
          let r = name(&mut heap, "r");
          let mut f = Function {
            name: FunctionName { type_name: TypeNameId::EMPTY, fn_name: name(&mut heap, "f0") },
            parameters: (0..8).map(|i| name(&mut heap, &format!("v{i:02}"))).collect(),
            type_: Type::new_fn_unwrapped(vec![INT_32_TYPE; 8], INT_32_TYPE),
            body: vec![Statement::Binary(Binary { name: r, operator: o, e1: a, e2: b })],
            return_value: Expression::var_name(r, INT_32_TYPE),
          };
          let counter = heap.create_temp_counter();
          verif_hooks::run_pass("ccp", &mut f, &counter, &config(31));
          match f.body.as_slice() {
            [] => format!("bind {}", show_expr(&heap, &f.return_value)),
            [Statement::Binary(b)] => format!("stmt {}", show_binary(&heap, b)),
            _ => "unexpected-shape".to_string(),
          }
        }
        _ => "bad-line".to_string(),
      }
    }
    "dce" if t.len() >= 2 => {
      let mut heap = Heap::new();
      let body = match straight_line(&mut heap, &t[2..]) {
        Some(b) => b,
        None => return "bad-line".to_string(),
      };
      let ret = match expr_of(&mut heap, t[1]) {
        Some(r) => r,
        None => return "bad-line".to_string(),
      };
      let mut f = Function {
        name: FunctionName { type_name: TypeNameId::EMPTY, fn_name: name(&mut heap, "f0") },
        parameters: vec![name(&mut heap, "v00"), name(&mut heap, "v01")],
        type_: Type::new_fn_unwrapped(vec![INT_32_TYPE; 2], INT_32_TYPE),
        body,
        return_value: ret,
      };
      let counter = heap.create_temp_counter();
      verif_hooks::run_pass("dce", &mut f, &counter, &config(31));
      let kept: Vec<String> =
        f.body.iter().filter_map(|s| s.as_binary().map(|b| b.name.as_str(&heap).to_string())).collect();
      format!("kept {}", if kept.is_empty() { "-".to_string() } else { kept.join(",") })
    }
    "lvn" => {
      // the block is the body of a `while` (so that `Break` is legal); real local_value_numbering
      let mut heap = Heap::new();
      let body = match straight_line(&mut heap, &t[1..]) {
        Some(b) => b,
        None => return "bad-line".to_string(),
      };
      let r = name(&mut heap, "r");
      let mut f = Function {
        name: FunctionName { type_name: TypeNameId::EMPTY, fn_name: name(&mut heap, "f0") },
        parameters: vec![name(&mut heap, "v00"), name(&mut heap, "v01")],
        type_: Type::new_fn_unwrapped(vec![INT_32_TYPE; 2], INT_32_TYPE),
        body: vec![Statement::While {
          loop_variables: Vec::new(),
          statements: body,
          break_collector: Some(VariableName { name: r, type_: INT_32_TYPE }),
        }],
        return_value: Expression::var_name(r, INT_32_TYPE),
      };
      let counter = heap.create_temp_counter();
      verif_hooks::run_pass("lvn", &mut f, &counter, &config(31));
      match &f.body[0] {
        Statement::While { statements, .. } => {
          let s = show_lvn_stmts(&heap, statements);
          if s.is_empty() { "-".to_string() } else { s }
        }
        _ => "unexpected-shape".to_string(),
      }
    }
    "inl" if t.len() >= 3 => {
      // `inl NP arg*NP RET <callee body>`: f0(v00, v01) { v90 = f1(args); return v90 } through the real inliner
      let mut heap = Heap::new();
      let np: usize = match t[1].parse() {
        Ok(n) if n <= 4 && t.len() >= 3 + n => n,
        _ => return "bad-line".to_string(),
      };
      let mut arguments = Vec::new();
      for a in &t[2..2 + np] {
        match expr_of(&mut heap, a) {
          Some(e) => arguments.push(e),
          None => return "bad-line".to_string(),
        }
      }
      let ret = match expr_of(&mut heap, t[2 + np]) {
        Some(e) => e,
        None => return "bad-line".to_string(),
      };
      let body = match straight_line(&mut heap, &t[3 + np..]) {
        Some(b) => b,
        None => return "bad-line".to_string(),
      };
      let f1_name = FunctionName { type_name: TypeNameId::EMPTY, fn_name: name(&mut heap, "f1") };
      let f1 = Function {
        name: f1_name,
        parameters: (0..np).map(|i| name(&mut heap, &format!("v{i:02}"))).collect(),
        type_: Type::new_fn_unwrapped(vec![INT_32_TYPE; np], INT_32_TYPE),
        body,
        return_value: ret,
      };
      let v90 = name(&mut heap, "v90");
      let f0 = Function {
        name: FunctionName { type_name: TypeNameId::EMPTY, fn_name: name(&mut heap, "f0") },
        parameters: vec![name(&mut heap, "v00"), name(&mut heap, "v01")],
        type_: Type::new_fn_unwrapped(vec![INT_32_TYPE; 2], INT_32_TYPE),
        body: vec![Statement::Call {
          callee: Callee::FunctionName(FunctionNameExpression {
            name: f1_name,
            type_: Type::new_fn_unwrapped(vec![INT_32_TYPE; np], INT_32_TYPE),
          }),
          arguments,
          return_type: INT_32_TYPE,
          return_collector: Some(v90),
        }],
        return_value: Expression::var_name(v90, INT_32_TYPE),
      };
      let out = verif_hooks::run_pass_sources("inline", &mut heap, sources_of(vec![f0, f1])).expect("known pass");
      let f0 = out.functions.iter().find(|f| f.name.fn_name.as_str(&heap) == "f0").expect("f0 stays");
      // mangled names are `<temporary prefix _tN><name>`: print them as `m:<name>`
      show_lvn_stmts(&heap, &f0.body)
        .split(' ')
        .map(|tok| {
          if let Some(rest) = tok.strip_prefix("_t") {
            format!("m:{}", rest.trim_start_matches(|c: char| c.is_ascii_digit()))
          } else {
            tok.to_string()
          }
        })
        .collect::<Vec<_>>()
        .join(" ")
    }
    "csek" => {
      // like `cse`, over every value kind CSE tracks (Binary, IndexedAccess, IsPointer, Not)
      let mut heap = Heap::new();
      let slash = match t.iter().position(|x| *x == "/") {
        Some(i) => i,
        None => return "bad-line".to_string(),
      };
      let (s1, s2) = match (all_kinds(&mut heap, &t[1..slash]), all_kinds(&mut heap, &t[slash + 1..])) {
        (Some(a), Some(b)) => (a, b),
        _ => return "bad-line".to_string(),
      };
      let v0 = name(&mut heap, "v00");
      let mut f = Function {
        name: FunctionName { type_name: TypeNameId::EMPTY, fn_name: name(&mut heap, "f0") },
        parameters: vec![v0, name(&mut heap, "v01")],
        type_: Type::new_fn_unwrapped(vec![INT_32_TYPE; 2], INT_32_TYPE),
        body: vec![Statement::IfElse {
          condition: Expression::var_name(v0, INT_32_TYPE),
          s1,
          s2,
          final_assignments: Vec::new(),
        }],
        return_value: Expression::i32(0),
      };
      let counter = heap.create_temp_counter();
      verif_hooks::run_pass("cse", &mut f, &counter, &config(31));
      let mut hoisted: Vec<String> = f
        .body
        .iter()
        .take_while(|s| s.as_if_else().is_none())
        .filter_map(|s| match s {
          Statement::Binary(b) => {
            Some(format!("{}:{}:{}", op_name(b.operator), show_expr(&heap, &b.e1), show_expr(&heap, &b.e2)))
          }
          Statement::IndexedAccess { pointer_expression, index, .. } => {
            Some(format!("ix:{}:{}", show_expr(&heap, pointer_expression), index))
          }
          Statement::IsPointer { operand, .. } => Some(format!("ip:{}", show_expr(&heap, operand))),
          Statement::Not { operand, .. } => Some(format!("nt:{}", show_expr(&heap, operand))),
          _ => Some("?".to_string()),
        })
        .collect();
      hoisted.sort();
      hoisted.dedup();
      format!("hoisted {}", if hoisted.is_empty() { "-".to_string() } else { hoisted.join(",") })
    }
    "cse" => {
      // `cse <block1> / <block2>`: real common_subexpression_elimination on `if v00 {block1} {block2}`
      let mut heap = Heap::new();
      let slash = match t.iter().position(|x| *x == "/") {
        Some(i) => i,
        None => return "bad-line".to_string(),
      };
      let (s1, s2) = match (straight_line(&mut heap, &t[1..slash]), straight_line(&mut heap, &t[slash + 1..])) {
        (Some(a), Some(b)) => (a, b),
        _ => return "bad-line".to_string(),
      };
      let (b1, b2) = (show_lvn_stmts(&heap, &s1), show_lvn_stmts(&heap, &s2));
      let v0 = name(&mut heap, "v00");
      let mut f = Function {
        name: FunctionName { type_name: TypeNameId::EMPTY, fn_name: name(&mut heap, "f0") },
        parameters: vec![v0, name(&mut heap, "v01")],
        type_: Type::new_fn_unwrapped(vec![INT_32_TYPE; 2], INT_32_TYPE),
        body: vec![Statement::IfElse {
          condition: Expression::var_name(v0, INT_32_TYPE),
          s1,
          s2,
          final_assignments: Vec::new(),
        }],
        return_value: Expression::i32(0),
      };
      let counter = heap.create_temp_counter();
      verif_hooks::run_pass("cse", &mut f, &counter, &config(31));
      let mut hoisted: Vec<String> = f
        .body
        .iter()
        .take_while(|s| s.as_if_else().is_none())
        .filter_map(|s| {
          s.as_binary()
            .map(|b| format!("{}:{}:{}", op_name(b.operator), show_expr(&heap, &b.e1), show_expr(&heap, &b.e2)))
        })
        .collect();
      hoisted.sort();
      hoisted.dedup();
      // the model (`cse_preserves`) assumes the if/else itself is left as it was and is the last statement
      let unchanged = match f.body.last() {
        Some(Statement::IfElse { s1, s2, .. }) => show_lvn_stmts(&heap, s1) == b1 && show_lvn_stmts(&heap, s2) == b2,
        _ => false,
      };
      format!(
        "hoisted {} branches={}",
        if hoisted.is_empty() { "-".to_string() } else { hoisted.join(",") },
        if unchanged { "same" } else { "changed" }
      )
    }
    "ivuse" if t.len() == 3 => {
      // IV-elimination candidate whose only other mention of the counter `i` is at POS inside a nested loop
      let (pos, b) = (t[1], t[2]);
      let kinit = if pos == "init" { "i" } else { "0" };
      let ibound = if pos == "guard" { "i" } else { b };
      let addend = if pos == "body" { "i" } else { "k" };
      let extra_lv = if pos == "loopvalue" { " w 0 i" } else { "" };
      let nlv = if pos == "loopvalue" { 3 } else { 2 };
      let print = if pos == "print" { "call print 1 i _ " } else { "" };
      // the extra inner variable must be live (DCE inside the loop analysis drops unused loop variables)
      let brk = if pos == "loopvalue" { "w" } else { "s" };
      let text = format!(
        "fn f0 2 while 3 i 0 ni last 0 j acc 0 nacc {{ bin cc ge i 5 sif cc 0 {{ brk acc }} {print}while {nlv} k {kinit} nk s 0 ns{extra_lv} {{ bin c2 ge k {ibound} sif c2 0 {{ brk {brk} }} bin ns add s {addend} bin nk add k 1 }} r2 bin t add acc last bin nacc add t r2 bin j mul i 3 bin ni add i 1 }} r ret r end"
      );
      let mut heap = Heap::new();
      let mut before = match parse_program(&mut heap, &text) {
        Ok(f) => f,
        Err(e) => return format!("bad-program {e}"),
      };
      // statement kinds the text format does not have: the counter is read by an IsPointer / Not /
      // IndexedAccess / Cast / LateInitAssignment / StructInit / ClosureInit whose result is printed (live)
      let extra: Option<&str> = match pos {
        "ip" => Some("ip v50 v77 p v50"),
        "nt" => Some("nt v50 v77 p v50"),
        "ix" => Some("ix v50 v77 0 p v50"),
        "cs" => Some("cs v50 v77 p v50"),
        "la" => Some("ld v50 la v50 v77 p v50"),
        "st" => Some("st v50 2 i1 v77 p v50"),
        "cl" => Some("cl v50 v77 p v50"),
        _ => None,
      };
      if let Some(toks) = extra {
        let toks: Vec<&str> = toks.split(' ').collect();
        let mut stmts = all_kinds(&mut heap, &toks).expect("well-formed");
        // v77 stands for the counter `i`
        let i_name = name(&mut heap, "i");
        let v77 = name(&mut heap, "v77");
        let fix = |e: &mut Expression| {
          if let Expression::Variable(v) = e {
            if v.name == v77 {
              v.name = i_name;
            }
          }
        };
        for s in stmts.iter_mut() {
          match s {
            Statement::IsPointer { operand, .. } | Statement::Not { operand, .. } => fix(operand),
            Statement::IndexedAccess { pointer_expression, .. } => fix(pointer_expression),
            Statement::Cast { assigned_expression, .. } | Statement::LateInitAssignment { assigned_expression, .. } => {
              fix(assigned_expression)
            }
            Statement::StructInit { expression_list, .. } => expression_list.iter_mut().for_each(fix),
            Statement::ClosureInit { context, .. } => fix(context),
            _ => {}
          }
        }
        if let Statement::While { statements, .. } = &mut before[0].body[0] {
          for (k, s) in stmts.into_iter().enumerate() {
            statements.insert(2 + k, s);
          }
        }
      }
      let after = match apply_pass(&mut heap, &before, "loop", 31) {
        Ok(f) => f,
        Err(_) => return "panic".to_string(),
      };
      let kept = after[0].body.iter().any(|s| match s {
        Statement::While { loop_variables, .. } => loop_variables.iter().any(|v| v.name.as_str(&heap) == "i"),
        _ => false,
      });
      if kept { "kept".to_string() } else { "elim".to_string() }
    }
    "algopt" if t.len() == 10 => {
      // `algopt G i0 step bound LIT NONIV DERIVED STMTS BRK`: the loop is built with exactly these features;
      // answer: did the real loop pass replace it by straight-line code?
      let inv = match t[1] {
        "lt" => "ge",
        "le" => "gt",
        "gt" => "le",
        _ => "lt",
      };
      let start = if t[5] == "1" { t[2].to_string() } else { "p0".to_string() };
      let mut lvs = format!("i {start} ni k 0 nk");
      let mut nlv = 2;
      let mut body = String::new();
      if t[6] != "0" {
        lvs.push_str(" x p1 x");
        nlv += 1;
      }
      if t[7] != "0" {
        body.push_str("bin d mul i 3 ");
      }
      if t[8] != "0" {
        body.push_str("call print 1 p1 _ ");
      }
      let brk = match t[9] {
        "counter" => "i",
        "lit" => "7",
        "giv" => "k",
        "outer" => "p1",
        "none" => "0",
        _ => {
          if t[6] != "0" {
            "x"
          } else if t[7] != "0" {
            "d"
          } else {
            "k"
          }
        }
      };
      let bc = if t[9] == "none" { "_" } else { "r" };
      let ret = if t[9] == "none" { "p1" } else { "r" };
      let text = format!(
        "fn f0 2 while {nlv} {lvs} {{ bin cc {inv} i {} sif cc 0 {{ brk {brk} }} {body}bin nk add k 5 bin ni add i {} }} {bc} ret {ret} end",
        t[4], t[3]
      );
      let mut heap = Heap::new();
      let before = match parse_program(&mut heap, &text) {
        Ok(f) => f,
        Err(e) => return format!("bad-program {e}"),
      };
      let after = match apply_pass(&mut heap, &before, "loop", 31) {
        Ok(f) => f,
        Err(_) => return "panic".to_string(),
      };
      if after[0].body.iter().any(|s| s.as_while().is_some()) { "kept".to_string() } else { "fired".to_string() }
    }
    "ccpif" if t.len() == 6 => {
      // `ccpif E1 E2 S1 S2 NFA`: if c { S1 } else { S2 } with final assignments r = (E1, E2) [, q = (p0, p1)]
      let blk = |s: &str, k: u32| match s {
        "p" => format!("call print 1 {k} _"),
        "d" => format!("bin t{k} div 7 p1 call print 1 t{k} _"),
        _ => String::new(),
      };
      let nfa: usize = t[5].parse().unwrap_or(0);
      let fas = match nfa {
        0 => String::new(),
        1 => format!("r {} {}", t[1], t[2]),
        _ => format!("r {} {} q p0 p1", t[1], t[2]),
      };
      let use_ = match nfa {
        0 => "bin z add c 0",
        1 => "bin z add r 5",
        _ => "bin w add r q bin z mul w 3",
      };
      let text = format!(
        "fn f0 2 bin c gt p0 p1 if c {{ {} }} {{ {} }} {nfa} {fas} {use_} call print 1 z _ ret z end",
        blk(t[3], 1),
        blk(t[4], 2)
      );
      let mut heap = Heap::new();
      let before = match parse_program(&mut heap, &text) {
        Ok(f) => f,
        Err(e) => return format!("bad-program {e}"),
      };
      let after = match apply_pass(&mut heap, &before, "ccp", 31) {
        Ok(f) => f,
        Err(_) => return "panic".to_string(),
      };
      if after[0].body.iter().any(|s| s.as_if_else().is_some()) { "kept".to_string() } else { "gone".to_string() }
    }
    "dcel" if t.len() >= 2 => {
      // `dcel RET <block>`: real dead_code_elimination on a block with SingleIf / IfElse
      let mut heap = Heap::new();
      let body = match straight_line(&mut heap, &t[2..]) {
        Some(b) => b,
        None => return "bad-line".to_string(),
      };
      let ret = match expr_of(&mut heap, t[1]) {
        Some(r) => r,
        None => return "bad-line".to_string(),
      };
      let mut f = Function {
        name: FunctionName { type_name: TypeNameId::EMPTY, fn_name: name(&mut heap, "f0") },
        parameters: vec![name(&mut heap, "v00"), name(&mut heap, "v01")],
        type_: Type::new_fn_unwrapped(vec![INT_32_TYPE; 2], INT_32_TYPE),
        body,
        return_value: ret,
      };
      let counter = heap.create_temp_counter();
      verif_hooks::run_pass("dce", &mut f, &counter, &config(31));
      let s = show_lvn_stmts(&heap, &f.body);
      if s.is_empty() { "-".to_string() } else { s }
    }
    "dceuse" if t.len() >= 2 => {
      let mut heap = Heap::new();
      let body = match all_kinds(&mut heap, &t[2..]) {
        Some(b) => b,
        None => return "bad-line".to_string(),
      };
      let ret = match expr_of(&mut heap, t[1]) {
        Some(r) => r,
        None => return "bad-line".to_string(),
      };
      let mut f = Function {
        name: FunctionName { type_name: TypeNameId::EMPTY, fn_name: name(&mut heap, "f0") },
        parameters: vec![name(&mut heap, "v00"), name(&mut heap, "v01")],
        type_: Type::new_fn_unwrapped(vec![INT_32_TYPE; 2], INT_32_TYPE),
        body,
        return_value: ret,
      };
      let counter = heap.create_temp_counter();
      verif_hooks::run_pass("dce", &mut f, &counter, &config(31));
      let kept: Vec<String> = f
        .body
        .iter()
        .filter_map(|s| match s {
          Statement::Binary(b) => Some(b.name),
          Statement::IsPointer { name, .. }
          | Statement::Not { name, .. }
          | Statement::IndexedAccess { name, .. }
          | Statement::Cast { name, .. } => Some(*name),
          Statement::StructInit { struct_variable_name, .. } => Some(*struct_variable_name),
          Statement::ClosureInit { closure_variable_name, .. } => Some(*closure_variable_name),
          _ => None,
        })
        .map(|n| n.as_str(&heap).to_string())
        .collect();
      format!("kept {}", if kept.is_empty() { "-".to_string() } else { kept.join(",") })
    }
    "dceloop" => {
      // while (v00 = 0 -> v08, v01 = v07 -> v09) { <body>; v08 = v00 + 1; v09 = fresh struct }: does DCE keep v01?
      let mut heap = Heap::new();
      let mut body = match all_kinds(&mut heap, &t[1..]) {
        Some(b) => b,
        None => return "bad-line".to_string(),
      };
      let mut tail = all_kinds(&mut heap, &["b", "v8", "add", "v0", "i1", "st", "v9", "1", "v0"]).expect("well-formed");
      body.append(&mut tail);
      let lv = |heap: &mut Heap, n: &str, init: Expression, next: &str| GenenalLoopVariable {
        name: name(heap, n),
        type_: INT_32_TYPE,
        initial_value: init,
        loop_value: Expression::var_name(name(heap, next), INT_32_TYPE),
      };
      let v7 = Expression::var_name(name(&mut heap, "v07"), INT_32_TYPE);
      let loop_variables = vec![lv(&mut heap, "v00", Expression::i32(0), "v08"), lv(&mut heap, "v01", v7, "v09")];
      let r = name(&mut heap, "r");
      let mut f = Function {
        name: FunctionName { type_name: TypeNameId::EMPTY, fn_name: name(&mut heap, "f0") },
        parameters: vec![name(&mut heap, "v07")],
        type_: Type::new_fn_unwrapped(vec![INT_32_TYPE; 1], INT_32_TYPE),
        body: vec![Statement::While {
          loop_variables,
          statements: body,
          break_collector: Some(VariableName { name: r, type_: INT_32_TYPE }),
        }],
        return_value: Expression::var_name(r, INT_32_TYPE),
      };
      let counter = heap.create_temp_counter();
      verif_hooks::run_pass("dce", &mut f, &counter, &config(31));
      let kept = match &f.body[0] {
        Statement::While { loop_variables, .. } => loop_variables.iter().any(|v| v.name.as_str(&heap) == "v01"),
        _ => false,
      };
      if kept { "kept".to_string() } else { "dropped".to_string() }
    }
    "lvnw" => {
      // `lvnw <prefix> ~ N (name init loopvalue)*N | <body>` through the real local_value_numbering
      let mut heap = Heap::new();
      let (ti, bar) = match (t.iter().position(|x| *x == "~"), t.iter().position(|x| *x == "|")) {
        (Some(a), Some(b)) if a < b => (a, b),
        _ => return "bad-line".to_string(),
      };
      let n: usize = match t.get(ti + 1).and_then(|x| x.parse().ok()) {
        Some(n) if bar == ti + 2 + 3 * n => n,
        _ => return "bad-line".to_string(),
      };
      let mut stmts = match straight_line(&mut heap, &t[1..ti]) {
        Some(b) => b,
        None => return "bad-line".to_string(),
      };
      let npre = stmts.len();
      let mut loop_variables = Vec::new();
      for k in 0..n {
        match (expr_of(&mut heap, t[ti + 2 + 3 * k]), expr_of(&mut heap, t[ti + 3 + 3 * k]), expr_of(&mut heap, t[ti + 4 + 3 * k])) {
          (Some(Expression::Variable(v)), Some(a), Some(b)) => loop_variables.push(GenenalLoopVariable {
            name: v.name,
            type_: INT_32_TYPE,
            initial_value: a,
            loop_value: b,
          }),
          _ => return "bad-line".to_string(),
        }
      }
      let body = match straight_line(&mut heap, &t[bar + 1..]) {
        Some(b) => b,
        None => return "bad-line".to_string(),
      };
      let r = name(&mut heap, "r");
      stmts.push(Statement::While {
        loop_variables,
        statements: body,
        break_collector: Some(VariableName { name: r, type_: INT_32_TYPE }),
      });
      let _ = npre;
      let mut f = Function {
        name: FunctionName { type_name: TypeNameId::EMPTY, fn_name: name(&mut heap, "f0") },
        parameters: vec![name(&mut heap, "v00"), name(&mut heap, "v01")],
        type_: Type::new_fn_unwrapped(vec![INT_32_TYPE; 2], INT_32_TYPE),
        body: stmts,
        return_value: Expression::var_name(r, INT_32_TYPE),
      };
      let counter = heap.create_temp_counter();
      verif_hooks::run_pass("lvn", &mut f, &counter, &config(31));
      let k = f.body.len() - 1;
      let pre = show_lvn_stmts(&heap, &f.body[..k]);
      match &f.body[k] {
        Statement::While { loop_variables, statements, .. } => {
          let lv = loop_variables
            .iter()
            .map(|v| format!("{} {} {}", v.name.as_str(&heap), show_expr(&heap, &v.initial_value), show_expr(&heap, &v.loop_value)))
            .collect::<Vec<_>>()
            .join(" ");
          let b = show_lvn_stmts(&heap, statements);
          let sp = |s: String| if s.is_empty() { s } else { format!("{s} ") };
          format!("{}~ {} {}|{}", sp(pre), loop_variables.len(), sp(lv), if b.is_empty() { b } else { format!(" {b}") })
        }
        _ => "unexpected-shape".to_string(),
      }
    }
    "licmk" => {
      // loop body over every statement kind; answer: names of the statements placed before the loop
      let mut heap = Heap::new();
      let mut body = match all_kinds(&mut heap, &t[1..]) {
        Some(b) => b,
        None => return "bad-line".to_string(),
      };
      let (v0, v99) = (name(&mut heap, "v00"), name(&mut heap, "v99"));
      body.push(Statement::Binary(Binary {
        name: v99,
        operator: B::PLUS,
        e1: Expression::var_name(v0, INT_32_TYPE),
        e2: Expression::i32(1),
      }));
      let mut f = Function {
        name: FunctionName { type_name: TypeNameId::EMPTY, fn_name: name(&mut heap, "f0") },
        parameters: vec![name(&mut heap, "v01")],
        type_: Type::new_fn_unwrapped(vec![INT_32_TYPE; 1], INT_32_TYPE),
        body: vec![Statement::While {
          loop_variables: vec![GenenalLoopVariable {
            name: v0,
            type_: INT_32_TYPE,
            initial_value: Expression::i32(0),
            loop_value: Expression::var_name(v99, INT_32_TYPE),
          }],
          statements: body,
          break_collector: None,
        }],
        return_value: Expression::i32(0),
      };
      let counter = heap.create_temp_counter();
      verif_hooks::run_pass("loop", &mut f, &counter, &config(31));
      let hoisted: Vec<String> = f
        .body
        .iter()
        .take_while(|s| s.as_while().is_none())
        .filter_map(|s| match s {
          Statement::Binary(b) => Some(b.name),
          Statement::IsPointer { name, .. }
          | Statement::Not { name, .. }
          | Statement::IndexedAccess { name, .. }
          | Statement::Cast { name, .. }
          | Statement::LateInitDeclaration { name, .. }
          | Statement::LateInitAssignment { name, .. } => Some(*name),
          Statement::StructInit { struct_variable_name, .. } => Some(*struct_variable_name),
          Statement::ClosureInit { closure_variable_name, .. } => Some(*closure_variable_name),
          _ => Some(PStr::INVALID_PSTR),
        })
        .map(|n| if n == PStr::INVALID_PSTR { "?".to_string() } else { n.as_str(&heap).to_string() })
        .collect();
      format!("hoisted {}", if hoisted.is_empty() { "-".to_string() } else { hoisted.join(",") })
    }
    "licm" => {
      // the block is the body of `while (v00 = 0) { …; v99 = v00 + 1 }` (v01 is a parameter)
      let mut heap = Heap::new();
      let mut body = match straight_line(&mut heap, &t[1..]) {
        Some(b) => b,
        None => return "bad-line".to_string(),
      };
      let (v0, v99) = (name(&mut heap, "v00"), name(&mut heap, "v99"));
      body.push(Statement::Binary(Binary {
        name: v99,
        operator: B::PLUS,
        e1: Expression::var_name(v0, INT_32_TYPE),
        e2: Expression::i32(1),
      }));
      let mut f = Function {
        name: FunctionName { type_name: TypeNameId::EMPTY, fn_name: name(&mut heap, "f0") },
        parameters: vec![name(&mut heap, "v01")],
        type_: Type::new_fn_unwrapped(vec![INT_32_TYPE; 1], INT_32_TYPE),
        body: vec![Statement::While {
          loop_variables: vec![GenenalLoopVariable {
            name: v0,
            type_: INT_32_TYPE,
            initial_value: Expression::i32(0),
            loop_value: Expression::var_name(v99, INT_32_TYPE),
          }],
          statements: body,
          break_collector: None,
        }],
        return_value: Expression::i32(0),
      };
      let counter = heap.create_temp_counter();
      verif_hooks::run_pass("loop", &mut f, &counter, &config(31));
      let hoisted: Vec<String> = f
        .body
        .iter()
        .take_while(|s| s.as_while().is_none())
        .filter_map(|s| s.as_binary().map(|b| b.name.as_str(&heap).to_string()))
        .collect();
      format!("hoisted {}", if hoisted.is_empty() { "-".to_string() } else { hoisted.join(",") })
    }
    "srloop" => sr_line(t, true),
    "srorig" => sr_line(t, false),
    "ivloop" => iv_line(t, true),
    "ivorig" => iv_line(t, false),
    _ => "bad-op".to_string(),
  }
}

struct Cleanup;
impl Drop for Cleanup {
  fn drop(&mut self) {
    samverif_harness::exec::cleanup_scratch("c02");
  }
}

fn main() {
  let _cleanup = Cleanup;
  std::panic::set_hook(Box::new(|_| {}));
  let mut e2e_count = 0usize;
  for_each_line(|line| {
    if let Some(rest) = line.strip_prefix("prog ") {
      return catch_unwind(AssertUnwindSafe(|| prog_line(rest, false))).unwrap_or_else(|e| format!("harness-panic {}", panic_msg(&e)));
    }
    if let Some(rest) = line.strip_prefix("e2e ") {
      e2e_count += 1;
      let n = e2e_count;
      return catch_unwind(AssertUnwindSafe(|| e2e_line(rest, n))).unwrap_or_else(|e| format!("harness-panic {}", panic_msg(&e)));
    }
    if let Some(rest) = line.strip_prefix("srcprog ") {
      return catch_unwind(AssertUnwindSafe(|| srcprog_line(rest, false))).unwrap_or_else(|e| format!("harness-panic {}", panic_msg(&e)));
    }
    if let Some(rest) = line.strip_prefix("srcshow ") {
      return catch_unwind(AssertUnwindSafe(|| srcprog_line(rest, true))).unwrap_or_else(|e| format!("harness-panic {}", panic_msg(&e)));
    }
    if let Some(rest) = line.strip_prefix("show ") {
      return catch_unwind(AssertUnwindSafe(|| prog_line(rest, true))).unwrap_or_else(|e| format!("harness-panic {}", panic_msg(&e)));
    }
    let t: Vec<&str> = line.split_whitespace().collect();
    catch_unwind(AssertUnwindSafe(|| kernel_line(&t))).unwrap_or_else(|_| "panic".to_string())
  });
}
