//! Shared by c13.rs / c15.rs: dumps a parsed `Module<()>` as the rose tree that
//! `lean/SamVerif/Model/Scope.lean` consumes, numbers `Location`s, and renders an
//! `SsaAnalysisResult` canonically (everything that came out of a HashMap/HashSet is sorted).
//! The dump follows the *AST structure* only; visiting order, scoping and define/use decisions are
//! taken by the model.
use samlang_ast::Location;
use samlang_ast::source::*;
use samlang_checker::SsaAnalysisResult;
use samlang_heap::{Heap, ModuleReference, PStr};
use std::collections::HashMap;
use std::fmt::Write;

pub struct Dumper<'a> {
  pub heap: &'a Heap,
  pub module_reference: ModuleReference,
  pub locs: HashMap<Location, usize>,
  pub loc_list: Vec<Location>,
  pub out: String,
  /// identifier occurrences of local variables: (loc id, name, is_binder)
  pub occurrences: Vec<(usize, String, bool)>,
  /// `E::LocalId` nodes whose expression location differs from the location of their identifier
  /// (everything that navigates by position relies on the two being equal)
  pub loc_mismatch: Vec<String>,
  /// (expression form, child position) pairs that directly hold a local-variable use
  pub var_positions: std::collections::BTreeSet<String>,
  /// type parameters in scope at the point being dumped (class parameters for the class header and
  /// its methods, a member's own parameters for that member; a static function sees only its own)
  pub tparam_scope: Vec<PStr>,
  /// annotation identifiers the parser classified against that rule: `T::Generic` of a name that is
  /// not a type parameter in scope, or a plain nominal `T::Id` of a name that is one
  pub tparam_mismatch: Vec<String>,
}

impl<'a> Dumper<'a> {
  pub fn new(heap: &'a Heap, module_reference: ModuleReference) -> Dumper<'a> {
    let mut d = Dumper {
      heap,
      module_reference,
      locs: HashMap::new(),
      loc_list: Vec::new(),
      out: String::new(),
      occurrences: Vec::new(),
      loc_mismatch: Vec::new(),
      var_positions: std::collections::BTreeSet::new(),
      tparam_scope: Vec::new(),
      tparam_mismatch: Vec::new(),
    };
    d.loc(&Location::dummy()); // id 0 = dummy
    d
  }

  pub fn loc(&mut self, l: &Location) -> usize {
    if let Some(i) = self.locs.get(l) {
      return *i;
    }
    let i = self.loc_list.len();
    self.locs.insert(*l, i);
    self.loc_list.push(*l);
    i
  }

  pub fn loc_str(&self, l: &Location) -> String {
    match self.locs.get(l) {
      Some(i) => i.to_string(),
      None => format!("?{}", l.pretty_print_without_file()),
    }
  }

  fn open(&mut self, tag: &str, name: Option<PStr>, loc: usize) {
    let n = match name {
      Some(p) => p.as_str(self.heap).to_string(),
      None => "-".to_string(),
    };
    write!(self.out, "( {tag} {n} {loc} ").unwrap();
  }
  fn close(&mut self) {
    self.out.push_str(") ");
  }
  fn leaf(&mut self, tag: &str, name: Option<PStr>, loc: usize) {
    self.open(tag, name, loc);
    self.close();
  }

  pub fn module(&mut self, m: &Module<()>) {
    self.open("module", None, 0);
    for import in &m.imports {
      for member in &import.imported_members {
        let l = self.loc(&member.loc);
        self.leaf("imp", Some(member.name), l);
      }
    }
    for t in &m.toplevels {
      self.toplevel(t);
    }
    self.close();
  }

  fn tparams(&mut self, tps: Option<&annotation::TypeParameters>) {
    self.open("tps", None, 0);
    for tp in tps.iter().flat_map(|it| &it.parameters) {
      let l = self.loc(&tp.name.loc);
      self.open("tp", Some(tp.name.name), l);
      if let Some(b) = &tp.bound {
        let bl = self.loc(&b.id.loc);
        self.open("bound", Some(b.id.name), bl);
        for a in b.type_arguments.iter().flat_map(|it| &it.arguments) {
          self.annot(a);
        }
        self.close();
      }
      self.close();
    }
    self.close();
  }

  fn member(&mut self, m: &ClassMemberDeclaration, body: Option<&expr::E<()>>) {
    let nl = self.loc(&m.name.loc);
    self.open(if m.is_method { "method" } else { "function" }, Some(m.name.name), nl);
    let l = self.loc(&m.loc);
    self.leaf("x", None, l);
    let saved_scope = self.tparam_scope.clone();
    if !m.is_method {
      self.tparam_scope.clear(); // a static function does not see the class's type parameters
    }
    for tp in m.type_parameters.iter().flat_map(|it| &it.parameters) {
      self.tparam_scope.push(tp.name.name);
    }
    self.tparams(m.type_parameters.as_ref());
    self.open("params", None, 0);
    for p in m.parameters.parameters.iter() {
      let pl = self.loc(&p.name.loc);
      self.occurrences.push((pl, p.name.name.as_str(self.heap).to_string(), true));
      self.open("p", Some(p.name.name), pl);
      self.annot(&p.annotation);
      self.close();
    }
    self.close();
    self.open("ret", None, 0);
    self.annot(&m.return_type);
    self.close();
    self.open("body", None, 0);
    if let Some(b) = body {
      self.expr(b);
    }
    self.close();
    self.close();
    self.tparam_scope = saved_scope;
  }

  fn toplevel(&mut self, t: &Toplevel<()>) {
    let nl = self.loc(&t.name().loc);
    self.open(if t.is_class() { "class" } else { "iface" }, Some(t.name().name), nl);
    let l = self.loc(&t.loc());
    self.leaf("x", None, l);
    self.tparam_scope = t.type_parameters().iter().flat_map(|it| &it.parameters).map(|tp| tp.name.name).collect();
    self.tparams(t.type_parameters());
    self.open("sups", None, 0);
    for s in t.extends_or_implements_nodes().iter().flat_map(|it| &it.nodes) {
      let sl = self.loc(&s.id.loc);
      self.open("sup", Some(s.id.name), sl);
      for a in s.type_arguments.iter().flat_map(|it| &it.arguments) {
        self.annot(a);
      }
      self.close();
    }
    self.close();
    match t.type_definition() {
      None => self.leaf("tdnone", None, 0),
      Some(TypeDefinition::Struct { fields, .. }) => {
        self.open("tdstruct", None, 0);
        for f in fields {
          let fl = self.loc(&f.name.loc);
          self.open("field", Some(f.name.name), fl);
          self.annot(&f.annotation);
          self.close();
        }
        self.close();
      }
      Some(TypeDefinition::Enum { variants, .. }) => {
        self.open("tdenum", None, 0);
        for v in variants {
          let vl = self.loc(&v.name.loc);
          self.open("variant", Some(v.name.name), vl);
          for a in v.associated_data_types.iter().flat_map(|it| &it.annotations) {
            self.annot(a);
          }
          self.close();
        }
        self.close();
      }
    }
    self.open("mems", None, 0);
    match t {
      Toplevel::Class(c) => {
        for m in &c.members.members {
          self.member(&m.decl, Some(&m.body));
        }
      }
      Toplevel::Interface(d) => {
        for m in &d.members.members {
          self.member(m, None);
        }
      }
    }
    self.close();
    self.close();
  }

  pub fn annot(&mut self, a: &annotation::T) {
    match a {
      annotation::T::Primitive(_, _, _) => self.leaf("seq", None, 0),
      annotation::T::Id(id) => {
        if id.type_arguments.is_none() && self.tparam_scope.contains(&id.id.name) {
          self.tparam_mismatch.push(format!(
            "{}@{}:type-parameter-parsed-as-class",
            id.id.name.as_str(self.heap),
            id.location.pretty_print_without_file()
          ));
        }
        if self.module_reference.eq(&id.module_reference) {
          let l = self.loc(&id.location);
          self.open("tyUse", Some(id.id.name), l);
        } else {
          self.open("seq", None, 0);
        }
        for t in id.type_arguments.iter().flat_map(|it| &it.arguments) {
          self.annot(t);
        }
        self.close();
      }
      annotation::T::Generic(_, id) => {
        if !self.tparam_scope.contains(&id.name) {
          self.tparam_mismatch.push(format!(
            "{}@{}:generic-not-a-type-parameter-in-scope",
            id.name.as_str(self.heap),
            id.loc.pretty_print_without_file()
          ));
        }
        let l = self.loc(&id.loc);
        self.leaf("tyUse", Some(id.name), l);
      }
      annotation::T::Fn(f) => {
        self.open("seq", None, 0);
        for p in &f.parameters.annotations {
          self.annot(p);
        }
        self.annot(&f.return_type);
        self.close();
      }
    }
  }

  pub fn pattern(&mut self, p: &pattern::MatchingPattern<()>) {
    match p {
      pattern::MatchingPattern::Tuple(t) => {
        self.open("seq", None, 0);
        for e in &t.elements {
          self.pattern(&e.pattern);
        }
        self.close();
      }
      pattern::MatchingPattern::Object { elements, .. } => {
        self.open("seq", None, 0);
        for e in elements {
          self.pattern(&e.pattern);
        }
        self.close();
      }
      pattern::MatchingPattern::Variant(v) => {
        self.open("seq", None, 0);
        if let Some(t) = &v.data_variables {
          for e in &t.elements {
            self.pattern(&e.pattern);
          }
        }
        self.close();
      }
      pattern::MatchingPattern::Id(id, ()) => {
        let l = self.loc(&id.loc);
        self.occurrences.push((l, id.name.as_str(self.heap).to_string(), true));
        self.leaf("pId", Some(id.name), l);
      }
      pattern::MatchingPattern::Wildcard { .. } => self.leaf("seq", None, 0),
      pattern::MatchingPattern::Or { patterns, .. } => {
        self.open("pOr", None, 0);
        for q in patterns {
          self.pattern(q);
        }
        self.close();
      }
    }
  }

  fn if_else(&mut self, e: &expr::IfElse<()>) {
    match e.condition.as_ref() {
      expr::IfElseCondition::Expression(g) => {
        self.open("seq", None, 0);
        self.expr(g);
      }
      expr::IfElseCondition::Guard(p, g) => {
        self.open("ifGuard", None, 0);
        self.pattern(p);
        self.expr(g);
      }
    }
    self.block(&e.e1);
    match e.e2.as_ref() {
      expr::IfElseOrBlock::IfElse(e) => self.if_else(e),
      expr::IfElseOrBlock::Block(b) => self.block(b),
    }
    self.close();
  }

  fn block(&mut self, b: &expr::Block<()>) {
    let l = self.loc(&b.common.loc);
    self.open("block", None, l);
    for s in &b.statements {
      match s {
        expr::Statement::Declaration(d) => {
          self.open("decl", None, 0);
          self.pattern(&d.pattern);
          match &d.annotation {
            Some(a) => self.annot(a),
            None => self.leaf("none", None, 0),
          }
          self.expr(&d.assigned_expression);
          self.close();
        }
        expr::Statement::Expression(e) => self.expr(e),
      }
    }
    if let Some(e) = &b.expression {
      self.expr(e);
    }
    self.close();
  }

  fn note(&mut self, form: &str, slot: &str, child: &expr::E<()>) {
    if matches!(child, expr::E::LocalId(_, _)) {
      self.var_positions.insert(format!("{form}.{slot}"));
    }
  }

  fn note_block(&mut self, form: &str, slot: &str, b: &expr::Block<()>) {
    if let Some(f) = &b.expression {
      self.note(form, slot, f);
    }
  }

  pub fn expr(&mut self, e: &expr::E<()>) {
    // which child positions of which expression forms hold a variable use (coverage of the families)
    match e {
      expr::E::Literal(_, _) | expr::E::LocalId(_, _) | expr::E::ClassId(_, _, _) => {}
      expr::E::Tuple(_, es) => {
        for x in &es.expressions {
          self.note("Tuple", "element", x);
        }
      }
      expr::E::FieldAccess(f) => self.note("FieldAccess", "object", &f.object),
      expr::E::MethodAccess(f) => self.note("MethodAccess", "object", &f.object),
      expr::E::Unary(u) => self.note("Unary", "argument", &u.argument),
      expr::E::Call(c) => {
        self.note("Call", "callee", &c.callee);
        for a in &c.arguments.expressions {
          self.note("Call", "argument", a);
        }
      }
      expr::E::Binary(b) => {
        self.note("Binary", "e1", &b.e1);
        self.note("Binary", "e2", &b.e2);
      }
      expr::E::IfElse(i) => {
        match i.condition.as_ref() {
          expr::IfElseCondition::Expression(g) => self.note("IfElse", "condition", g),
          expr::IfElseCondition::Guard(_, g) => self.note("IfElse", "guard-matched", g),
        }
        self.note_block("IfElse", "then", &i.e1);
        if let expr::IfElseOrBlock::Block(b) = i.e2.as_ref() {
          self.note_block("IfElse", "else", b);
        }
      }
      expr::E::Match(m) => {
        self.note("Match", "matched", &m.matched);
        for c in &m.cases {
          self.note("Match", "case-body", &c.body);
        }
      }
      expr::E::Lambda(l) => self.note("Lambda", "body", &l.body),
      expr::E::Block(b) => {
        for st in &b.statements {
          match st {
            expr::Statement::Declaration(d) => self.note("Block", "let-value", &d.assigned_expression),
            expr::Statement::Expression(x) => self.note("Block", "statement", x),
          }
        }
        self.note_block("Block", "final", b);
      }
    }
    match e {
      expr::E::Literal(_, _) | expr::E::ClassId(_, _, _) => self.leaf("seq", None, 0),
      expr::E::LocalId(common, id) => {
        if common.loc != id.loc {
          self.loc_mismatch.push(format!(
            "{}:expr@{}/id@{}",
            id.name.as_str(self.heap),
            common.loc.pretty_print_without_file(),
            id.loc.pretty_print_without_file()
          ));
        }
        let l = self.loc(&id.loc);
        self.occurrences.push((l, id.name.as_str(self.heap).to_string(), false));
        self.leaf("var", Some(id.name), l);
      }
      expr::E::Tuple(_, es) => {
        self.open("seq", None, 0);
        for x in &es.expressions {
          self.expr(x);
        }
        self.close();
      }
      expr::E::FieldAccess(f) => {
        self.open("seq", None, 0);
        self.expr(&f.object);
        for t in f.explicit_type_arguments.iter().flat_map(|it| &it.arguments) {
          self.annot(t);
        }
        self.close();
      }
      expr::E::MethodAccess(f) => {
        self.open("seq", None, 0);
        self.expr(&f.object);
        for t in f.explicit_type_arguments.iter().flat_map(|it| &it.arguments) {
          self.annot(t);
        }
        self.close();
      }
      expr::E::Unary(u) => {
        self.open("seq", None, 0);
        self.expr(&u.argument);
        self.close();
      }
      expr::E::Call(c) => {
        self.open("seq", None, 0);
        self.expr(&c.callee);
        for a in &c.arguments.expressions {
          self.expr(a);
        }
        self.close();
      }
      expr::E::Binary(b) => {
        self.open("seq", None, 0);
        self.expr(&b.e1);
        self.expr(&b.e2);
        self.close();
      }
      expr::E::IfElse(i) => self.if_else(i),
      expr::E::Match(m) => {
        self.open("seq", None, 0);
        self.expr(&m.matched);
        for c in &m.cases {
          let l = self.loc(&c.loc);
          self.open("case", None, l);
          self.pattern(&c.pattern);
          self.expr(&c.body);
          self.close();
        }
        self.close();
      }
      expr::E::Lambda(lam) => {
        let l = self.loc(&lam.common.loc);
        self.open("lambda", None, l);
        for p in &lam.parameters.parameters {
          let pl = self.loc(&p.name.loc);
          self.occurrences.push((pl, p.name.name.as_str(self.heap).to_string(), true));
          self.open("param", Some(p.name.name), pl);
          if let Some(a) = &p.annotation {
            self.annot(a);
          }
          self.close();
        }
        self.expr(&lam.body);
        self.close();
      }
      expr::E::Block(b) => self.block(b),
    }
  }

  /// Canonical rendering of the implementation's analysis result.
  pub fn render(&self, r: &SsaAnalysisResult, errors: &samlang_errors::ErrorSet) -> String {
    let heap = self.heap;
    let mut unbound: Vec<String> = r.unbound_names.iter().map(|n| n.as_str(heap).to_string()).collect();
    unbound.sort();
    let mut invalid: Vec<String> = r.invalid_defines.iter().map(|l| self.loc_str(l)).collect();
    invalid.sort();
    let mut usedef: Vec<String> =
      r.use_define_map.iter().map(|(u, d)| format!("{}>{}", self.loc_str(u), self.loc_str(d))).collect();
    usedef.sort();
    let mut d2u: Vec<String> = r
      .def_to_use_map
      .iter()
      .map(|(d, us)| {
        let mut us: Vec<String> = us.iter().map(|l| self.loc_str(l)).collect();
        us.sort();
        format!("{}:{}", self.loc_str(d), us.join("+"))
      })
      .collect();
    d2u.sort();
    let scope = |m: &HashMap<PStr, Location>| {
      let mut v: Vec<String> =
        m.iter().map(|(n, l)| format!("{}={}", n.as_str(heap), self.loc_str(l))).collect();
      v.sort();
      v.join("+")
    };
    let mut scoped: Vec<String> =
      r.local_scoped_def_locs.iter().map(|(l, m)| format!("{}:{}", self.loc_str(l), scope(m))).collect();
    scoped.sort();
    let mut caps: Vec<String> =
      r.lambda_captures.iter().map(|(l, m)| format!("{}:{}", self.loc_str(l), scope(m))).collect();
    caps.sort();
    let mut errs: Vec<String> = errors
      .errors()
      .iter()
      .map(|e| match &e.detail {
        samlang_errors::ErrorDetail::NameAlreadyBound { name, old_loc } => {
          format!("B{}/{}/{}", self.loc_str(&e.location), name.as_str(heap), self.loc_str(old_loc))
        }
        samlang_errors::ErrorDetail::CannotResolveName { name } => {
          format!("R{}/{}", self.loc_str(&e.location), name.as_str(heap))
        }
        _ => format!("X{}", self.loc_str(&e.location)),
      })
      .collect();
    errs.sort();
    format!(
      "U[{}] I[{}] M[{}] D[{}] S[{}] C[{}] E[{}]",
      unbound.join(","),
      invalid.join(","),
      usedef.join(","),
      d2u.join(","),
      scoped.join(","),
      caps.join(","),
      errs.join(",")
    )
  }
}
