//! Real-execution oracle shared by C01/C03/C04/C12/C13/C15/C18: compile a set of samlang modules
//! in-process with the real compiler, write the emitted files to a scratch directory and run the
//! WebAssembly and TypeScript outputs under Node >= 22.
use samlang_heap::{Heap, ModuleReference};
use std::collections::HashMap;
use std::io::Write;
use std::path::{Path, PathBuf};
use std::process::{Command, Stdio};
use std::time::Duration;

pub struct Compiled {
  pub ts: String,
  pub wasm_js: String,
  pub loader: String,
  pub wat: String,
  pub wasm: Vec<u8>,
}

pub enum CompileOutcome {
  Ok(Compiled),
  /// checker/parser rejected: rendered diagnostics
  Errors(String),
  /// the compiler itself panicked
  Panic(String),
}

/// `sources`: (dotted module name, text). Std library modules are added like the CLI does.
pub fn compile_program(sources: &[(String, String)], entry: &str, with_std: bool) -> CompileOutcome {
  let sources = sources.to_vec();
  let entry = entry.to_string();
  let r = std::panic::catch_unwind(move || {
    let heap = &mut Heap::new();
    let mut handles: HashMap<ModuleReference, String> = HashMap::new();
    if with_std {
      for (m, s) in samlang_parser::builtin_std_raw_sources(heap) {
        handles.insert(m, s);
      }
    }
    let mut entry_ref = None;
    for (name, text) in &sources {
      let parts: Vec<String> = name.split('.').map(|s| s.to_string()).collect();
      let m = heap.alloc_module_reference_from_string_vec(parts);
      if *name == entry {
        entry_ref = Some(m);
      }
      handles.insert(m, text.clone());
    }
    let entry_ref = entry_ref.expect("entry module must be among the sources");
    match samlang_compiler::compile_sources(heap, handles, vec![entry_ref], false) {
      Err(e) => Err(e),
      Ok(res) => {
        let get = |k: &str| res.text_code_results.get(k).cloned().unwrap_or_default();
        Ok(Compiled {
          ts: get(&format!("{entry}.ts")),
          wasm_js: get(&format!("{entry}.wasm.js")),
          loader: get("__samlang_loader__.js"),
          wat: get("__all__.wat"),
          wasm: res.wasm_file,
        })
      }
    }
  });
  match r {
    Ok(Ok(c)) => CompileOutcome::Ok(c),
    Ok(Err(e)) => CompileOutcome::Errors(e),
    Err(e) => CompileOutcome::Panic(crate::util::panic_msg(&e)),
  }
}

pub fn find_node() -> Option<PathBuf> {
  let mut cands: Vec<PathBuf> = Vec::new();
  if let Ok(rd) = std::fs::read_dir("/root/.nvm/versions/node") {
    for e in rd.flatten() {
      let name = e.file_name().to_string_lossy().to_string();
      let major: u32 =
        name.trim_start_matches('v').split('.').next().and_then(|x| x.parse().ok()).unwrap_or(0);
      if major >= 22 {
        cands.push(e.path().join("bin/node"));
      }
    }
  }
  cands.sort();
  cands.pop().filter(|p| p.exists())
}

#[derive(Debug, Clone, PartialEq, Eq)]
pub struct RunResult {
  pub lines: Vec<String>,
  /// ok | panic:<msg> | trap:<msg> | stack-overflow | timeout | load-error:<msg> | no-node
  pub end: String,
}

const HOOK_JS: &str = r#"
// preloaded with `node -r`: turns the way the program ends into one canonical last line
let done = false;
function finish(s) { if (!done) { done = true; process.stdout.write("\n@@END " + s.replace(/\n/g, "\\n") + "\n"); } }
process.on('uncaughtException', (e) => {
  if (e instanceof RangeError) finish('stack-overflow');
  else if (typeof WebAssembly !== 'undefined' && e instanceof WebAssembly.RuntimeError) finish('trap:' + e.message);
  else if (typeof WebAssembly !== 'undefined' && (e instanceof WebAssembly.CompileError || e instanceof WebAssembly.LinkError)) finish('load-error:' + e.message);
  else if (e instanceof SyntaxError || e instanceof ReferenceError || e instanceof TypeError) finish('load-error:' + e.name + ': ' + e.message);
  else if (e instanceof Error) finish('panic:' + e.message);
  else finish('panic:' + String(e));
  process.exit(0);
});
process.on('exit', () => finish('ok'));
"#;

fn run_node(node: &Path, dir: &Path, args: &[&str], timeout: Duration) -> RunResult {
  let mut cmd = Command::new(node);
  cmd.current_dir(dir).arg("--stack-size=4000").arg("-r").arg("./__hook__.js");
  for a in args {
    cmd.arg(a);
  }
  cmd.stdin(Stdio::null()).stdout(Stdio::piped()).stderr(Stdio::piped());
  let mut child = match cmd.spawn() {
    Ok(c) => c,
    Err(e) => return RunResult { lines: vec![], end: format!("no-node:{e}") },
  };
  // Drain both pipes while the child runs: a program that prints more than the pipe buffer (64 KiB)
  // would otherwise block in write() until the timeout (node writes to pipes asynchronously and then
  // sits in its event loop) and be misreported as `timeout`.
  use std::io::Read;
  let mut so = child.stdout.take();
  let mut se = child.stderr.take();
  let t_out = std::thread::spawn(move || {
    let mut buf = Vec::new();
    if let Some(s) = so.as_mut() {
      let _ = s.read_to_end(&mut buf);
    }
    buf
  });
  let t_err = std::thread::spawn(move || {
    let mut buf = Vec::new();
    if let Some(s) = se.as_mut() {
      let _ = s.read_to_end(&mut buf);
    }
    buf
  });
  let start = std::time::Instant::now();
  let mut timed_out = false;
  loop {
    match child.try_wait() {
      Ok(Some(_)) => break,
      Ok(None) => {
        if start.elapsed() > timeout {
          let _ = child.kill();
          let _ = child.wait();
          timed_out = true;
          break;
        }
        std::thread::sleep(Duration::from_millis(5));
      }
      Err(_) => break,
    }
  }
  let stdout = String::from_utf8_lossy(&t_out.join().unwrap_or_default()).to_string();
  let stderr = String::from_utf8_lossy(&t_err.join().unwrap_or_default()).to_string();
  let mut lines: Vec<String> = stdout.split('\n').map(|s| s.to_string()).collect();
  if lines.last().map(|l| l.is_empty()).unwrap_or(false) {
    lines.pop();
  }
  let mut end = if timed_out { "timeout".to_string() } else { String::new() };
  if let Some(pos) = lines.iter().rposition(|l| l.starts_with("@@END ")) {
    if !timed_out {
      end = lines[pos][6..].to_string();
    }
    lines.truncate(pos);
    // the hook writes "\n@@END": drop the empty line it introduced
    if lines.last().map(|l| l.is_empty()).unwrap_or(false) {
      lines.pop();
    }
  } else if !timed_out {
    // node died without the hook firing (e.g. a syntax error in a .ts file found before execution)
    let first = stderr.lines().find(|l| l.contains("Error")).unwrap_or("").to_string();
    end = format!("load-error:{first}");
  }
  RunResult { lines, end }
}

pub struct Runs {
  pub wasm: RunResult,
  pub ts: RunResult,
}

/// Writes the emitted files into `dir` (created, removed afterwards) and runs both backends.
pub fn run_compiled(c: &Compiled, dir: &Path, timeout: Duration, run_ts: bool) -> Runs {
  let none = RunResult { lines: vec![], end: "no-node".to_string() };
  let Some(node) = find_node() else { return Runs { wasm: none.clone(), ts: none } };
  let _ = std::fs::create_dir_all(dir);
  let w = |name: &str, data: &[u8]| {
    let mut f = std::fs::File::create(dir.join(name)).unwrap();
    f.write_all(data).unwrap();
  };
  w("__hook__.js", HOOK_JS.as_bytes());
  w("__samlang_loader__.js", c.loader.as_bytes());
  w("__all__.wasm", &c.wasm);
  w("main.wasm.js", c.wasm_js.as_bytes());
  w("main.ts", c.ts.as_bytes());
  // samlang-level coverage measurement (vlib/coverage_sam.py): keep a copy of the emitted TypeScript
  // under $SAMVERIF_SAM_COV/src/<path with '/' -> '_'> so that V8 coverage offsets (NODE_V8_COVERAGE,
  // inherited by the node processes below) can be mapped back to text after `dir` is removed.
  if let Some(d) = std::env::var_os("SAMVERIF_SAM_COV") {
    let keep = Path::new(&d).join("src");
    let _ = std::fs::create_dir_all(&keep);
    let name = dir.join("main.ts").to_string_lossy().replace('/', "_");
    let _ = std::fs::write(keep.join(name), c.ts.as_bytes());
  }
  let wasm = run_node(&node, dir, &["main.wasm.js"], timeout);
  let ts = if run_ts {
    run_node(&node, dir, &["--experimental-strip-types", "--no-warnings", "main.ts"], timeout)
  } else {
    RunResult { lines: vec![], end: "skipped".to_string() }
  };
  let _ = std::fs::remove_dir_all(dir);
  Runs { wasm, ts }
}

/// Multi-entry mode (added for C01): writes an arbitrary set of emitted text files plus
/// `__all__.wasm` into `dir` and runs every launcher `<entry>.wasm.js` (and `<entry>.ts`).
/// Returns (entry, wasm run, ts run) per entry, in the given order.
pub fn run_emitted_entries(
  files: &std::collections::BTreeMap<String, String>,
  wasm: &[u8],
  entries: &[String],
  dir: &Path,
  timeout: Duration,
  run_ts: bool,
) -> Vec<(String, RunResult, RunResult)> {
  let none = RunResult { lines: vec![], end: "no-node".to_string() };
  let Some(node) = find_node() else {
    return entries.iter().map(|e| (e.clone(), none.clone(), none.clone())).collect();
  };
  let _ = std::fs::create_dir_all(dir);
  let w = |name: &str, data: &[u8]| {
    let mut f = std::fs::File::create(dir.join(name)).unwrap();
    f.write_all(data).unwrap();
  };
  w("__hook__.js", HOOK_JS.as_bytes());
  w("__all__.wasm", wasm);
  for (name, text) in files {
    w(name, text.as_bytes());
  }
  let mut out = Vec::new();
  for e in entries {
    let wasm_run = run_node(&node, dir, &[&format!("{e}.wasm.js")], timeout);
    let ts_run = if run_ts {
      run_node(&node, dir, &["--experimental-strip-types", "--no-warnings", &format!("{e}.ts")], timeout)
    } else {
      RunResult { lines: vec![], end: "skipped".to_string() }
    };
    out.push((e.clone(), wasm_run, ts_run));
  }
  let _ = std::fs::remove_dir_all(dir);
  out
}

pub fn scratch_dir(tag: &str, n: usize) -> PathBuf {
  PathBuf::from(format!("/scratch/samverif-{}-{}/{}", tag, std::process::id(), n))
}

pub fn cleanup_scratch(tag: &str) {
  let _ = std::fs::remove_dir_all(format!("/scratch/samverif-{}-{}", tag, std::process::id()));
}
