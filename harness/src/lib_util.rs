#![allow(dead_code)]
use std::io::{BufRead, Write};

pub fn hex(bytes: &[u8]) -> String {
  if bytes.is_empty() {
    return "-".to_string();
  }
  let mut s = String::with_capacity(bytes.len() * 2);
  for b in bytes {
    s.push_str(&format!("{b:02x}"));
  }
  s
}

pub fn unhex(s: &str) -> Vec<u8> {
  if s == "-" {
    return Vec::new();
  }
  (0..s.len() / 2).map(|i| u8::from_str_radix(&s[2 * i..2 * i + 2], 16).unwrap()).collect()
}

pub fn unhex_str(s: &str) -> String {
  String::from_utf8(unhex(s)).expect("protocol strings are valid UTF-8")
}

/// Calls `f` for every stdin line and prints its answer; flushes at the end.
pub fn for_each_line(mut f: impl FnMut(&str) -> String) {
  let stdin = std::io::stdin();
  let stdout = std::io::stdout();
  let mut out = std::io::BufWriter::new(stdout.lock());
  for line in stdin.lock().lines() {
    let line = line.unwrap();
    let line = line.trim_end();
    if line.is_empty() {
      continue;
    }
    let ans = f(line);
    writeln!(out, "{ans}").unwrap();
  }
  out.flush().unwrap();
}

/// Extracts the panic message of a caught panic payload.
pub fn panic_msg(e: &Box<dyn std::any::Any + Send>) -> String {
  if let Some(s) = e.downcast_ref::<&str>() {
    s.to_string()
  } else if let Some(s) = e.downcast_ref::<String>() {
    s.clone()
  } else {
    "?".to_string()
  }
}
