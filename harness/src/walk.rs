//! `Walk`: collect every `PStr` reachable from a value. Impls for containers and leaf types are
//! here; impls for the AST / type / signature definitions are GENERATED from /repo's source by
//! /verif/extract/c11_walker.py into gen_walker.rs (exhaustive over fields and variants).
use samlang_heap::PStr;
use std::collections::{BTreeMap, HashMap, HashSet};
use std::rc::Rc;
use std::sync::Arc;

pub trait Walk {
  fn walk(&self, out: &mut Vec<PStr>);
}

impl Walk for PStr {
  fn walk(&self, out: &mut Vec<PStr>) {
    out.push(*self);
  }
}

macro_rules! leaf {
  ($($t:ty),* $(,)?) => { $(impl Walk for $t { fn walk(&self, _out: &mut Vec<PStr>) {} })* };
}
// types that carry no heap string
leaf!(
  (), bool, u8, u32, u64, usize, i32, i64, String,
  samlang_ast::Location, samlang_ast::Position, samlang_ast::Reason,
  samlang_heap::ModuleReference,
  samlang_ast::source::CommentReference,
);

impl<T: Walk> Walk for Vec<T> {
  fn walk(&self, out: &mut Vec<PStr>) {
    for x in self {
      x.walk(out);
    }
  }
}
impl<T: Walk> Walk for Option<T> {
  fn walk(&self, out: &mut Vec<PStr>) {
    if let Some(x) = self {
      x.walk(out);
    }
  }
}
impl<T: Walk + ?Sized> Walk for Box<T> {
  fn walk(&self, out: &mut Vec<PStr>) {
    (**self).walk(out);
  }
}
impl<T: Walk + ?Sized> Walk for Arc<T> {
  fn walk(&self, out: &mut Vec<PStr>) {
    (**self).walk(out);
  }
}
impl<T: Walk + ?Sized> Walk for Rc<T> {
  fn walk(&self, out: &mut Vec<PStr>) {
    (**self).walk(out);
  }
}
impl<A: Walk, B: Walk> Walk for (A, B) {
  fn walk(&self, out: &mut Vec<PStr>) {
    self.0.walk(out);
    self.1.walk(out);
  }
}
impl<A: Walk, B: Walk, C: Walk> Walk for (A, B, C) {
  fn walk(&self, out: &mut Vec<PStr>) {
    self.0.walk(out);
    self.1.walk(out);
    self.2.walk(out);
  }
}
impl<K: Walk, V: Walk> Walk for HashMap<K, V> {
  fn walk(&self, out: &mut Vec<PStr>) {
    for (k, v) in self {
      k.walk(out);
      v.walk(out);
    }
  }
}
impl<K: Walk, V: Walk> Walk for BTreeMap<K, V> {
  fn walk(&self, out: &mut Vec<PStr>) {
    for (k, v) in self {
      k.walk(out);
      v.walk(out);
    }
  }
}
impl<K: Walk> Walk for HashSet<K> {
  fn walk(&self, out: &mut Vec<PStr>) {
    for k in self {
      k.walk(out);
    }
  }
}

// hand-written: private fields
impl Walk for samlang_ast::source::CommentStore {
  fn walk(&self, out: &mut Vec<PStr>) {
    self.all_comments().walk(out);
  }
}
