#!/usr/bin/env python3
"""Translator for C11's coverage check: reads the type definitions of the source AST
(`crates/samlang-ast/src/source.rs`) and of the checker's types/signatures
(`crates/samlang-checker/src/type_.rs`) from /repo's CURRENT source and generates
`harness/src/gen_walker.rs`: an exhaustive `Walk` impl for every struct/enum, which collects every
`PStr` reachable from a value.  Every field of every variant is visited by name / position, so a
field added to the AST later is part of the reachable set automatically; a type without a `Walk`
impl (a new leaf type) makes the harness build fail loudly (= broken tie, handled by the check).

The harness uses it to compute `reach` = every heap string id the language-server state holds
(parsed modules, checked modules, global signatures; errors via their `Debug` form), which the Lean
driver checks against the marks of the real GC round: the hypothesis `Cov` of `gc_safe`, evaluated
exactly instead of assumed.
"""
import os, re, sys

REPO = os.environ.get("SAMVERIF_REPO", "/repo")
OUT = os.path.join(os.path.dirname(os.path.dirname(os.path.abspath(__file__))), "harness", "src", "gen_walker.rs")

FILES = [
    ("samlang_ast::source", os.path.join(REPO, "crates/samlang-ast/src/source.rs")),
    ("samlang_checker::type_", os.path.join(REPO, "crates/samlang-checker/src/type_.rs")),
]
# types with private fields (hand-written impls in harness/src/walk.rs) or not data (skipped)
MANUAL = {"samlang_ast::source::CommentStore", "samlang_ast::source::CommentReference"}
SKIP_PREFIX = ("samlang_ast::source::test_builder", "samlang_checker::type_::test_type_builder")
SKIP = {"samlang_ast::source::MemberDeclarationsIterator"}


def strip_comments(src):
    src = re.sub(r"//[^\n]*", "", src)
    src = re.sub(r"/\*.*?\*/", "", src, flags=re.S)
    return src


def match_brace(s, i, open_c="{", close_c="}"):
    depth = 0
    for j in range(i, len(s)):
        if s[j] == open_c:
            depth += 1
        elif s[j] == close_c:
            depth -= 1
            if depth == 0:
                return j
    raise SystemExit("c11_walker: unbalanced braces")


def split_top(s, sep=","):
    parts, depth, cur = [], 0, ""
    for ch in s:
        if ch in "<({[":
            depth += 1
        elif ch in ">)}]":
            depth -= 1
        if ch == sep and depth == 0:
            parts.append(cur); cur = ""
        else:
            cur += ch
    if cur.strip():
        parts.append(cur)
    return [p.strip() for p in parts if p.strip()]


def parse_items(src, modpath, out):
    """Collect struct/enum definitions (recursing into `pub mod x { }`) of one file."""
    i = 0
    pat = re.compile(r"\b(pub(?:\([a-z]+\))?\s+)?(mod|struct|enum)\s+([A-Za-z_][A-Za-z0-9_]*)")
    while True:
        m = pat.search(src, i)
        if not m:
            return
        vis, kind, name = m.group(1), m.group(2), m.group(3)
        j = m.end()
        # generics
        gen = ""
        k = j
        while k < len(src) and src[k].isspace():
            k += 1
        if k < len(src) and src[k] == "<":
            e = match_brace(src, k, "<", ">")
            gen = src[k + 1:e]; k = e + 1
        while k < len(src) and src[k].isspace():
            k += 1
        if kind == "mod":
            if k < len(src) and src[k] == "{":
                e = match_brace(src, k)
                if not (src[max(0, m.start() - 40):m.start()].rstrip().endswith("#[cfg(test)]")) and name != "tests":
                    parse_items(src[k + 1:e], modpath + "::" + name, out)
                i = e + 1
            else:
                i = k
            continue
        full = modpath + "::" + name
        if kind == "struct":
            if src[k] == "{":
                e = match_brace(src, k)
                fields = []
                for f in split_top(src[k + 1:e]):
                    f = re.sub(r"#\[[^\]]*\]", "", f).strip()
                    fm = re.match(r"(pub(?:\([a-z]+\))?\s+)?([A-Za-z_][A-Za-z0-9_]*)\s*:", f)
                    if not fm:
                        raise SystemExit(f"c11_walker: cannot read field `{f[:60]}` of {full}")
                    fields.append((fm.group(2), bool(fm.group(1) and fm.group(1).strip() == "pub")))
                out.append(("struct", full, gen, fields))
                i = e + 1
            elif src[k] == "(":
                e = match_brace(src, k, "(", ")")
                fields = []
                for n, f in enumerate(split_top(src[k + 1:e])):
                    fields.append((str(n), f.startswith("pub ")))
                out.append(("tuple", full, gen, fields))
                i = e + 1
            else:
                out.append(("struct", full, gen, []))
                i = k + 1
        else:
            e = match_brace(src, k)
            variants = []
            for v in split_top(src[k + 1:e]):
                v = re.sub(r"#\[[^\]]*\]", "", v).strip()
                vm = re.match(r"([A-Za-z_][A-Za-z0-9_]*)\s*(.*)$", v, re.S)
                vname, rest = vm.group(1), vm.group(2).strip()
                if rest.startswith("("):
                    n = len(split_top(rest[1:match_brace(rest, 0, "(", ")")]))
                    variants.append((vname, "tuple", n))
                elif rest.startswith("{"):
                    names = []
                    for f in split_top(rest[1:match_brace(rest, 0)]):
                        names.append(re.match(r"([A-Za-z_][A-Za-z0-9_]*)\s*:", f.strip()).group(1))
                    variants.append((vname, "struct", names))
                else:
                    variants.append((vname, "unit", 0))
            out.append(("enum", full, gen, variants))
            i = e + 1


def gen_params(gen):
    """('<T: Clone>' body) -> (impl generics with Walk bound, type args)"""
    if not gen.strip():
        return "", ""
    names, decls = [], []
    for p in split_top(gen):
        if p.startswith("'"):
            names.append(p); decls.append(p); continue
        n = p.split(":")[0].strip()
        bound = p.split(":", 1)[1].strip() if ":" in p else ""
        names.append(n)
        decls.append(f"{n}: {bound + ' + ' if bound else ''}Walk")
    return "<" + ", ".join(decls) + ">", "<" + ", ".join(names) + ">"


def main():
    items = []
    for modpath, path in FILES:
        src = strip_comments(open(path, encoding="utf-8").read())
        # drop #[cfg(test)] mod ... { } blocks at the end
        parse_items(src, modpath, items)
    lines = ["// GENERATED by /verif/extract/c11_walker.py from /repo's current source — do not edit.",
             "#![allow(unused_variables, clippy::all)]", "use crate::walk::Walk;", "use samlang_heap::PStr;", ""]
    n = 0
    for kind, full, gen, body in items:
        if full in MANUAL or full in SKIP or full.startswith(SKIP_PREFIX) or "'" in gen:
            continue
        ig, ta = gen_params(gen)
        if kind in ("struct", "tuple"):
            priv = [f for f, pub in body if not pub]
            if priv:
                raise SystemExit(f"c11_walker: {full} has non-pub fields {priv}: needs a hand-written Walk impl (add to MANUAL + harness/src/walk.rs)")
            stmts = "".join(f" self.{f}.walk(out);" for f, _ in body)
            lines.append(f"impl{ig} Walk for {full}{ta} {{ fn walk(&self, out: &mut Vec<PStr>) {{{stmts} }} }}")
        else:
            arms = []
            for vname, vk, info in body:
                if vk == "unit":
                    arms.append(f"      {full}::{vname} => {{}}")
                elif vk == "tuple":
                    vs = [f"a{k}" for k in range(info)]
                    arms.append(f"      {full}::{vname}({', '.join(vs)}) => {{{''.join(f' {v}.walk(out);' for v in vs)} }}")
                else:
                    arms.append(f"      {full}::{vname} {{ {', '.join(info)} }} => {{{''.join(f' {v}.walk(out);' for v in info)} }}")
            lines.append(f"impl{ig} Walk for {full}{ta} {{\n  fn walk(&self, out: &mut Vec<PStr>) {{\n    match self {{\n" + ",\n".join(arms) + "\n    }\n  }\n}")
        n += 1
    new = "\n".join(lines) + "\n"
    old = open(OUT, encoding="utf-8").read() if os.path.exists(OUT) else ""
    if new != old:
        open(OUT, "w", encoding="utf-8").write(new)
    print(f"c11_walker: {n} Walk impls generated from {len(FILES)} files")


if __name__ == "__main__":
    main()
