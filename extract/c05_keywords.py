#!/usr/bin/env python3
"""C05/C14 translator: reads the token tables of the lexer from /repo and writes
lean/SamVerif/Generated/Keywords.lean (the tables the scanner model `Model/Lexer.lean` matches
against, and therefore the terms the C05/C14 theorems are about).

Read from crates/samlang-parser/src/lexer.rs:
  enum LogosToken            `#[token("lit")] Variant` entries and the three `#[regex(..)]` entries
  WrappedLogosLexer::next_token   `LogosToken::Variant => Some(self.translate_{keyword,op}_token(K::X))`
  Keyword::as_str / TokenOp::as_str   `K::X => "text"`
Output: keywords / operators : List (source literal, printed text), as explicit byte lists.
Fails loudly (exit 2, names the construct) if the source no longer has the expected shape, in
particular if the three regexes are not exactly the ones the model hard-codes.
Deliberately dumb: anchored regexes over one block each.
"""
import os, re, sys

REGEXES = {"UpperId": "[A-Z][A-Za-z0-9]*", "LowerId": "[a-z][A-Za-z0-9]*", "Int": "0|([1-9][0-9]*)"}


class Shape(Exception):
    pass


def block(text, anchor, what):
    i = text.find(anchor)
    if i < 0:
        raise Shape(f"{what}: anchor `{anchor}` not found")
    j = text.find("{", i)
    depth, k = 0, j
    while k < len(text):
        if text[k] == "{":
            depth += 1
        elif text[k] == "}":
            depth -= 1
            if depth == 0:
                return text[j + 1:k]
        k += 1
    raise Shape(f"{what}: unbalanced braces")


def rust_str(s, what):
    if "\\" in s:
        raise Shape(f"{what}: escape sequence in literal {s!r} not supported by the translator")
    return s


def extract(repo):
    src = open(os.path.join(repo, "crates/samlang-parser/src/lexer.rs"), encoding="utf-8").read()
    enum = block(src, "enum LogosToken", "LogosToken")
    # strip comments
    enum = re.sub(r"//[^\n]*", "", enum)
    lits, regexes = {}, {}
    pos = 0
    for m in re.finditer(r"#\[(token|regex)\(\"((?:[^\"\\]|\\.)*)\"([^\]]*)\)\]\s*(\w+)\s*,", enum):
        if enum[pos:m.start()].strip():
            raise Shape(f"LogosToken: unreadable entry near {enum[pos:m.start()].strip()[:60]!r}")
        pos = m.end()
        kind, lit, extra, variant = m.groups()
        if extra.strip():
            raise Shape(f"LogosToken::{variant}: attribute arguments {extra.strip()!r} (priority/callback/ignore) are not modelled")
        if kind == "token":
            lits[variant] = rust_str(lit, f"LogosToken::{variant}")
        else:
            regexes[variant] = lit
    if enum[pos:].strip():
        raise Shape(f"LogosToken: unreadable tail {enum[pos:].strip()[:60]!r}")
    if regexes != REGEXES:
        raise Shape(f"LogosToken regex entries changed: {regexes!r} (model hard-codes {REGEXES!r})")
    if re.search(r"#\[logos\(", src):
        raise Shape("a #[logos(...)] attribute (skip/extras/error) appeared; not modelled")
    nt = block(src, "fn next_token(&mut self, heap: &mut Heap, error_set: &mut ErrorSet) -> Option<Token>", "WrappedLogosLexer::next_token")
    kwmap, opmap = {}, {}
    for m in re.finditer(r"LogosToken::(\w+)\s*=>\s*\{?\s*Some\(self\.translate_(keyword|op)_token\((Keyword|TokenOp)::(\w+)\)\)", nt):
        (kwmap if m.group(2) == "keyword" else opmap)[m.group(1)] = m.group(4)
    for v in lits:
        if v not in kwmap and v not in opmap:
            raise Shape(f"next_token: no translate arm found for LogosToken::{v}")
    for v in REGEXES:
        if not re.search(r"LogosToken::" + v + r"\s*=>\s*\{", nt):
            raise Shape(f"next_token: no arm for LogosToken::{v}")

    def as_str(impl, name):
        i = src.find(f"impl {impl} ")
        if i < 0:
            raise Shape(f"impl {impl} not found")
        b = block(src[i:], "fn as_str(&self) -> &'static str", f"{impl}::as_str")
        return {m.group(1): rust_str(m.group(2), f"{impl}::as_str") for m in re.finditer(impl + r"::(\w+)\s*=>\s*\"((?:[^\"\\]|\\.)*)\"", b)}

    kwstr, opstr = as_str("Keyword", "Keyword"), as_str("TokenOp", "TokenOp")
    kws, ops = [], []
    for v, lit in lits.items():
        if v in kwmap:
            if kwmap[v] not in kwstr:
                raise Shape(f"Keyword::as_str: no arm for {kwmap[v]}")
            kws.append((lit, kwstr[kwmap[v]]))
        else:
            if opmap[v] not in opstr:
                raise Shape(f"TokenOp::as_str: no arm for {opmap[v]}")
            ops.append((lit, opstr[opmap[v]]))
    if not kws or not ops:
        raise Shape("empty keyword or operator table")
    # post_process_block_comment: is the ` * ` decoration star stripped on every line (original) or only on
    # continuation lines, index > 0 (repair of C09-F9)?  The scanner model has both variants.
    pp = block(src, "fn post_process_block_comment(block_comment: &str) -> String", "post_process_block_comment")
    m_enum = re.search(r"\.enumerate\(\)\s*\.map\(\|\((\w+), line\)\|", pp)
    if m_enum and re.search(r"if " + m_enum.group(1) + r" > 0 && l\.starts_with\('\*'\) \{", pp):
        star_cont_only = True
    elif re.search(r"\.map\(\|line\| \{", pp) and re.search(r"if l\.starts_with\('\*'\) \{", pp):
        star_cont_only = False
    else:
        raise Shape("post_process_block_comment: neither the `if l.starts_with('*')` nor the `if i > 0 && l.starts_with('*')` shape")
    for anchor in ["let l = line.trim_start();", "l.chars().skip(1).collect::<String>().trim().to_string()", "l.trim_end().to_string()",
                   ".filter(|line| !line.is_empty())", '.join(" ")', "block_comment\n        .split('\\n')"]:
        if anchor.replace("\\n", "\n") not in pp and anchor not in pp:
            raise Shape(f"post_process_block_comment: `{anchor}` not found")
    return kws, ops, star_cont_only


def lean_bytes(s):
    return "[" + ", ".join(str(b) for b in s.encode("utf-8")) + "]"


def render(kws, ops, star_cont_only=False):
    def table(name, rows, doc):
        out = f"/-- {doc} -/\ndef {name} : List (List UInt8 × List UInt8) := [\n"
        out += "\n".join(f"  ({lean_bytes(a)}, {lean_bytes(b)}){',' if i + 1 < len(rows) else ''}  -- {a} => {b}"
                         for i, (a, b) in enumerate(rows))
        return out + "\n]\n"
    return ("-- GENERATED by /verif/extract/c05_keywords.py from crates/samlang-parser/src/lexer.rs; do not edit.\n"
            "namespace SamVerif.Generated.Keywords\n\n"
            + table("keywords", kws, "`#[token(..)]` entries translated by `translate_keyword_token`: (source literal, `Keyword::as_str`)")
            + "\n"
            + table("operators", ops, "`#[token(..)]` entries translated by `translate_op_token`: (source literal, `TokenOp::as_str`)")
            + "\n/-- `post_process_block_comment` strips the decoration star only on continuation lines (index > 0) -/\n"
            + f"def commentStarOnlyOnContinuationLines : Bool := {'true' if star_cont_only else 'false'}\n"
            + "\nend SamVerif.Generated.Keywords\n")


def main():
    repo = os.environ.get("SAMVERIF_REPO", "/repo")
    out = os.path.join(os.path.dirname(os.path.dirname(os.path.abspath(__file__))), "lean", "SamVerif", "Generated", "Keywords.lean")
    try:
        kws, ops, star = extract(repo)
    except Shape as e:
        print(f"c05_keywords: source shape changed: {e}", file=sys.stderr)
        sys.exit(2)
    text = render(kws, ops, star)
    os.makedirs(os.path.dirname(out), exist_ok=True)
    if not os.path.exists(out) or open(out, encoding="utf-8").read() != text:
        tmp = out + f".tmp{os.getpid()}"
        open(tmp, "w", encoding="utf-8").write(text)
        os.replace(tmp, out)
    print(f"keywords={len(kws)} operators={len(ops)} commentStarOnlyOnContinuationLines={star}")


if __name__ == "__main__":
    main()
