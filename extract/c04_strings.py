#!/usr/bin/env python3
"""C04 translator for string constants: reads
  crates/samlang-parser/src/lexer.rs        string_has_valid_escape   (letters accepted after a backslash)
  crates/samlang-ast/src/lir.rs             template_literal_text     (rewrites before the text goes into a JS template literal)
  crates/samlang-compiler/src/wasm_lowering.rs  string_constant_bytes (escape letter -> byte stored in the data segment)
and writes lean/SamVerif/Generated/StrEsc.lean, the tables `strconst_agree` (Props/C04.lean) is about.
Fails loudly (exit 2) if a function no longer has the expected shape."""
import os, re, sys


class Shape(Exception):
    pass


def fn_body(text, sig, what):
    i = text.find(sig)
    if i < 0:
        raise Shape(f"{what}: `{sig}` not found")
    j = text.index("{", i)
    depth, k = 0, j
    while k < len(text):
        c = text[k]
        if c == "'":                       # skip char literals ('{', '\\', '\'' …)
            m = re.match(r"'(\\.|[^\\])'", text[k:])
            if m:
                k += len(m.group(0)); continue
        if c == '"':
            m = re.match(r'"(\\.|[^"\\])*"', text[k:])
            if m:
                k += len(m.group(0)); continue
        if c == "{":
            depth += 1
        elif c == "}":
            depth -= 1
            if depth == 0:
                return text[j + 1:k]
        k += 1
    raise Shape(f"{what}: unbalanced braces")


ESC = {"n": 10, "t": 9, "r": 13, "0": 0, "\\": 92, "'": 39, '"': 34}


def char_lit(s, what):
    """code point of the inside of a Rust char / byte-char literal"""
    if len(s) == 1:
        return ord(s)
    if len(s) == 2 and s[0] == "\\" and s[1] in ESC:
        return ESC[s[1]]
    raise Shape(f"{what}: char literal '{s}' not understood")


def str_lit(s, what):
    out, i = [], 0
    while i < len(s):
        if s[i] == "\\":
            if i + 1 >= len(s) or s[i + 1] not in ESC:
                raise Shape(f"{what}: string literal \"{s}\" not understood")
            out.append(ESC[s[i + 1]]); i += 2
        else:
            out.append(ord(s[i])); i += 1
    return out


def byte_expr(s, what):
    s = s.strip()
    m = re.fullmatch(r"b'(\\.|[^\\])'", s)
    if m:
        return char_lit(m.group(1), what)
    if re.fullmatch(r"0x[0-9a-fA-F]+", s):
        return int(s, 16)
    if re.fullmatch(r"[0-9]+", s):
        return int(s)
    raise Shape(f"{what}: byte expression `{s}` not understood")


def norm(s):
    return re.sub(r"\s+", " ", re.sub(r"//[^\n]*", "", s)).strip()


def extract(repo):
    lexer = open(os.path.join(repo, "crates/samlang-parser/src/lexer.rs")).read()
    lir = open(os.path.join(repo, "crates/samlang-ast/src/lir.rs")).read()
    wl = open(os.path.join(repo, "crates/samlang-compiler/src/wasm_lowering.rs")).read()

    # --- lexer: letters after a backslash
    b = norm(fn_body(lexer, "fn string_has_valid_escape(s: &str) -> bool", "lexer.rs string_has_valid_escape"))
    m = re.search(r"if has_unprocessed_escape \{ match c \{ ((?:'(?:\\.|[^\\])'\s*\|?\s*)+)=> \{ has_unprocessed_escape = false; \} _ => return false, \} \}", b)
    if not m or "if c == '\\\\' { has_unprocessed_escape = !has_unprocessed_escape; continue; }" not in b:
        raise Shape("lexer.rs string_has_valid_escape: loop body changed")
    lex = [char_lit(x, "lexer.rs") for x in re.findall(r"'((?:\\.|[^\\]))'", m.group(1))]

    # --- wasm: escape letter -> byte
    b = norm(fn_body(wl, "fn string_constant_bytes(s: &str) -> Vec<u8>", "wasm_lowering.rs string_constant_bytes"))
    if "if c != '\\\\' { out.extend_from_slice(c.encode_utf8(&mut buffer).as_bytes()); continue; }" not in b:
        raise Shape("wasm_lowering.rs string_constant_bytes: handling of ordinary characters changed")
    mm = re.search(r"match chars\.next\(\) \{ (.*) \} \} out$", b)
    if not mm:
        raise Shape("wasm_lowering.rs string_constant_bytes: `match chars.next()` not found")
    arms = mm.group(1)
    table = []
    pos = 0
    for a in re.finditer(r"Some\('((?:\\.|[^\\]))'\) => out\.push\(([^)]*)\),", arms):
        if a.start() != pos:
            break
        table.append((char_lit(a.group(1), "wasm_lowering.rs"), byte_expr(a.group(2), "wasm_lowering.rs")))
        pos = a.end() + 1
    rest = arms[pos:].strip()
    if rest != "Some(other) => { out.push(b'\\\\'); out.extend_from_slice(other.encode_utf8(&mut buffer).as_bytes()); } None => out.push(b'\\\\'),":
        raise Shape("wasm_lowering.rs string_constant_bytes: fallback arms changed: " + rest[:120])

    # --- TypeScript: rewrites
    b = norm(fn_body(lir, "fn template_literal_text(s: &str) -> String", "lir.rs template_literal_text"))
    mm = re.search(r"while let Some\(c\) = chars\.next\(\) \{ match c \{ (.*) \} \} out$", b)
    if not mm:
        raise Shape("lir.rs template_literal_text: main loop changed")
    arms = mm.group(1)
    m = re.match(r"'\\\\' => match chars\.next\(\) \{ Some\('0'\) if chars\.peek\(\)\.is_some_and\(\|d\| d\.is_ascii_digit\(\)\) => out\.push_str\(\"((?:\\.|[^\"\\])*)\"\), "
                 r"Some\(n\) => \{ out\.push\('\\\\'\); out\.push\(n\); \} None => out\.push\('\\\\'\), \}, ", arms)
    if not m:
        raise Shape("lir.rs template_literal_text: backslash arm changed")
    nul = str_lit(m.group(1), "lir.rs")
    rest = arms[m.end():]
    rewrites = []
    while True:
        a = re.match(r"'((?:\\.|[^\\]))' (?:if chars\.peek\(\) == Some\(&'((?:\\.|[^\\]))'\) )?=> out\.push_str\(\"((?:\\.|[^\"\\])*)\"\), ", rest)
        if not a:
            break
        rewrites.append((char_lit(a.group(1), "lir.rs"), char_lit(a.group(2), "lir.rs") if a.group(2) else None, str_lit(a.group(3), "lir.rs")))
        rest = rest[a.end():]
    if rest.strip() != "_ => out.push(c),":
        raise Shape("lir.rs template_literal_text: remaining arms not understood: " + rest[:120])
    # --- libsam.wat $__Str$eq: how the two operands' bytes are read inside the comparison loop
    wat = open(os.path.join(repo, "crates/samlang-compiler/src/libsam.wat")).read()
    i = wat.find("(func $__Str$eq ")
    if i < 0:
        raise Shape("libsam.wat: (func $__Str$eq not found")
    j = wat.find("\n(func ", i + 1)
    body = norm(re.sub(r";;[^\n]*", "", wat[i:j if j > 0 else len(wat)]))
    m = re.search(r"\(if \(i32\.ne \(array\.get_([su]) \$_Str \(local\.get \$a\) \(local\.get \$i\)\) "
                  r"\(array\.get_([su]) \$_Str \(local\.get \$b\) \(local\.get \$i\)\) \) \(then \(return \(i32\.const 0\)\)\)\)", body)
    if not m or len(re.findall(r"array\.get_[su]", body)) != 2:
        raise Shape("libsam.wat $__Str$eq: comparison `(if (i32.ne (array.get_? $_Str a i) (array.get_? $_Str b i)) (then (return 0)))` not found")
    return lex, table, nul, rewrites, (m.group(1) == "s", m.group(2) == "s")


def render(lex, table, nul, rewrites, eqreads):
    L = lambda xs: "[" + ", ".join(str(x) for x in xs) + "]"
    out = ["-- GENERATED by /verif/extract/c04_strings.py from /repo (lexer.rs string_has_valid_escape,",
           "-- lir.rs template_literal_text, wasm_lowering.rs string_constant_bytes, libsam.wat $__Str$eq). Do not edit.",
           "namespace SamVerif.Backends", "",
           "/-- characters the lexer accepts after a backslash (a second backslash is handled separately) -/",
           f"def lexEscapes : List Nat := {L(lex)}", "",
           "/-- WebAssembly data segment: escape letter ↦ stored byte -/",
           "def wasmEscTable : List (Nat × Nat) := [" + ", ".join(f"({a}, {b})" for a, b in table) + "]", "",
           "/-- TypeScript template literal: text written for `\\0` when a digit follows -/",
           f"def tsNulBeforeDigit : List Nat := {L(nul)}", "",
           "/-- TypeScript template literal: (character, required next character, replacement text) -/",
           "def tsRewrites : List (Nat × Option Nat × List Nat) := [" +
           ", ".join(f"({c}, {'none' if g is None else 'some ' + str(g)}, {L(r)})" for c, g, r in rewrites) + "]", "",
           "/-- `$__Str$eq` (libsam.wat): operand a / operand b is read with `array.get_s` (sign-extending) -/",
           f"def strEqSignedA : Bool := {'true' if eqreads[0] else 'false'}",
           f"def strEqSignedB : Bool := {'true' if eqreads[1] else 'false'}", "",
           "end SamVerif.Backends", ""]
    return "\n".join(out)


def main():
    repo = os.environ.get("SAMVERIF_REPO", "/repo")
    dst = os.path.join(os.path.dirname(os.path.dirname(os.path.abspath(__file__))), "lean", "SamVerif", "Generated", "StrEsc.lean")
    try:
        text = render(*extract(repo))
    except Shape as e:
        print(f"c04_strings: SOURCE SHAPE CHANGED: {e}", file=sys.stderr)
        sys.exit(2)
    old = open(dst).read() if os.path.exists(dst) else None
    if old != text:
        open(dst, "w").write(text)
        print("c04_strings: wrote", dst)
    else:
        print("c04_strings: unchanged")


if __name__ == "__main__":
    main()
