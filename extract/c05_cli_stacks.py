#!/usr/bin/env python3
"""C05 translator: reads the stack configuration of the toolchain's entry point
(crates/samlang-cli/src/main.rs) — the sizes the recursion-depth part of C05 is tested against.
Prints JSON {"main_mb": N, "worker_mb": M}. Fails loudly (exit 2) if `main` no longer runs the work on
a thread of MAIN_THREAD_STACK_SIZE, or no longer configures the rayon pool and the tokio runtime with
WORKER_THREAD_STACK_SIZE; the check then falls back to the platform defaults (8 MiB / 2 MiB)."""
import json, os, re, sys


def extract(repo):
    src = open(os.path.join(repo, "crates/samlang-cli/src/main.rs"), encoding="utf-8").read()
    src = re.sub(r"//[^\n]*", "", src)

    def const(name):
        m = re.search(r"const " + name + r": usize = ([0-9_ *]+);", src)
        if not m:
            raise ValueError(f"const {name} not found")
        v = 1
        for f in m.group(1).split("*"):
            v *= int(f.strip().replace("_", ""))
        return v
    main_b, worker_b = const("MAIN_THREAD_STACK_SIZE"), const("WORKER_THREAD_STACK_SIZE")
    i = src.find("fn main()")
    if i < 0:
        raise ValueError("fn main() not found")
    body = src[i:]
    for pat, what in [(r"rayon::ThreadPoolBuilder::new\(\)\s*\.stack_size\(WORKER_THREAD_STACK_SIZE\)\s*\.build_global\(\)", "rayon global pool with WORKER_THREAD_STACK_SIZE"),
                      (r"std::thread::Builder::new\(\)[^;]*?\.stack_size\(MAIN_THREAD_STACK_SIZE\)\s*\.spawn\(", "main work thread with MAIN_THREAD_STACK_SIZE"),
                      (r"\.thread_stack_size\(WORKER_THREAD_STACK_SIZE\)", "tokio runtime with WORKER_THREAD_STACK_SIZE"),
                      (r"\.block_on\(async_main\(\)\)", "async_main run inside that thread")]:
        if not re.search(pat, body):
            raise ValueError(f"main(): {what} not found")
    if re.search(r"#\[tokio::main\]", src):
        raise ValueError("#[tokio::main] is back: work runs on the default stacks")
    return {"main_mb": main_b // (1 << 20), "worker_mb": worker_b // (1 << 20)}


if __name__ == "__main__":
    try:
        print(json.dumps(extract(os.environ.get("SAMVERIF_REPO", "/repo"))))
    except (ValueError, OSError) as e:
        print(f"c05_cli_stacks: source shape changed: {e}", file=sys.stderr)
        sys.exit(2)
