#!/usr/bin/env python3
"""C13 translator: reads, from Phase 0 of `check_function_call_implicit_instantiation`
(crates/samlang-checker/src/main_checker.rs), *which test decides* whether a synthesised argument
is re-checked with a hint in Phase 1, and writes lean/SamVerif/Generated/C13Phase0.lean.

Expected shape (anything else: exit 2, naming what was not found):
    for arg in function_arguments {
      if arguments_should_be_checked_without_hint(arg) { ... MaybeCheckedExpression::Checked ... }
      else {
        let (checked, <FLAG>) = cx.run_in_synthesis_mode(...);
        ...
        if <TEST> { ... MaybeCheckedExpression::Unchecked ... } else { ... Checked ... }
      }
    }
<TEST> = <FLAG>                                   -> RecheckTest.producedFlag
<TEST> = type_system::contains_placeholder(...)   -> RecheckTest.placeholderInType
"""
import os, re, sys

REPO = os.environ.get("SAMVERIF_REPO", "/repo")
OUT = os.path.join(os.path.dirname(os.path.dirname(os.path.abspath(__file__))), "lean", "SamVerif", "Generated", "C13Phase0.lean")


def fail(msg):
    sys.stderr.write("c13_phase0: " + msg + "\n")
    sys.exit(2)


def main():
    src = open(os.path.join(REPO, "crates/samlang-checker/src/main_checker.rs")).read()
    i = src.find("fn check_function_call_implicit_instantiation(")
    if i < 0:
        fail("function check_function_call_implicit_instantiation not found")
    body = src[i:i + 9000]
    m = re.search(r"for arg in function_arguments \{\s*if arguments_should_be_checked_without_hint\(arg\) \{(.*?)\} else \{(.*?)\n    \}\n  \}", body, re.S)
    if not m:
        fail("Phase 0 loop `for arg in function_arguments { if arguments_should_be_checked_without_hint(arg) {..} else {..} }` not found")
    then_arm, else_arm = m.group(1), m.group(2)
    if "type_hint::MISSING" not in then_arm or "MaybeCheckedExpression::Checked" not in then_arm or "Unchecked" in then_arm:
        fail("the `without hint` arm no longer checks with type_hint::MISSING and pushes Checked")
    s = re.search(r"let \(checked, (\w+)\) =\s*cx\.run_in_synthesis_mode\(", else_arm)
    if not s:
        fail("`let (checked, <flag>) = cx.run_in_synthesis_mode(` not found in the synthesis arm")
    flag = s.group(1)
    t = re.search(r"if ([^\{]+?) \{\s*partially_checked_arguments\s*\.push\(MaybeCheckedExpression::Unchecked", else_arm, re.S)
    if not t:
        fail("`if <test> { partially_checked_arguments.push(MaybeCheckedExpression::Unchecked` not found")
    test = " ".join(t.group(1).split())
    if test == flag and flag != "_":
        val = "producedFlag"
    elif re.fullmatch(r"type_system::contains_placeholder\(checked\.type_\(\)\)", test):
        val = "placeholderInType"
    else:
        fail(f"unrecognised re-check test `{test}`")
    # ---- check_if_else: which hint does the `else if` continuation receive?
    j = src.find("fn check_if_else(")
    if j < 0:
        fail("function check_if_else not found")
    body2 = src[j:j + 3000]
    if not re.search(r"let e1 = Box::new\(check_block\(cx, &expression\.e1, hint\)\);", body2):
        fail("check_if_else: `let e1 = Box::new(check_block(cx, &expression.e1, hint));` not found")
    a1 = re.search(r"IfElseOrBlock::IfElse\(e2\) => \{\s*let checked = check_if_else\(cx, e2, ([^;]+?)\);", body2)
    a2 = re.search(r"IfElseOrBlock::Block\(e2\) => \{\s*let checked = check_block\(cx, e2, ([^;]+?)\);", body2)
    if not a1 or not a2:
        fail("check_if_else: the `else if` / `else {}` arms no longer have the modelled shape")
    first = "type_hint::available(&e1.common.type_)"
    if " ".join(a2.group(1).split()) != first:
        fail(f"check_if_else: `else {{}}` arm is checked with `{a2.group(1)}`, expected `{first}`")
    h1 = " ".join(a1.group(1).split())
    if h1 == first:
        val2 = "firstBranch"
    elif h1 == "hint":
        val2 = "enclosing"
    else:
        fail(f"check_if_else: unrecognised hint `{h1}` for the `else if` continuation")
    # ---- run_in_synthesis_mode: how is the produced-placeholders flag treated across nested runs?
    tc = open(os.path.join(REPO, "crates/samlang-checker/src/typing_context.rs")).read()
    k = tc.find("fn run_in_synthesis_mode<R>(")
    if k < 0:
        fail("typing_context.rs: run_in_synthesis_mode not found")
    b3 = tc[k:k + 1200]
    b3 = b3[:b3.find("\n  }\n") + 1] if "\n  }\n" in b3 else b3
    pos_f = b3.find("let result = f(self);")
    pos_read = b3.find("let produced = self.produced_placeholders;")
    if pos_f < 0 or pos_read < pos_f or "(result, produced)" not in b3:
        fail("run_in_synthesis_mode: `let result = f(self); let produced = self.produced_placeholders; … (result, produced)` not found")
    saves = re.search(r"let (\w+) = self\.produced_placeholders;", b3[:pos_f])
    resets = "self.produced_placeholders = false;" in b3[:pos_f]
    restores = bool(saves) and (f"self.produced_placeholders = {saves.group(1)};" in b3[pos_read:])
    if saves and restores and not resets:
        val3 = "saveRestore"
    elif resets and not restores:
        val3 = "resetNoRestore"
    else:
        fail("run_in_synthesis_mode: unrecognised treatment of produced_placeholders (save=%s reset=%s restore=%s)" % (bool(saves), resets, restores))
    # ---- validate_type_instantiation_customized: which substitution are the bounds checked against?
    k2 = tc.find("fn validate_type_instantiation_customized(")
    if k2 < 0:
        fail("typing_context.rs: validate_type_instantiation_customized not found")
    b4 = tc[k2:k2 + 3500]
    loop = b4.find("for (tparam, targ) in interface_type_parameters.into_iter().zip(&nominal_type.type_arguments)")
    if loop < 0 or "subst_nominal_type(&bound, &subst_mapping)" not in b4[loop:]:
        fail("validate_type_instantiation_customized: bound loop `for (tparam, targ) in interface_type_parameters.into_iter().zip(..)` / `subst_nominal_type(&bound, &subst_mapping)` not found")
    built_before = re.search(r"let subst_mapping = interface_type_parameters\s*\.iter\(\)\s*\.zip\(&nominal_type\.type_arguments\)\s*\.map\(\|\(tparam, targ\)\| \(tparam\.name, targ\.dupe\(\)\)\)\s*\.collect", b4[:loop])
    grown_inside = "subst_mapping.insert(" in b4[loop:loop + 600]
    if built_before and not grown_inside:
        val4 = "fullMap"
    elif grown_inside and not built_before:
        val4 = "prefixMap"
    else:
        fail("validate_type_instantiation_customized: unrecognised construction of subst_mapping")
    text = f"""import SamVerif.Model.C13Hint
/-! GENERATED by extract/c13_phase0.py from crates/samlang-checker/src/main_checker.rs — do not edit.
Re-check test found in Phase 0: `{test}` -/
namespace SamVerif.Hint.Generated

def recheckTest : RecheckTest := .{val}

/-- hint of the `else if` continuation in `check_if_else`: `{h1}` -/
def elseIfHint : ElseIfHint := .{val2}

/-- treatment of `produced_placeholders` by `run_in_synthesis_mode` (typing_context.rs) -/
def flagDiscipline : FlagDiscipline := .{val3}

/-- substitution applied to the bounds by `validate_type_instantiation_customized` -/
def boundSubst : BoundSubst := .{val4}

end SamVerif.Hint.Generated
"""
    os.makedirs(os.path.dirname(OUT), exist_ok=True)
    if not os.path.exists(OUT) or open(OUT).read() != text:
        open(OUT, "w").write(text)
    print(val, val2, val3, val4)


if __name__ == "__main__":
    main()
