#!/usr/bin/env python3
"""C05 translator: reads the *progress-relevant* facts of three parser loops from
crates/samlang-parser/src/source_parser.rs and writes lean/SamVerif/Generated/ParserLoops.lean.
The loop skeletons themselves are modelled by hand in Model/ParserLoops.lean; what is generated is,
per recovery arm, whether the arm consumes a token (the fact `parser_loops_progress` needs).

  parse_module        inner recovery loop: arm `Token(loc, content) => { ... parser.consume() ... }`
  parse_comma_separated_list_with_end_token_with_start
                      `if op != TokenOp::Comma { break; }` followed by `self.consume()`
  parse_block         `;` arm consumes the semicolon; the final `else` arm ("Expected: ; or }")
                      consumes the offending token
Fails loudly (exit 2) if an anchor is missing, i.e. the loop no longer has the modelled shape.
"""
import os, re, sys


class Shape(Exception):
    pass


def fn_body(src, sig, what):
    i = src.find(sig)
    if i < 0:
        raise Shape(f"{what}: `{sig}` not found")
    j = src.find("{", i)
    depth, k = 0, j
    while k < len(src):
        if src[k] == '"':                       # skip string literals (they contain braces)
            k += 1
            while k < len(src) and src[k] != '"':
                k += 2 if src[k] == "\\" else 1
        elif src[k] == "{":
            depth += 1
        elif src[k] == "}":
            depth -= 1
            if depth == 0:
                return src[j + 1:k]
        k += 1
    raise Shape(f"{what}: unbalanced braces")


def block_after(text, anchor, what):
    i = text.find(anchor)
    if i < 0:
        raise Shape(f"{what}: anchor `{anchor}` not found")
    return fn_body(text[i:], anchor, what)


def extract(repo):
    src = open(os.path.join(repo, "crates/samlang-parser/src/source_parser.rs"), encoding="utf-8").read()
    src = re.sub(r"//[^\n]*", "", src)
    facts = {}
    # 1. top-level recovery loop
    mod = fn_body(src, "pub fn parse_module(mut parser: SourceParser)", "parse_module")
    outer = block_after(mod, "'outer: loop", "parse_module 'outer loop")
    if "Token(_, TokenContent::EndOfFile) => break 'outer" not in outer:
        raise Shape("parse_module: the EOF arm `break 'outer` is gone")
    if not re.search(r"Keyword::Class \| Keyword::Interface \| Keyword::Private\)\) => \{\s*break;", outer):
        raise Shape("parse_module: the class/interface/private arm no longer just breaks")
    arm = block_after(outer, "Token(loc, content) =>", "parse_module recovery arm")
    facts["toplevelOtherConsumes"] = "parser.consume()" in arm
    if "toplevel_parser::parse_toplevel(&mut parser)" not in outer:
        raise Shape("parse_module: parse_toplevel call not found in the outer loop")
    # 2. comma separated list
    lst = fn_body(src, "fn parse_comma_separated_list_with_end_token_with_start<T>", "comma list")
    loop = block_after(lst, "while let Token(_, TokenContent::Operator(op)) = self.peek()", "comma list loop")
    m = re.search(r"if op != TokenOp::Comma \{\s*break;\s*\}(.*)", loop, re.S)
    if not m:
        raise Shape("comma list: `if op != TokenOp::Comma { break; }` not found")
    rest = m.group(1)
    facts["commaConsumes"] = bool(re.match(r"\s*let (mut )?\w+ = self\.consume\(\);", rest))
    # 3. block statement loop
    blk = fn_body(src, "fn parse_block(", "parse_block")
    loop = block_after(blk, "loop {", "parse_block loop")
    for anchor in ["Token(_, TokenContent::Keyword(Keyword::Let)) =>", "Token(_, TokenContent::Operator(TokenOp::RightBrace)) =>",
                   "Token(loc, TokenContent::EndOfFile) =>"]:
        if anchor not in loop:
            raise Shape(f"parse_block: arm `{anchor}` not found")
    semi = block_after(loop, "Token(_, TokenContent::Operator(TokenOp::Semicolon)) =>", "parse_block `;` arm")
    facts["blockSemiConsumes"] = "parser.assert_and_consume_operator(TokenOp::Semicolon)" in semi
    i = loop.find('"Expected: ; or }}, actual: {}"')
    if i < 0:
        raise Shape("parse_block: the final error arm (`Expected: ; or }`) not found")
    tail = loop[i:]
    j = tail.find(");")          # end of parser.report(...)
    after_report = tail[j + 2:] if j >= 0 else ""
    facts["blockElseConsumes"] = bool(re.match(r"\s*associated_comments\.extend\(parser\.consume\(\)\);", after_report))
    # 1b. `parse_toplevel` consumes the keyword it was dispatched on (class / interface / private), and
    #     `assert_and_consume_keyword(k)` consumes when the next token is the keyword k
    ack = fn_body(src, "fn assert_and_consume_keyword(&mut self, expected_kind: Keyword)", "assert_and_consume_keyword")
    assert_consumes = bool(re.search(r"if TokenContent::Keyword\(expected_kind\) == content \{\s*let comments = self\.consume\(\);", ack))
    top = fn_body(src, "pub(super) fn parse_toplevel(parser: &mut super::SourceParser)", "parse_toplevel")
    kw = fn_body(src, "fn parse_private_interface_or_class_keyword(", "parse_private_interface_or_class_keyword")
    priv = block_after(kw, "if let Token(loc, TokenContent::Keyword(Keyword::Private)) = parser.peek()", "toplevel `private` arm")
    facts["toplevelConsumesKeyword"] = (assert_consumes
        and bool(re.match(r"\s*let \(loc, is_private, is_interface, comments\) =\s*parse_private_interface_or_class_keyword\(parser\);", top))
        and bool(re.match(r"\s*associated_comments\.append\(&mut parser\.consume\(\)\);", priv))
        and kw.count("parser.assert_and_consume_keyword(Keyword::Interface)") == 2
        and kw.count("parser.assert_and_consume_keyword(Keyword::Class)") == 2
        and kw.count("matches!(parser.peek().1, TokenContent::Keyword(Keyword::Interface))") == 2)
    # 3b. the statement parser the block loop dispatches on `let` consumes the `let` first.  Robust against
    #     renames / delegation: take whatever `parse_*` function the `Keyword::Let` arm calls, follow leading
    #     delegations, and require that the first thing it does with the parser is
    #     `assert_and_consume_keyword(Keyword::Let)`.
    let_arm = block_after(loop, "Token(_, TokenContent::Keyword(Keyword::Let)) =>", "parse_block `let` arm")
    m = re.search(r"\b(parse_\w+)\(\s*parser\b", let_arm)
    if not m:
        raise Shape("parse_block: the `let` arm no longer calls a statement parser")

    def first_action(fn_name, depth=0):
        mm = re.search(r"fn " + fn_name + r"\(", src)
        if not mm or depth > 3:
            raise Shape(f"statement parser `{fn_name}` not found")
        body = fn_body(src[mm.start():], "fn " + fn_name + "(", fn_name)
        k = body.find("parser")
        head = body[:k + 200]
        d = re.search(r"\b(parse_\w+)\(\s*parser\b", head)
        if d and d.start() < k:            # `parser` first appears as the argument of a delegated call
            return first_action(d.group(1), depth + 1)
        return body[k:k + 80]
    facts["statementConsumesLet"] = assert_consumes and first_action(m.group(1)).startswith("parser.assert_and_consume_keyword(Keyword::Let)")
    # 4. class-member loop: `while let Keyword(Function | Method | Private) = peek { parse member }`;
    #    the member parser consumes the keyword it was dispatched on
    cls = fn_body(src, "pub(super) fn parse_class(", "parse_class")
    if not re.search(r"while let TokenContent::Keyword\(Keyword::Function \| Keyword::Method \| Keyword::Private\) =\s*parser\.peek\(\)\.1\s*\{[^}]*parse_class_member_definition\(parser\)", cls, re.S):
        raise Shape("parse_class: the member loop `while let Keyword(Function|Method|Private) = peek { parse_class_member_definition }` is gone")
    mem = fn_body(src, "fn parse_class_member_declaration_common(", "parse_class_member_declaration_common")
    priv = block_after(mem, "if let Token(peeked_loc, TokenContent::Keyword(Keyword::Private)) = peeked", "member `private` arm")
    fun = block_after(mem, "if let Token(_, TokenContent::Keyword(Keyword::Function)) = &peeked", "member `function` arm")
    facts["memberConsumesKeyword"] = ("parser.consume()" in priv and "parser.consume()" in fun
                                      and "parser.assert_and_consume_keyword(Keyword::Method)" in mem and assert_consumes)
    # 5. match-arm loop: `while matches!(peek, `{` | `(` | `_` | LowerId | UpperId) { pattern -> expr }`;
    #    the pattern parser consumes each of these start tokens
    mt = fn_body(src, "fn parse_match(parser: &mut super::SourceParser)", "parse_match")
    m = re.search(r"while matches!\(\s*parser\.peek\(\)\.1,(.*?)\)\s*\{\s*matching_list\.push\(parse_pattern_to_expression\(parser[^;]*\)\);", mt, re.S)
    if not m:
        raise Shape("parse_match: the arm loop `while matches!(peek, ..) { parse_pattern_to_expression }` is gone")
    starts = set(re.findall(r"TokenOp::(\w+)|TokenContent::(LowerId|UpperId)", m.group(1)))
    starts = {a or b for a, b in starts}
    if starts != {"LeftBrace", "LeftParenthesis", "Underscore", "LowerId", "UpperId"}:
        raise Shape(f"parse_match: arm loop start set changed: {sorted(starts)}")
    p2e = fn_body(src, "fn parse_pattern_to_expression(", "parse_pattern_to_expression")
    if not re.match(r"\s*let pattern = super::pattern_parser::parse_matching_pattern\(parser, [^;]*\);", p2e):
        raise Shape("parse_pattern_to_expression no longer starts with parse_matching_pattern")
    single = fn_body(src, "fn parse_single_matching_pattern(", "parse_single_matching_pattern")
    tup = fn_body(src, "fn parse_tuple_pattern(parser: &mut super::SourceParser)", "parse_tuple_pattern")
    ok = bool(re.match(r"\s*let \(start_loc, starting_comments\) =\s*parser\.assert_and_consume_operator\(TokenOp::LeftParenthesis\);", tup))
    ok = ok and "let mut p = parse_tuple_pattern(parser);" in block_after(single, "if let Token(_, TokenContent::Operator(TokenOp::LeftParenthesis)) = peeked", "pattern `(` arm")
    for anchor in ["if let Token(peeked_loc, TokenContent::Operator(TokenOp::LeftBrace)) = peeked",
                   "if let Token(peeked_loc, TokenContent::UpperId(id)) = peeked",
                   "if let Token(location, TokenContent::Operator(TokenOp::Underscore)) = peeked"]:
        arm = block_after(single, anchor, "pattern arm " + anchor)
        ok = ok and bool(re.match(r"\s*starting_comments\.append\(&mut parser\.consume\(\)\);", arm))
    # the fall-through arm is the lower-id pattern
    ok = ok and ("parser.assert_and_peek_lower_id()" in single or "parser.parse_lower_id" in single)
    facts["matchArmConsumesStart"] = ok
    return facts


def main():
    repo = os.environ.get("SAMVERIF_REPO", "/repo")
    out = os.path.join(os.path.dirname(os.path.dirname(os.path.abspath(__file__))), "lean", "SamVerif", "Generated", "ParserLoops.lean")
    try:
        facts = extract(repo)
    except Shape as e:
        print(f"c05_parser_loops: source shape changed: {e}", file=sys.stderr)
        sys.exit(2)
    text = ("-- GENERATED by /verif/extract/c05_parser_loops.py from crates/samlang-parser/src/source_parser.rs; do not edit.\n"
            "namespace SamVerif.Generated.ParserLoops\n\n"
            + "".join(f"def {k} : Bool := {'true' if v else 'false'}\n" for k, v in sorted(facts.items()))
            + "\nend SamVerif.Generated.ParserLoops\n")
    if not os.path.exists(out) or open(out, encoding="utf-8").read() != text:
        tmp = out + f".tmp{os.getpid()}"
        open(tmp, "w", encoding="utf-8").write(text)
        os.replace(tmp, out)
    print(" ".join(f"{k}={v}" for k, v in sorted(facts.items())))


if __name__ == "__main__":
    main()
