#!/usr/bin/env python3
"""C08 translator: the two precedence tables of binary operators, read from the source text, written
to lean/SamVerif/Generated/C08Prec.lean (theorems about them: lean/SamVerif/Props/C08c.lean).

printer side  crates/samlang-ast/src/source.rs, `impl BinaryOperator { pub fn precedence(&self) -> i32 {
              match self { Self::MUL => 0, ... } } }`          -> `printerPrec : BinOp -> Nat`
parser side   crates/samlang-parser/src/source_parser.rs, the precedence-climbing chain that starts at
              `parse_if_else_or_higher_precedence`:
                  fn parse_X(parser) { let e = parse_Y(parser); parse_X_with_start(parser, e) }
                  fn parse_X_with_start(parser, mut e) { <loop> ... expr::BinaryOperator::OP ...
                      let e2 = parse_Z(parser); ... e1: Box::new(e), e2: Box::new(e2) ... }
              level of X = its position in the chain (0 = the entry, loosest)   -> `parserLevel`
              left-associative iff Z = Y and the loop folds into e1             -> `parserLeftAssoc`
Anything else: exit 2, naming what was not found.  `--print` writes nothing and prints the tables and
the operator pairs on which they disagree (used by vlib/c08.py for the witness)."""
import json, os, re, sys

REPO = os.environ.get("SAMVERIF_REPO", "/repo")
OUT = os.path.join(os.path.dirname(os.path.dirname(os.path.abspath(__file__))), "lean", "SamVerif", "Generated", "C08Prec.lean")

# Rust variant -> constructor of SamVerif.Fmt.BinOp, in the order of the inductive type
OPS = [("MUL", "mul"), ("DIV", "div"), ("MOD", "mod"), ("PLUS", "plus"), ("MINUS", "minus"), ("CONCAT", "concat"),
       ("LT", "lt"), ("LE", "le"), ("GT", "gt"), ("GE", "ge"), ("EQ", "eq"), ("NE", "ne"), ("AND", "and"), ("OR", "or")]
SPELL = {"MUL": "*", "DIV": "/", "MOD": "%", "PLUS": "+", "MINUS": "-", "CONCAT": "::", "LT": "<", "LE": "<=", "GT": ">",
         "GE": ">=", "EQ": "==", "NE": "!=", "AND": "&&", "OR": "||"}


def fail(msg):
    sys.stderr.write("c08_prec: " + msg + "\n")
    sys.exit(2)


def body_after(src, start):
    """text of the brace block that opens at or after `start`"""
    i = src.index("{", start)
    depth, j = 0, i
    while True:
        c = src[j]
        if c == "{":
            depth += 1
        elif c == "}":
            depth -= 1
            if depth == 0:
                return src[i + 1:j]
        j += 1


def printer_table():
    src = open(os.path.join(REPO, "crates/samlang-ast/src/source.rs")).read()
    m = re.search(r"impl\s+BinaryOperator\s*\{\s*pub fn precedence\(&self\)\s*->\s*i32\s*", src)
    if not m:
        fail("`impl BinaryOperator { pub fn precedence(&self) -> i32` not found in samlang-ast/src/source.rs")
    body = body_after(src, m.end())
    table = {}
    for arm in re.finditer(r"((?:Self::\w+\s*\|\s*)*Self::\w+)\s*=>\s*(\d+)\s*,", body):
        for v in re.findall(r"Self::(\w+)", arm.group(1)):
            if v in table:
                fail(f"BinaryOperator::precedence: {v} has two arms")
            table[v] = int(arm.group(2))
    if sorted(table) != sorted(v for v, _ in OPS):
        fail(f"BinaryOperator::precedence: arms for {sorted(table)}, expected the 14 operators")
    return table


def parser_tables():
    src = open(os.path.join(REPO, "crates/samlang-parser/src/source_parser.rs")).read()
    m = re.search(r"fn parse_if_else_or_higher_precedence\(", src)
    if not m:
        fail("parse_if_else_or_higher_precedence not found")
    calls = re.findall(r"\b(parse_\w+)\(parser\)\s*$", body_after(src, m.end()).strip())
    if not calls:
        fail("parse_if_else_or_higher_precedence does not end in a call of the first climbing level")
    cur, level, lv, assoc, chain = calls[0], 0, {}, {}, []
    while True:
        mw = re.search(r"fn " + cur + r"_with_start\(", src)
        if not mw:
            break            # `cur` is not a binary level any more (parse_unary_expression)
        mf = re.search(r"fn " + cur + r"\(parser: &mut super::SourceParser\)", src)
        if not mf:
            fail(f"fn {cur}(parser) not found")
        fb = body_after(src, mf.end())
        ms = re.search(r"let e = (parse_\w+)\(parser\);\s*" + cur + r"_with_start\(parser, e\)", fb)
        if not ms:
            fail(f"{cur} is not `let e = parse_Y(parser); {cur}_with_start(parser, e)`")
        nxt = ms.group(1)
        wb = body_after(src, mw.end())
        ops = re.findall(r"expr::BinaryOperator::(\w+)", wb)
        if not ops:
            fail(f"{cur}_with_start mentions no BinaryOperator")
        m2 = re.search(r"let e2 = (parse_\w+)\(parser\);", wb)
        if not m2:
            fail(f"{cur}_with_start: right operand `let e2 = parse_Z(parser);` not found")
        is_loop = bool(re.search(r"\b(loop|while let)\b", wb))
        folds_left = bool(re.search(r"e1:\s*Box::new\(e\),\s*e2:\s*Box::new\(e2\)", wb)) and bool(re.search(r"\be = expr::E::Binary", wb))
        for o in dict.fromkeys(ops):
            if o in lv:
                fail(f"{o} is consumed on two climbing levels")
            lv[o] = level
            assoc[o] = is_loop and folds_left and m2.group(1) == nxt
        chain.append((cur, nxt, sorted(set(ops)), m2.group(1)))
        cur, level = nxt, level + 1
        if level > 20:
            fail("climbing chain does not end")
    if sorted(lv) != sorted(v for v, _ in OPS):
        fail(f"climbing chain consumes {sorted(lv)}, expected the 14 operators (chain: {chain})")
    return lv, assoc, level, chain


def disagreements(pp, lv):
    """operator pairs on which the two tables differ: same printer level but different parser level (or
    vice versa), or opposite order (printer: smaller binds tighter; parser: deeper level binds tighter)"""
    out = []
    names = [v for v, _ in OPS]
    for a in names:
        for b in names:
            if a >= b:
                continue
            if (pp[a] == pp[b]) != (lv[a] == lv[b]):
                out.append(f"`{SPELL[a]}` and `{SPELL[b]}`: printer levels {pp[a]}/{pp[b]}, parser levels {lv[a]}/{lv[b]} (same level on one side only)")
            elif (pp[a] < pp[b]) != (lv[a] > lv[b]):
                out.append(f"`{SPELL[a]}` and `{SPELL[b]}`: printer levels {pp[a]}/{pp[b]}, parser levels {lv[a]}/{lv[b]} (opposite order)")
    return out


def main():
    pp = printer_table()
    lv, assoc, nlevels, chain = parser_tables()
    if "--print" in sys.argv:
        print(json.dumps({"printer": pp, "parser": lv, "left_assoc": assoc, "levels": nlevels,
                          "chain": chain, "disagreements": disagreements(pp, lv)}))
        return
    def fn(name, ty, val):
        return f"def {name} : BinOp → {ty}\n" + "".join(f"  | .{c} => {val(v)}\n" for v, c in OPS)
    text = ("import SamVerif.Model.Fmt\n"
            "/-! GENERATED by extract/c08_prec.py from crates/samlang-ast/src/source.rs (`BinaryOperator::precedence`)\n"
            "and crates/samlang-parser/src/source_parser.rs (climbing chain " + " → ".join(c[0] for c in chain) + " → " + chain[-1][1] + ").\n"
            "Do not edit; theorems: SamVerif/Props/C08c.lean. -/\n"
            "namespace SamVerif.Generated.C08Prec\nopen SamVerif.Fmt (BinOp)\n\n"
            "/-- `BinaryOperator::precedence` (smaller binds tighter). -/\n" + fn("printerPrec", "Nat", lambda v: pp[v]) +
            "\n/-- position in the climbing chain of the `_with_start` loop that consumes the operator (0 = loosest). -/\n"
            + fn("parserLevel", "Nat", lambda v: lv[v]) +
            "\n/-- the loop parses the right operand one level up and folds into the left operand. -/\n"
            + fn("parserLeftAssoc", "Bool", lambda v: "true" if assoc[v] else "false") +
            f"\n/-- number of binary climbing levels. -/\ndef parserLevels : Nat := {nlevels}\n\nend SamVerif.Generated.C08Prec\n")
    old = open(OUT).read() if os.path.exists(OUT) else None
    if old != text:
        os.makedirs(os.path.dirname(OUT), exist_ok=True)
        tmp = OUT + ".tmp"
        open(tmp, "w").write(text)
        os.replace(tmp, OUT)
    print("ok " + " ".join(f"{SPELL[v]}:{pp[v]}/{lv[v]}" for v, _ in OPS))


if __name__ == "__main__":
    main()
