#!/usr/bin/env python3
"""Extractor for hypothesis `Kinds` of C10 (Lemmas/Incremental.lean): "parse errors are syntax errors,
type-check errors are not".  Reads /repo's current source and checks the three source facts it rests on:

 K1  crates/samlang-errors/src/lib.rs: `ErrorDetail::InvalidSyntax(` is *constructed* in exactly one place, the
     body of `report_invalid_syntax_error`; `report_error` (the only inserter into ErrorSet) is private.
 K2  crates/samlang-checker/src/*.rs, non-test code: neither `InvalidSyntax` nor `report_invalid_syntax_error`
     occurs, i.e. nothing reachable from type_check_module can produce a syntax error.
 K3  crates/samlang-parser/src/*.rs, non-test code: every `.report_…(` call is `report_invalid_syntax_error`,
     i.e. everything parse_source_module_from_text reports is a syntax error.

Prints a JSON summary; exit 1 (naming the construct) if a fact no longer holds or the source shape changed."""
import glob, json, os, re, sys

REPO = os.environ.get("SAMVERIF_REPO", "/repo")


def non_test(path):
    text = open(path, encoding="utf-8").read()
    if path.endswith("_tests.rs") or os.path.basename(path) in ("checker_tests.rs", "checker_integration_tests.rs"):
        return ""
    # drop every item that follows a `#[cfg(test)]` attribute (brace-matched; `…;` items up to the semicolon)
    out, pos = [], 0
    while True:
        i = text.find("#[cfg(test)]", pos)
        if i < 0:
            out.append(text[pos:])
            break
        out.append(text[pos:i])
        j = i + len("#[cfg(test)]")
        b, sc = text.find("{", j), text.find(";", j)
        if b < 0 or (0 <= sc < b):
            pos = (sc + 1) if sc >= 0 else len(text)
            continue
        depth, k = 0, b
        while k < len(text):
            if text[k] == "{":
                depth += 1
            elif text[k] == "}":
                depth -= 1
                if depth == 0:
                    break
            k += 1
        pos = k + 1
    return "".join(out)


def main():
    bad, info = [], {}
    # K1
    err = non_test(os.path.join(REPO, "crates/samlang-errors/src/lib.rs"))
    constructions = [m.start() for m in re.finditer(r"ErrorDetail::InvalidSyntax\(", err)
                     if not re.match(r"[^\n]*=>", err[m.start():err.find("\n", m.start())])
                     and "matches!" not in err[err.rfind("\n", 0, m.start()):m.start()]]
    fn = re.search(r"pub fn report_invalid_syntax_error\([^)]*\)\s*\{([^}]*)\}", err)
    if not fn:
        bad.append("K1: report_invalid_syntax_error not found in samlang-errors (source shape changed)")
    else:
        inside = [c for c in constructions if fn.start(1) <= c < fn.end(1)]
        if len(constructions) != 1 or len(inside) != 1:
            bad.append(f"K1: ErrorDetail::InvalidSyntax( is constructed {len(constructions)} time(s), {len(inside)} inside report_invalid_syntax_error")
    if not re.search(r"\n  fn report_error\(", err):
        bad.append("K1: `fn report_error` is not a private method of ErrorSet any more")
    info["K1_constructions"] = len(constructions)
    # K2
    files = sorted(glob.glob(os.path.join(REPO, "crates/samlang-checker/src/*.rs")))
    if len(files) < 5:
        bad.append("K2: checker sources not found")
    hits = []
    for f in files:
        t = non_test(f)
        for m in re.finditer(r"InvalidSyntax|report_invalid_syntax_error", t):
            hits.append(f"{os.path.relpath(f, REPO)}:{t.count(chr(10), 0, m.start()) + 1}")
    if hits:
        bad.append("K2: the checker crate mentions syntax errors: " + ", ".join(hits[:5]))
    info["K2_checker_files_scanned"] = len([f for f in files if non_test(f)])
    # K3
    pfiles = sorted(glob.glob(os.path.join(REPO, "crates/samlang-parser/src/*.rs")))
    calls = []
    for f in pfiles:
        t = non_test(f)
        calls += [(os.path.relpath(f, REPO), m.group(1)) for m in re.finditer(r"\.(report_\w+)\(", t)]
    other = [c for c in calls if c[1] != "report_invalid_syntax_error"]
    if not calls:
        bad.append("K3: no report_ call found in the parser crate (source shape changed)")
    if other:
        bad.append("K3: the parser reports something else than syntax errors: " + ", ".join(f"{a}:{b}" for a, b in other[:5]))
    info["K3_parser_report_calls"] = len(calls)
    print(json.dumps({"ok": not bad, "violations": bad, **info}))
    return 1 if bad else 0


if __name__ == "__main__":
    sys.exit(main())
