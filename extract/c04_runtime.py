#!/usr/bin/env python3
"""C04 tie of the two runtime libraries: the text of every builtin of the TypeScript prelude
(`samlang_ast::lir::ts_prolog()`, obtained by *calling* the real function through the harness) and
of every function of crates/samlang-compiler/src/libsam.wat and loader.js is compared against the
normal form the models in lean/SamVerif/Model/Backends.lean were written from
(extract/c04_runtime_pinned.json, which also names the model function of each builtin).

  c04_runtime.py          compare; prints a JSON list of changed builtins; exit 0 same / 3 changed / 2 unusable
  c04_runtime.py --pin    rewrite the pinned normal form from the current tree (after re-reading the
                          changed builtin and updating its model!)
"""
import hashlib, json, os, re, subprocess, sys

HERE = os.path.dirname(os.path.abspath(__file__))
VERIF = os.path.dirname(HERE)
REPO = os.environ.get("SAMVERIF_REPO", "/repo")
PIN = os.path.join(HERE, "c04_runtime_pinned.json")

MODEL_OF = {
    "__Str$concat": "tsStrConcat", "__Process$println": "output = the JS string (tsCook / tsFromInt …)",
    "__Str$toInt": "tsToInt", "__Str$fromInt": "tsFromInt", "__Process$panic": "panic message = the JS string",
    "__Vec$empty": "tsVecRun []", "__Vec$withCapacity": "[] (capacity ignored)", "__Vec$of": "tsVecOf",
    "__Vec$length": "tsVecStep .len", "__Vec$capacity": "tsCapacity", "__Vec$reserve": "tsVecStep .reserve",
    "__Vec$push": "tsVecStep .push", "__Vec$pop": "tsVecStep .pop", "__Vec$get": "tsVecStep .get",
    "__Vec$set": "tsVecStep .set", "__Vec$eq": "tsVecEq",
    "$__Str$eq": "wasmStrEq", "$__Str$fromInt": "wasmFromInt", "$__Str$toInt": "wasmToInt", "$__Str$concat": "wasmStrConcat",
    "$__$unwrapI31": "i31wrap", "$__Vec$empty": "WVec.empty", "$__Vec$withCapacity": "wasmVecWithCapacity", "$__Vec$of": "wasmVecOf",
    "$__Vec$length": "wasmVecStep .len", "$__Vec$capacity": "wasmCapacity", "$__Vec$reserve": "wReserve",
    "$__Vec$push": "wasmVecStep .push", "$__Vec$pop": "wasmVecStep .pop", "$__Vec$get": "wasmVecStep .get",
    "$__Vec$set": "wasmVecStep .set", "$__Vec$eq": "wasmVecEq", "$__$strLen": "byteToUnit (loader)", "$__$strGet": "byteToUnit (array.get_s)",
    "$__$getBuiltinString": "constants of wasmFromInt", "loader.js": "byteToUnit / wasmDecode (String.fromCharCode per code)",
}


def norm(s):
    return re.sub(r"\s+", " ", s).strip()


def ts_prelude():
    binp = os.path.join(VERIF, "harness", "target", "debug", "c04")
    p = subprocess.run([binp], input=b"prelude\n", stdout=subprocess.PIPE, stderr=subprocess.PIPE, timeout=60)
    if p.returncode != 0:
        raise RuntimeError("harness `prelude` failed: " + p.stderr.decode()[-300:])
    text = bytes.fromhex(p.stdout.decode().strip()).decode()
    out = {}
    for line in text.split("\n"):
        line = line.strip()
        if not line:
            continue
        m = re.match(r"(const|type)\s+([\w$]+)\s*=\s*(.*)$", line)
        if not m:
            raise RuntimeError("prelude line not understood: " + line[:80])
        out[m.group(2)] = norm(m.group(3))
    return out


def wat_funcs():
    text = open(os.path.join(REPO, "crates/samlang-compiler/src/libsam.wat")).read()
    text = re.sub(r";;[^\n]*", "", text)
    forms, depth, start = [], 0, None
    for i, c in enumerate(text):
        if c == "(":
            if depth == 0:
                start = i
            depth += 1
        elif c == ")":
            depth -= 1
            if depth == 0:
                forms.append(norm(text[start:i + 1]))
    out = {}
    for f in forms:
        m = re.match(r"\((func|global|data|import)\s+(\"[^\"]*\"\s+\"[^\"]*\"|\$[\w$]+)", f)
        name = (m.group(1) + " " + m.group(2)) if m else f[:40]
        if m and m.group(1) == "func":
            name = m.group(2)
        out[name] = f
    return out


def current():
    cur = {"ts": ts_prelude(), "wat": wat_funcs(),
           "loader.js": norm(open(os.path.join(REPO, "crates/samlang-compiler/src/loader.js")).read())}
    return cur


def digest(cur):
    h = lambda s: hashlib.sha256(s.encode()).hexdigest()[:16]
    return {"ts": cur["ts"], "wat": {k: h(v) for k, v in cur["wat"].items()}, "loader.js": h(cur["loader.js"]),
            "model_of": MODEL_OF}


def main():
    try:
        d = digest(current())
    except Exception as e:
        print(json.dumps({"error": str(e)})); sys.exit(2)
    if "--pin" in sys.argv:
        json.dump(d, open(PIN, "w"), indent=1, sort_keys=True)
        print("pinned", len(d["ts"]), "prelude entries,", len(d["wat"]), "wat forms"); return
    if not os.path.exists(PIN):
        print(json.dumps({"error": "no pinned normal form"})); sys.exit(2)
    pin = json.load(open(PIN))
    changed = []
    for side in ("ts", "wat"):
        for k in sorted(set(pin[side]) | set(d[side])):
            if pin[side].get(k) != d[side].get(k):
                changed.append({"side": side, "builtin": k, "model": MODEL_OF.get(k, "?"),
                                "now": d[side].get(k, "<removed>")[:300], "pinned": pin[side].get(k, "<new>")[:300]})
    if pin["loader.js"] != d["loader.js"]:
        changed.append({"side": "loader.js", "builtin": "loader.js", "model": MODEL_OF["loader.js"]})
    print(json.dumps(changed, indent=1))
    sys.exit(3 if changed else 0)


if __name__ == "__main__":
    main()
