#!/usr/bin/env python3
"""C04 translator: reads the per-operator emission tables of the two backends from /repo and
writes lean/SamVerif/Generated/TsOps.lean (the term the C04 operator theorems are about).

Read from:
  crates/samlang-ast/src/hir.rs   BinaryOperator::as_str          (operator -> JS symbol)
  crates/samlang-ast/src/lir.rs   Statement::Binary arm of pretty_print_internal
                                  (operator group -> wrapper: Math.floor( / Math.trunc( / Number( / none)
  crates/samlang-ast/src/wasm.rs  InlineInstruction::Binary arm    (operator -> i32 opcode)
Fails loudly (exit 2, names the construct) if the source no longer has the expected shape.
Deliberately dumb: anchored regexes over one function body each.
"""
import os, re, sys

OPS = ["MUL", "DIV", "MOD", "PLUS", "MINUS", "LAND", "LOR", "SHL", "SHR", "XOR", "LT", "LE", "GT", "GE", "EQ", "NE"]
JSSYM = {"*": "mul", "/": "div", "%": "mod", "+": "add", "-": "sub", "&": "band", "|": "bor", "<<": "shl",
         ">>": "sar", ">>>": "shr", "^": "xor", "<": "lt", "<=": "le", ">": "gt", ">=": "ge", "==": "eq",
         "!=": "ne", "===": "seq", "!==": "sne"}
WOPS = {"mul", "div_s", "div_u", "rem_s", "rem_u", "add", "sub", "and", "or", "shl", "shr_s", "shr_u", "xor",
        "lt_s", "lt_u", "le_s", "le_u", "gt_s", "gt_u", "ge_s", "ge_u", "eq", "ne"}
WRAPS = {"Math.floor(": "floor", "Math.trunc(": "trunc", "Number(": "number"}


class Shape(Exception):
    pass


def body_after(text, anchor, what):
    """Text of the brace-balanced block that starts at the first `{` after `anchor`."""
    i = text.find(anchor)
    if i < 0:
        raise Shape(f"{what}: anchor `{anchor}` not found")
    j = text.find("{", i + len(anchor) - 1 if anchor.endswith("{") else i)
    depth, k = 0, j
    while k < len(text):
        if text[k] == "{":
            depth += 1
        elif text[k] == "}":
            depth -= 1
            if depth == 0:
                return text[j + 1:k]
        k += 1
    raise Shape(f"{what}: unbalanced braces")


def extract(repo):
    hir = open(os.path.join(repo, "crates/samlang-ast/src/hir.rs")).read()
    lir = open(os.path.join(repo, "crates/samlang-ast/src/lir.rs")).read()
    wasm = open(os.path.join(repo, "crates/samlang-ast/src/wasm.rs")).read()

    # 1. as_str
    i = hir.find("impl BinaryOperator")
    if i < 0:
        raise Shape("hir.rs: `impl BinaryOperator` not found")
    b = body_after(hir[i:], "pub fn as_str(&self) -> &'static str {", "hir.rs BinaryOperator::as_str")
    sym = {}
    for m in re.finditer(r"Self::(\w+)\s*=>\s*\"([^\"]*)\"", b):
        if m.group(2) not in JSSYM:
            raise Shape(f"hir.rs as_str: unknown JS operator text {m.group(2)!r} for {m.group(1)}")
        sym[m.group(1)] = JSSYM[m.group(2)]
    if sorted(sym) != sorted(OPS):
        raise Shape(f"hir.rs as_str: operators {sorted(sym)} != expected {sorted(OPS)}")

    # 2. TS wrapper per operator group
    i = lir.find("Self::Binary { name, operator, e1, e2 } =>")
    if i < 0:
        raise Shape("lir.rs: `Self::Binary { name, operator, e1, e2 } =>` arm not found")
    mb = body_after(lir[i:], "match *operator {", "lir.rs Statement::Binary `match *operator`")
    # split into arms: pattern => { body }
    wrap, strict_cmp = {}, {}
    ref_strict = None
    pos = 0
    while True:
        m = re.compile(r"((?:\s*\|?\s*BinaryOperator::\w+)+)\s*=>\s*\{").search(mb, pos)
        if not m:
            break
        names = re.findall(r"BinaryOperator::(\w+)", m.group(1))
        arm = body_after(mb[m.start():], "=> {", "lir.rs Binary arm " + "|".join(names))
        pos = m.start() + len(m.group(0)) + len(arm)
        if "operator.as_str()" not in arm:
            raise Shape("lir.rs Binary arm " + "|".join(names) + ": does not print operator.as_str()")
        first = re.search(r"collector\.push_str\(\"([A-Za-z.]+\()\"\)", arm)
        w = "plain"
        if first:
            if first.group(1) not in WRAPS:
                raise Shape(f"lir.rs Binary arm {'|'.join(names)}: unknown wrapper {first.group(1)!r}")
            w = WRAPS[first.group(1)]
            if arm.count('collector.push(\')\')') < 1:
                raise Shape(f"lir.rs Binary arm {'|'.join(names)}: wrapper is not closed")
        # the non-string branch must print e1 <sym> e2 in this order
        order = [x for x in re.findall(r"\b(e1|e2)\.pretty_print", arm)]
        if not order or order[0] != "e1" or order[-1] != "e2":
            raise Shape(f"lir.rs Binary arm {'|'.join(names)}: operands not printed as e1 <op> e2")
        if "EQ" in names or "NE" in names:
            # reference operands: does the arm append `=` (=== / !==) when an operand is a reference?
            has_flag = re.search(r"let is_ref_cmp\s*=[^;]*type_is_reference\(\)[^;]*;", arm) is not None
            appends = re.search(r"if is_ref_cmp \{\s*collector\.push\('='\);\s*\}", arm) is not None
            if has_flag != appends:
                raise Shape("lir.rs Binary arm EQ/NE: is_ref_cmp computed but not used (or used but not computed)")
            ref_strict = has_flag
        for n in names:
            if n in wrap:
                raise Shape(f"lir.rs Binary: operator {n} matched twice")
            wrap[n] = w
    if sorted(wrap) != sorted(OPS):
        raise Shape(f"lir.rs Binary: arms cover {sorted(wrap)} != {sorted(OPS)}")

    # 3. wasm opcode
    i = wasm.find("let op_s = match op {")
    if i < 0:
        raise Shape("wasm.rs: `let op_s = match op {` not found")
    wb = body_after(wasm[i:], "let op_s = match op {", "wasm.rs op_s table")
    wop = {}
    for m in re.finditer(r"hir::BinaryOperator::(\w+)\s*=>\s*\"([^\"]*)\"", wb):
        if m.group(2) not in WOPS:
            raise Shape(f"wasm.rs: unknown opcode i32.{m.group(2)} for {m.group(1)}")
        wop[m.group(1)] = m.group(2)
    if sorted(wop) != sorted(OPS):
        raise Shape(f"wasm.rs op_s: operators {sorted(wop)} != {sorted(OPS)}")
    after = wasm[i + len(wb):i + len(wb) + 600]
    if 'collector.push_str("(i32.")' not in after or not re.search(r"v1\.pretty_print[\s\S]*v2\.pretty_print", after):
        raise Shape("wasm.rs: `(i32.<op> v1 v2)` printing not found after the op_s table")
    if ref_strict is None:
        raise Shape("lir.rs Binary: no arm for EQ/NE")
    return sym, wrap, wop, ref_strict


def render(sym, wrap, wop, ref_strict):
    out = ["-- GENERATED by /verif/extract/c04_tsops.py from /repo (hir.rs as_str, lir.rs Statement::Binary,",
           "-- wasm.rs InlineInstruction::Binary). Do not edit: rewritten on every `./check C04` run.",
           "import SamVerif.Model.BackendOps", "namespace SamVerif.Backends", "",
           "/-- TypeScript emission of `let x = e1 <op> e2` : wrapper and JS operator symbol -/",
           "def tsForm : Op → Wrap × JsSym"]
    out += [f"  | .{o} => (.{wrap[o]}, .{sym[o]})" for o in OPS]
    out += ["", "/-- WebAssembly opcode `i32.<op>` -/", "def wasmOpcode : Op → WOp"]
    out += [f"  | .{o} => .{wop[o]}" for o in OPS]
    out += ["", "/-- EQ/NE on operands that are references at run time are printed as `===` / `!==` -/",
            f"def tsRefCmpStrict : Bool := {'true' if ref_strict else 'false'}"]
    out += ["", "end SamVerif.Backends", ""]
    return "\n".join(out)


def main():
    repo = os.environ.get("SAMVERIF_REPO", "/repo")
    dst = os.path.join(os.path.dirname(os.path.dirname(os.path.abspath(__file__))), "lean", "SamVerif", "Generated", "TsOps.lean")
    try:
        text = render(*extract(repo))
    except Shape as e:
        print(f"c04_tsops: SOURCE SHAPE CHANGED: {e}", file=sys.stderr)
        sys.exit(2)
    old = open(dst).read() if os.path.exists(dst) else None
    if old != text:
        os.makedirs(os.path.dirname(dst), exist_ok=True)
        open(dst, "w").write(text)
        print("c04_tsops: wrote", dst)
    else:
        print("c04_tsops: unchanged")


if __name__ == "__main__":
    main()
