#!/bin/bash
# Offline build of the whole framework: Rust harness (against /repo's working tree, hooks on),
# Lean library (all theorems) and the native model driver.
set -e
cd "$(dirname "$0")"
export CARGO_NET_OFFLINE=true
cp /repo/Cargo.lock harness/Cargo.lock
(cd harness && cargo build --offline)
(cd lean && lake build SamVerif samverif-driver)
echo "setup ok"
