#!/bin/bash
# Offline build of the whole framework: Rust harness binaries (against /repo's working tree, hooks
# on), and for every claimed property its Lean theorem module and native model driver.
cd "$(dirname "$0")"
export CARGO_NET_OFFLINE=true
cp /repo/Cargo.lock harness/Cargo.lock
props=$(python3 -c "import json;print(' '.join(c['property_id'] for c in json.load(open('MANIFEST.json'))['checks']))")
rc=0
for p in $props; do
  lp=$(echo $p | tr 'A-Z' 'a-z')
  (cd harness && cargo build --offline --bin $lp) || rc=1
  (cd lean && lake build $(grep -ho 'SamVerif\.Props\.[A-Za-z0-9]*' SamVerif/Audit/$p.lean | sort -u) drv-$lp) || rc=1
done
# A property whose theorem module or harness does not build is reported by its own check
# (proof_gate: VIOLATION ... no-failing-input-found); setup itself only pre-builds, so that one
# broken property cannot prevent the others from being run.
[ $rc = 0 ] && echo "setup ok" || echo "setup finished with build errors in some properties (their checks will report them)"
exit 0
