"""C06 — a program containing a static error is always rejected and never compiled.

Proof: lean/SamVerif/Props/C06.lean over Model/IntRange.lean (TokenProducer range gate + parser
literal reading) and Model/Assign.lean (assignability / meet / same-type / constraint solving).
Tie, on every run:
  tok  real TokenProducer (hook H6)            vs IntRange.produce      (token streams)
  lit  real expression parser literal values   vs IntRange.parserValue  (single literals)
  asg  real assignability_check/type_meet/is_the_same_type vs Assign.*  (type pairs)
  slv  real solve_type_constraints             vs Assign.solveTypeConstraints
  join Lean model of the branch-join rule (ifChainOk / matchArmsOk) vs the real checker on programs
       with a wrongly typed branch at every position of if / else-if / if-let chains (2..5) and
       match arms (2, 3, 5), in constrained and unconstrained contexts
  scope  every binding construct x {use in scope, use of that name just outside its scope}; theorems of
       Props/C06c.lean over builder C13's Model/Scope.lean, tied by C13's `ssa` protocol run on these programs
  pos  position family: 12 violation kinds x builder C07's 36 expression contexts; 5 fault kinds + placeholder conflict in
       the delayed-check positions of builder C13's generic-argument family (both imported read-only)
  pat  deterministic family: every diagnostic gate of check_matching_pattern (+ accepted twins, every object/tuple
       position of a refutable sub-pattern); expected verdict from builder C07's Lean model via drv-c07
  misc deterministic family: kind gates (Model/Gates.lean `kind`), rebinding, builtin/under-constrained values,
       hint paths, syntax gates of parser and lexer; each with the expected error kind
  sup  real resolve_all_transitive_super_types (hook) vs Gates.resolveSupers on random declaration graphs (exact)
  abs/confi/nam  abstract-type gate, conformance against generic interface instances, class/module/member names
  vis/imp/tya/conf/bnd  Lean kernels of Model/Gates.lean (visibility, imports, type-argument arity,
       interface conformance, bound validation) vs the real checker on generated declarations
Direct implementation-side oracles (no model): literal range spec on token streams and parsed
expressions; "assignable iff equal up to any-holes" on type pairs; instance-of on solved
constraints; and the property itself on whole programs: every guaranteed-ill-typed single-edit
mutant of an accepted program (generated ones + the repository's tests/*.sam) must produce >= 1
error located in the mutated module and `compile_sources` must return Err.
"""
import json, os, re
from . import common
from .common import hexs

P31 = 2147483648

# ------------------------------------------------------------------ tok protocol: generator

# vocabulary of "other" tokens: (text, kind reported by the hook, text reported by the hook)
OTHERS = [("(", "op", "("), (")", "op", ")"), ("+", "op", "+"), ("*", "op", "*"), (",", "op", ","),
          ("=", "op", "="), ("x", "lower", "x"), ("Foo", "upper", "Foo"), ("val", "kw", "val"),
          ("\"s\"", "str", "\"s\""), ("/* c */", "block", "c"), ("// c\n", "line", "c"),
          ("/** d */", "doc", "d"), ("!", "op", "!"), ("<", "op", "<"), ("==", "op", "=="),
          (";", "op", ";"), ("{", "op", "{"), ("}", "op", "}"), (".", "op", "."), ("::", "op", "::"),
          ("/", "op", "/"), ("%", "op", "%"), ("return", "kw", "return"), ("->", "op", "->"),
          ("@", "error", "@")]
OTHER_IDX = {(k, t): i for i, (_, k, t) in enumerate(OTHERS)}
TIGHT = {"(", ")", ",", ";", "{", "}"}
INTERESTING = [0, 1, 7, 42, 2147483646, 2147483647, P31, P31 + 1, 4294967295, 4294967296,
               9223372036854775807, 9223372036854775808, 9223372036854775809,
               18446744073709551616, 99999999999999999999, 21474836480, 214748364]


def gen_int(rng):
    k = rng.below(10)
    if k < 6:
        return rng.pick(INTERESTING)
    if k < 8:
        return rng.below(1 << 31)
    return rng.below(1 << rng.range(1, 70))


def gen_stream(rng, guarded):
    """Returns a list of raw tokens: ('i', value) | ('m',) | ('o', idx). If `guarded`, a literal
    2^31 only appears first or directly after '-' (steers away from finding C06-F1)."""
    n = rng.range(1, 14)
    toks = []
    for _ in range(n):
        k = rng.below(10)
        if k < 4:
            v = gen_int(rng)
            if guarded and v == P31 and toks and toks[-1] != ("m",):
                if rng.chance(1, 2):
                    toks.append(("m",))
                else:
                    v = P31 - 1
            toks.append(("i", v))
        elif k < 6:
            toks.append(("m",))
            if rng.chance(1, 2):
                toks.append(("i", rng.pick([P31, P31, P31 - 1, P31 + 1, 5])))
        else:
            toks.append(("o", rng.below(len(OTHERS))))
    return toks


def layout(rng, toks):
    """Text for a raw token list; separators chosen so that the lexer sees exactly these tokens."""
    out = ""
    prev = None
    for t in toks:
        text = str(t[1]) if t[0] == "i" else "-" if t[0] == "m" else OTHERS[t[1]][0]
        tight_ok = prev is not None and (
            (prev in TIGHT) or (text in TIGHT) or (prev == "-" and t[0] == "i"))
        if prev is not None and prev.endswith("\n"):
            sep = ""
        elif prev == "@":
            sep = rng.pick([" ", "\n"])
        elif tight_ok and rng.chance(1, 2):
            sep = ""
        else:
            sep = rng.pick([" ", " ", " ", "\n", "  ", "\t", " \n "])
        if prev is None:
            sep = rng.pick(["", "", " ", "\n"])
        out += sep + text
        prev = text
    return out


def raw_str(t):
    return f"i{t[1]}" if t[0] == "i" else "m" if t[0] == "m" else f"o{t[1]}"


def spec_in_range(toks, i):
    """The property's own notion (independent of model and code)."""
    v = toks[i][1]
    return v < P31 or (v == P31 and i > 0 and toks[i - 1] == ("m",))


def canon_tok_answer(ans):
    """Impl answer `T kind:hex@span,... E int@span,...` -> ('T .. E ..', other_errors)."""
    if not ans.startswith("T "):
        return ans, []
    body, errs = ans[2:].split(" E ")
    toks, flags = [], []
    espans = {}
    others = []
    for e in ([] if errs == "-" else errs.split(",")):
        kind, span = e.split("@")
        if kind == "int":
            espans[span] = espans.get(span, 0) + 1
        else:
            others.append(e)
    used = set()
    for t in ([] if body == "-" else body.split(",")):
        kt, span = t.split("@")
        kind, hx = kt.split(":")
        text = common.unhex(hx).decode("utf-8", "replace")
        if kind == "int" and text.startswith("-"):
            toks.append("n" if text == "-2147483648" else "n?" + text)
            flags += ["0", "0"]
        elif kind == "int":
            toks.append("i" + text)
            flags.append("1" if span in espans else "0")
            used.add(span)
        elif kind == "op" and text == "-":
            toks.append("m"); flags.append("0")
        else:
            idx = OTHER_IDX.get((kind, text))
            toks.append(f"o{idx}" if idx is not None else f"o?{kind}:{text}")
            flags.append("0")
    stray = [s for s in espans if s not in used]
    c = f"T {','.join(toks) or '-'} E {','.join(flags) or '-'}"
    if stray:
        c += " STRAY-INT-ERROR " + ",".join(stray)
    return c, others


def f1_signature(toks, i):
    """C06-F1: literal 2^31 that is not the first token and not directly preceded by '-'."""
    return toks[i] == ("i", P31) and i > 0 and toks[i - 1] != ("m",)


# ------------------------------------------------------------------ type kernels: generator + spec

def gen_ty(rng, d, allow_any=True, generics=(1, 2, 3)):
    k = rng.below(12 if d > 0 else 6)
    if k < 3:
        return rng.pick(["u", "b", "i"])
    if k == 3 and allow_any:
        return ("a", rng.below(2))
    if k in (4, 5):
        return ("g", rng.pick(generics)) if generics else "i"
    if k < 10:
        n = rng.pick([0, 1, 1, 2, 3])
        # invariant of the code base (debug_assert in NominalType::to_description): a class-statics
        # type never carries type arguments
        st = 1 if (n == 0 and rng.chance(1, 4)) else 0
        return ("n", st, rng.range(1, 2), rng.range(1, 3),
                tuple(gen_ty(rng, d - 1, allow_any, generics) for _ in range(n)))
    n = rng.pick([0, 1, 2, 3])
    return ("f", tuple(gen_ty(rng, d - 1, allow_any, generics) for _ in range(n)),
            gen_ty(rng, d - 1, allow_any, generics))


def mutate_ty(rng, t, d=0):
    """A nearby type: mostly identical, with a few local edits (so that deep checks are reached)."""
    if rng.chance(1, 7 + 3 * d):
        k = rng.below(6)
        if k == 0:
            return ("a", rng.below(2))
        if k == 1:
            return rng.pick(["u", "b", "i"])
        if k == 2:
            return gen_ty(rng, 1)
        if k == 3 and isinstance(t, tuple) and t[0] == "n":
            return ("n", 1 - t[1] if (rng.chance(1, 3) and not t[4]) else t[1], t[2] if rng.chance(1, 2) else 3 - t[2],
                    t[3] if rng.chance(1, 2) else t[3] % 3 + 1, t[4])
        if k == 4 and isinstance(t, tuple) and t[0] in ("n", "f"):
            args = list(t[4] if t[0] == "n" else t[1])
            if args and rng.chance(1, 2):
                args.pop(rng.below(len(args)))
            elif not (t[0] == "n" and t[1] == 1):
                args.insert(rng.below(len(args) + 1), gen_ty(rng, 0))
            return (t[:4] + (tuple(args),)) if t[0] == "n" else ("f", tuple(args), t[2])
        if k == 5 and isinstance(t, tuple) and t[0] == "g":
            return ("g", t[1] % 3 + 1)
    if isinstance(t, tuple) and t[0] == "n":
        return t[:4] + (tuple(mutate_ty(rng, x, d + 1) for x in t[4]),)
    if isinstance(t, tuple) and t[0] == "f":
        return ("f", tuple(mutate_ty(rng, x, d + 1) for x in t[1]), mutate_ty(rng, t[2], d + 1))
    return t


def ty_str(t):
    if isinstance(t, str):
        return t
    if t[0] == "a":
        return f"a{t[1]}"
    if t[0] == "g":
        return f"g{t[1]};"
    if t[0] == "n":
        return f"n{t[1]},{t[2]},{t[3]}(" + "".join(ty_str(x) for x in t[4]) + ")"
    return "f(" + "".join(ty_str(x) for x in t[1]) + ")" + ty_str(t[2])


def has_any(t):
    if isinstance(t, str):
        return False
    if t[0] == "a":
        return True
    if t[0] == "g":
        return False
    if t[0] == "n":
        return any(has_any(x) for x in t[4])
    return any(has_any(x) for x in t[1]) or has_any(t[2])


def has_statics(t):
    if isinstance(t, str) or t[0] in ("a", "g"):
        return False
    if t[0] == "n":
        return t[1] == 1 or any(has_statics(x) for x in t[4])
    return any(has_statics(x) for x in t[1]) or has_statics(t[2])


def consistent(a, b):
    """Specification: equal up to `any` holes (gradual-typing consistency)."""
    if (isinstance(a, tuple) and a[0] == "a") or (isinstance(b, tuple) and b[0] == "a"):
        return True
    if isinstance(a, str) or isinstance(b, str):
        return a == b
    if a[0] != b[0]:
        return False
    if a[0] == "g":
        return a[1] == b[1]
    if a[0] == "n":
        return a[1:4] == b[1:4] and len(a[4]) == len(b[4]) and all(consistent(x, y) for x, y in zip(a[4], b[4]))
    return len(a[1]) == len(b[1]) and all(consistent(x, y) for x, y in zip(a[1], b[1])) and consistent(a[2], b[2])


def subst_py(t, m):
    if isinstance(t, str) or t[0] == "a":
        return t
    if t[0] == "g":
        return m.get(t[1], t)
    if t[0] == "n":
        return t[:4] + (tuple(subst_py(x, m) for x in t[4]),)
    return ("f", tuple(subst_py(x, m) for x in t[1]), subst_py(t[2], m))


def parse_ty(s, prefix_from=None):
    pos = [0]

    def num():
        st = pos[0]
        while pos[0] < len(s) and s[pos[0]].isdigit():
            pos[0] += 1
        return int(s[st:pos[0]])

    def lst():
        assert s[pos[0]] == "("; pos[0] += 1
        out = []
        while s[pos[0]] != ")":
            out.append(ty())
        pos[0] += 1
        return tuple(out)

    def ty():
        c = s[pos[0]]; pos[0] += 1
        if c in "ubi":
            return c
        if c == "a":
            return ("a", num())
        if c == "g":
            n = num(); pos[0] += 1
            return ("g", n)
        if c == "n":
            st = num(); pos[0] += 1; m = num(); pos[0] += 1; i = num()
            return ("n", st, m, i, lst())
        if c == "f":
            a = lst()
            return ("f", a, ty())
        raise ValueError(s)
    if prefix_from is not None:
        pos[0] = prefix_from
        t = ty()
        return t, pos[0]
    t = ty()
    assert pos[0] == len(s)
    return t


def parse_subst(s):
    """`k:ty,k:ty,...` (types contain commas themselves, so parse by prefix)."""
    out, i = {}, 0
    if s == "-":
        return out
    while i < len(s):
        j = s.index(":", i)
        k = int(s[i:j])
        t, i = parse_ty(s, j + 1)
        out[k] = t
        if i < len(s):
            assert s[i] == ","
            i += 1
    return out


# ------------------------------------------------------------------ program generator with fault sites

class Site:
    """A place where exactly one guaranteed-ill-typed edit can be applied."""
    def __init__(self, kind, good, bads):
        self.kind, self.good, self.bads = kind, good, bads   # good: list of nodes, bads: [(label, text)]


def render(nodes, target=None, bad=None):
    out = []
    for n in nodes:
        if isinstance(n, str):
            out.append(n)
        elif n is target:
            out.append(bad)
        else:
            out.append(render(n.good, target, bad))
    return "".join(out)


def sites_of(nodes, acc=None):
    acc = [] if acc is None else acc
    for n in nodes:
        if isinstance(n, Site):
            acc.append(n)
            sites_of(n.good, acc)
    return acc


RANGE_BADS = [("2147483649", "2147483649"), ("4294967296", "4294967296"), ("2^63", "9223372036854775808"),
              ("huge", "99999999999999999999")]
WRONG = {"int": ["true", "\"w\"", "Process.println(\"u\")"], "bool": ["7", "\"w\"", "Process.println(\"u\")"],
         "Str": ["7", "false", "Process.println(\"u\")"]}


class ProgGen:
    """Two-module programs (a library with interface/enum/generic/bounded/private declarations and
    a Main using them). Every Site records an edit that makes the program ill-typed by the
    language rules, whatever the surrounding inference does: the replaced term has a definite
    primitive type and the context demands a different definite type, or a name that exists
    nowhere, a private member used from another class/module, a wrong count, a dropped arm of a
    wildcard-free match, a class that does not implement the bound, a literal beyond 32 bits."""

    def __init__(self, rng):
        self.rng = rng
        self.libname = rng.pick(["lib.Shapes", "Shapes", "a.b.Geo", "util.core.Lib"])
        self.mainname = rng.pick(["Main", "app.Main", "Prog"])

    def lit(self, ty):
        r = self.rng
        if ty == "int":
            v = str(r.pick([0, 1, 2, 3, 5, 7, 9]))   # small: keeps the base program free of constant-fold overflow (a C02/C03 matter)
            return [Site("literal-range", [v], RANGE_BADS + [("2147483648", "2147483648")])]
        if ty == "bool":
            return [r.pick(["true", "false"])]
        return [r.pick(['"a"', '"hello"', '""'])]

    def var(self, ty, env):
        names = [n for n, t in env if t == ty]
        if not names:
            return self.lit(ty)
        n = self.rng.pick(names)
        return [Site("unbound-variable", [n], [("zz9", "zz9"), ("upper-case-miss", n + "Q9")])]

    def demand(self, ty, nodes, where=""):
        """`nodes` sits where the context demands exactly `ty`."""
        return [Site("operand-type", nodes, [(f"{where}{ty}<-{w}", w) for w in WRONG[ty]])]

    def expr(self, ty, d, env):
        r = self.rng
        if d <= 0:
            return self.var(ty, env) if r.chance(1, 2) else self.lit(ty)
        k = r.below(10)
        sub = lambda t: self.demand(t, self.expr(t, d - 1, env))
        if ty == "int":
            if k < 3:
                # operands in their own parentheses: a literal site is never directly preceded by a
                # `-` token, so replacing it by 2147483648 is out of range by the language rules
                return ["(("] + sub("int") + [") ", r.pick(["+", "-", "*"]), " ("] + sub("int") + ["))"]
            if k == 3:
                return ["(if "] + self.demand("bool", self.expr("bool", d - 1, env), "if-cond:") + [" { "] + self.expr("int", d - 1, env) + [" } else { "] + sub("int") + [" })"]
            if k == 4:
                a1, a2 = sub("int"), sub("int")
                return [Site("call-arity", ["Util.addI("] + a1 + [", "] + a2 + [")"],
                             [("extra-arg", "Util.addI(1, 2, 3)"), ("missing-arg", "Util.addI(1)"), ("no-arg", "Util.addI()")])]
            if k == 5:
                return [Site("unresolved-member", ["Util.addI"], [("no-such-function", "Util.addJ9")]),
                        "("] + sub("int") + [", "] + sub("int") + [")"]
            if k == 6:
                self.nlam = getattr(self, "nlam", 0) + 1
                q = f"q{self.nlam}"
                return [Site("unresolved-class", ["Util"], [("no-such-class", "Utyl9")]), f".apply(({q}: int) -> {q} + "] + sub("int") + [", "] + sub("int") + [")"]
            if k == 7:
                return ["Util.id<int>("] + sub("int") + [")"]
            if k == 8:
                return [Site("targ-arity", ["Util.id<int>"], [("extra-targ", "Util.id<int, bool>")]), "("] + sub("int") + [")"]
            return ["(-("] + sub("int") + ["))"] if r.chance(1, 2) else self.var("int", env)
        if ty == "bool":
            if k < 3:
                return ["("] + sub("int") + [" ", r.pick(["<", "<=", ">", ">=", "==", "!="]), " "] + sub("int") + [")"]
            if k < 5:
                return ["("] + sub("bool") + [" ", r.pick(["&&", "||"]), " "] + sub("bool") + [")"]
            if k == 5:
                return ["!("] + sub("bool") + [")"]
            if k == 6:
                return ["Util.isPos("] + sub("int") + [")"]
            if k == 7:
                return ["("] + sub("Str") + [" == "] + sub("Str") + [")"]
            return self.var("bool", env)
        if k < 4:
            return ["("] + sub("Str") + [" :: "] + sub("Str") + [")"]
        if k < 6:
            return ["Str.fromInt("] + sub("int") + [")"]
        if k == 6:
            return ["Util.cat("] + sub("Str") + [", "] + sub("Str") + [")"]
        return self.var("Str", env)

    def function(self, idx):
        r = self.rng
        env = [("a", "int"), ("b", "bool"), ("s", "Str")]
        body = ["    let c = ",
                Site("unresolved-member", ["Circle.make"], [("no-such-function", "Circle.mk9")]), "("] + \
            self.demand("int", self.expr("int", 1, env)) + [");\n"]
        stmts = []
        stmts.append(["    let o: ", Site("targ-arity", ["Opt<int>"], [("extra-targ", "Opt<int, int>"), ("missing-targ", "Opt")]),
                      " = Opt.Some("] + self.demand("int", self.expr("int", 1, env)) + [");\n",
                      "    let n = ", Site("targ-arity", ["Opt.None<int>()"], [("extra-targ", "Opt.None<int, bool>()")]), ";\n",
                      "    let r1 = o.getOr("] + self.demand("int", self.lit("int")) + [") + n.fold(1, (v: int) -> v * 2);\n"])
        stmts.append(["    let bx = ShapeBox.init(", Site("bound-violation", ["c"], [("class-without-interface", "Plain.init(1)")]), ");\n",
                      "    let r2 = bx.area() + ", Site("bound-violation", ["Util.areaOf(c)"],
                                                         [("class-without-interface", "Util.areaOf(Plain.init(1))"),
                                                          ("explicit-targ", "Util.areaOf<Plain>(Plain.init(1))")]), ";\n"])
        arms = ["Red -> 0", "Green(g) -> g", "Blue(x, _) -> x"]
        drops = [(f"drop-arm-{i}", "match col { " + ", ".join(a for j, a in enumerate(arms) if j != i) + " }")
                 for i in range(3)]
        stmts.append(["    let col = Color.", r.pick(["Red()", "Green(a)", "Blue(a, b)"]), ";\n",
                      "    let r3 = ", Site("non-exhaustive-match", ["match col { " + ", ".join(arms) + " }"], drops), ";\n"])
        stmts.append(["    let r4 = ", Site("private-member", ["c.area()"], [("private-method", "c.secretM()"), ("private-field", "c.hiddenR")]),
                      " + ", Site("private-member", ["Circle.make(1).r"], [("private-function", "Circle.secretFn()")]), ";\n"])
        stmts.append(["    let r5 = ", Site("unresolved-member", ["c.r"], [("no-such-field", "c.rr9")]),
                      " + c.", Site("unresolved-member", ["area"], [("no-such-method", "aria9")]), "();\n"])
        stmts.append(["    let r6: int = "] + self.demand("int", self.expr("int", 2, env)) + [";\n"])
        chosen = [s for s in stmts if r.chance(2, 3)]
        for s in chosen:
            body += s
        rt = r.pick(["int", "bool", "Str", "int"])
        res = self.demand(rt, self.expr(rt, r.range(1, 3), env + [("c0", "none")]))
        return [f"  function f{idx}(a: int, b: bool, s: Str): {rt} = {{\n"] + body + ["    "] + res + ["\n  }\n"], rt

    def program(self):
        r = self.rng
        lib = [
            "interface Shape {\n  method area(): int\n  method name(): Str\n}\n",
            "class Circle(val r: int, private val hiddenR: int) : Shape {\n",
            Site("interface-member", ["  method area(): int = this.r * this.r * 3\n"],
                 [("missing-member", "\n"), ("mistyped-return", "  method area(): bool = true\n"),
                  ("mistyped-params", "  method area(k: int): int = k\n")]),
            "  method name(): Str = \"circle\"\n  function make(r: int): Circle = Circle.init(r, r)\n",
            "  private function secretFn(): int = 7\n  private method secretM(): int = this.hiddenR\n",
            "  method viaPrivate(): int = this.secretM() + Circle.secretFn() + this.hiddenR\n}\n",
            "class Plain(val v: int) {\n  method get(): int = this.v\n}\n",
            "private class Hidden(val h: int) {\n  function mk(): int = Hidden.init(1).h\n}\n",
            "class Opt<T>(None, Some(T)) {\n  method <R> fold(d: R, f: (T) -> R): R =\n    ",
            Site("non-exhaustive-match", ["match this { None -> d, Some(v) -> f(v) }"],
                 [("drop-arm-0", "match this { Some(v) -> f(v) }"), ("drop-arm-1", "match this { None -> d }")]),
            "\n  method getOr(d: T): T = match this { None -> d, Some(v) -> v }\n}\n",
            "class Color(Red, Green(int), Blue(int, bool)) {\n  method code(): int = match this { Red -> 0, Green(g) -> g, Blue(x, _) -> x }\n}\n",
            "class ShapeBox<T: Shape>(val s: T) {\n  method area(): int = this.s.area()\n}\n",
            "class Util {\n  function addI(a: int, b: int): int = ",
            Site("operand-type", ["a"], [("int<-true", "true")]), " + b\n",
            "  function isPos(a: int): bool = a > 0\n  function cat(a: Str, b: Str): Str = a :: b\n",
            "  function <T> id(x: T): T = x\n  function <T: Shape> areaOf(x: T): int = x.area()\n",
            "  function apply(f: (int) -> int, x: int): int = f(x)\n  function hiddenVal(): int = Hidden.mk()\n}\n",
        ]
        main = ["import { ", Site("import", ["Circle"], [("private-class", "Circle, Hidden"), ("missing-export", "Circle, Nope9")]),
                ", Plain, Opt, Color, ShapeBox, Util } from ",
                Site("import", [self.libname], [("no-such-module", self.libname + "Zz9")]), ";\n\nclass Main {\n"]
        nf = r.range(1, 3)
        calls = []
        for i in range(nf):
            f, rt = self.function(i)
            main += f
            arg = f"Main.f{i}(3, true, \"x\")"
            calls.append(arg if rt == "Str" else f"Str.fromInt({arg})" if rt == "int" else f"(if {arg} {{ \"t\" }} else {{ \"f\" }})")
        main += ["  function main(): unit = Process.println(" + " :: ".join(calls) + ")\n}\n"]
        return {self.libname: lib, self.mainname: main}


# ------------------------------------------------------------------ repository samples: textual fault sites

def mask_noncode(text):
    """Same-length copy with string literals and comments blanked."""
    out = list(text)
    i, n = 0, len(text)
    while i < n:
        if text.startswith("//", i):
            j = text.find("\n", i); j = n if j < 0 else j
        elif text.startswith("/*", i):
            j = text.find("*/", i + 2); j = n if j < 0 else j + 2
        elif text[i] == '"':
            j = i + 1
            while j < n and text[j] != '"':
                j += 2 if text[j] == "\\" else 1
            j = min(n, j + 1)
        else:
            i += 1; continue
        for k in range(i, j):
            if out[k] != "\n":
                out[k] = " "
        i = j
    return "".join(out)


def sample_sites(text):
    """(kind, label, start, end, replacement) for integer literals that are operands of an
    arithmetic/comparison operator (context demands int) in code (not strings/comments)."""
    m = mask_noncode(text)
    sites = []
    for mt in re.finditer(r"(?<![A-Za-z0-9_.])(0|[1-9][0-9]*)(?![A-Za-z0-9_.])", m):
        s, e = mt.span()
        before = m[:s].rstrip()
        after = m[e:].lstrip()
        arith = (before[-1:] in ("*", "/", "%", "+") or after[:1] in ("*", "/", "%", "+")
                 or (after[:1] == "-" and after[:2] != "->"))
        for lab, bad in RANGE_BADS:
            sites.append(("literal-range", lab, s, e, bad))
        if before[-1:] != "-":      # `-2147483648` is a 32-bit literal: not a fault
            sites.append(("literal-range", "2147483648", s, e, "2147483648"))
        sites.append(("unbound-variable", "zz9", s, e, "zz9Unbound"))
        if arith and before[-1:] != "-":
            sites.append(("operand-type", "int<-true", s, e, "true"))
            sites.append(("operand-type", "int<-str", s, e, '"w"'))
    return sites


def load_samples():
    d = os.path.join(common.REPO, "tests")
    out = {}
    for f in sorted(os.listdir(d)) if os.path.isdir(d) else []:
        if f.endswith(".sam") and f != "AllTests.sam":
            out["tests." + f[:-4]] = open(os.path.join(d, f), encoding="utf-8").read()
    return out


def closure(samples, name):
    seen, todo = {}, [name]
    while todo:
        n = todo.pop()
        if n in seen or n not in samples:
            continue
        seen[n] = samples[n]
        todo += re.findall(r"from\s+(tests\.[A-Za-z0-9_.]+)\s*;?", samples[n])
    return seen


# ------------------------------------------------------------------ running

def run_impl(lines):
    rc, out, err = common.run_exec(common.harness_bin("C06"), [], lines, 1800)
    if rc != 0 and len(out) < len(lines):
        out = out + [f"<harness died rc={rc}: {err.strip()[-200:]}>"] * (len(lines) - len(out))
    return out


def run_model(lines):
    rc, out, err = common.run_exec(common.driver_bin("C06"), [], lines, 1800)
    if rc != 0 and len(out) < len(lines):
        out = out + [f"<driver died rc={rc}: {err.strip()[-200:]}>"] * (len(lines) - len(out))
    return out


def tok_case(toks, text):
    return {"raw": [raw_str(t) for t in toks], "text": text}


def check_tok_cases(ctx, cases, stats):
    """cases: list of (toks, text). Correspondence + oracle. Returns nothing; records violations."""
    impl = run_impl(["tok " + hexs(text) for _, text in cases])
    model = run_model(["tok " + " ".join(raw_str(t) for t in toks) for toks, _ in cases])
    f1 = next((f for f in ctx.open_findings if f["id"] == "C06-F1"), None)
    for (toks, text), ia, ma in zip(cases, impl, model):
        stats["tok"] += 1
        canon, others = canon_tok_answer(ia)
        mcore = ma.split(" V ")[0]
        if canon != mcore:
            stats["tok_disagree"] += 1
            if stats["tok_disagree"] > 3:
                continue          # already reported three shrunk witnesses of this kind
            if oracle_fails_tok(toks, allow_f1=True):
                small = shrink_tok(toks)
                ctx.violation("the literal range gate breaks C06 (and the model no longer describes TokenProducer): "
                              + " ".join(layout_plain(small)),
                              {"protocol": "tok", "raw": [raw_str(t) for t in small], "text": " ".join(layout_plain(small)),
                               "first_seen": {"text": text, "impl": ia, "impl_canonical": canon, "model": ma}})
                continue
            def fails(cand):
                i2 = run_impl(["tok " + hexs(" ".join(layout_plain(cand)))])[0]
                m2 = run_model(["tok " + " ".join(raw_str(t) for t in cand)])[0]
                return canon_tok_answer(i2)[0] != m2.split(" V ")[0]
            small = common.ddmin(toks, fails) if fails(toks) else toks
            ctx.violation("model/implementation disagreement on protocol tok (TokenProducer vs Model/IntRange.lean); "
                          "the theorems of Props/C06.lean no longer describe this code",
                          {"protocol": "tok", "raw": [raw_str(t) for t in small], "text": " ".join(layout_plain(small)),
                           "first_seen": {"text": text, "impl": ia, "impl_canonical": canon, "model": ma},
                           "broken": "correspondence tok"}, no_input=True)
            continue
        # direct oracle: literal range spec vs the implementation's error flags
        flags = canon.split(" E ")[1].split(",") if " E " in canon and not canon.endswith("E -") else []
        for i, t in enumerate(toks):
            if t[0] != "i":
                continue
            stats["tok_literals"] += 1
            expect_err = not spec_in_range(toks, i)
            got_err = i < len(flags) and flags[i] == "1"
            if expect_err:
                stats["tok_out_of_range"] += 1
            if expect_err != got_err:
                if f1 and not got_err and f1_signature(toks, i):
                    if not stats["tok_f1"]:
                        known_once(ctx, f1, f"first seen in token stream {text!r}"[:140])
                    stats["tok_f1"] += 1
                elif stats["tok_oracle_fail"] >= 3:
                    stats["tok_oracle_fail"] += 1
                else:
                    stats["tok_oracle_fail"] += 1
                    small = shrink_tok(toks)
                    ctx.violation(("out-of-range literal accepted without an error" if expect_err else
                                   "32-bit literal rejected") + f": token #{i} of {text!r}",
                                  {"protocol": "tok", "raw": [raw_str(t) for t in small],
                                   "text": " ".join(layout_plain(small)), "impl": ia})
                    break


def layout_plain(toks):
    return [str(t[1]) if t[0] == "i" else "-" if t[0] == "m" else OTHERS[t[1]][0] for t in toks]


def oracle_fails_tok(toks, allow_f1=False):
    text = " ".join(layout_plain(toks))
    ia = run_impl(["tok " + hexs(text)])[0]
    canon, _ = canon_tok_answer(ia)
    flags = canon.split(" E ")[1].split(",") if " E " in canon and not canon.endswith("E -") else []
    for i, t in enumerate(toks):
        if t[0] == "i":
            exp = not spec_in_range(toks, i)
            got = i < len(flags) and flags[i] == "1"
            if exp != got and not (allow_f1 and f1_signature(toks, i)):
                return True
    return False


def shrink_tok(toks):
    return common.ddmin(toks, lambda c: oracle_fails_tok(c, allow_f1=True)) if oracle_fails_tok(toks, True) else toks


def lits_of_skeleton(s):
    return [int(x) for x in re.findall(r"\(lit (-?\d+)\)", s)]


def check_lit(ctx, rng, n, stats):
    """Parser-level literal values: model (parserValue) vs real parser, plus the spec oracle."""
    f1 = next((f for f in ctx.open_findings if f["id"] == "C06-F1"), None)
    cases = []
    for _ in range(n):
        v = gen_int(rng)
        shape = rng.below(6)
        if shape == 0:
            text, lits, raws = str(v), [(v, False)], [("i", v)]
        elif shape == 1:
            text, lits, raws = "-" + rng.pick(["", " "]) + str(v), [(v, True)], [("m",), ("i", v)]
        elif shape == 2:
            if v == P31: v -= 1
            text, lits, raws = f"({v})", [(v, False)], [("o", 0), ("i", v), ("o", 1)]
        elif shape == 3:
            w = gen_int(rng)
            if w == P31: w += 1
            if v == P31: v = 5
            text, lits, raws = f"{v} + {w}", [(v, False), (w, False)], [("i", v), ("o", 2), ("i", w)]
        elif shape == 4:
            w = gen_int(rng)
            if v == P31: v = 6
            text, lits, raws = f"{v} * -{w}", [(v, False), (w, True)], [("i", v), ("o", 3), ("m",), ("i", w)]
        else:
            if v == P31: v = 8
            text, lits, raws = f"f({v}, -{P31})", [(v, False), (P31, True)], \
                [("o", 6), ("o", 0), ("i", v), ("o", 4), ("m",), ("i", P31), ("o", 1)]
        cases.append((text, lits, raws))
    cases.append(("1 + 2147483648", [(1, False), (P31, False)], [("i", 1), ("o", 2), ("i", P31)]))   # witness of C06-F1 (fixed)
    cases.append(("f(2147483648)", [(P31, False)], [("o", 6), ("o", 0), ("i", P31), ("o", 1)]))
    impl = run_impl(["lit " + hexs(t) for t, _, _ in cases])
    model = run_model(["tok " + " ".join(raw_str(r) for r in raws) for _, _, raws in cases])
    for (text, lits, raws), ia, ma in zip(cases, impl, model):
        stats["lit"] += 1
        m = re.match(r"errs=(\d+) interrs=(\d+) (.*)", ia)
        if not m:
            ctx.violation("expression parser crashed on a literal expression", {"protocol": "lit", "text": text, "impl": ia})
            continue
        errs, interrs, sk = int(m.group(1)), int(m.group(2)), m.group(3)
        got = lits_of_skeleton(sk)
        # model: number of error flags and the parser values
        mflags = ma.split(" E ")[1].split(" V ")[0] if " E " in ma else ""
        mvals = ma.split(" V ")[1] if " V " in ma else "-"
        mvals = [] if mvals == "-" else [int(x) for x in mvals.split(",")]
        if interrs != mflags.count("1") or (errs == 0 and got != mvals):
            ctx.violation("model/implementation disagreement on protocol lit (parser literal reading vs IntRange.parserValue)",
                          {"protocol": "lit", "text": text, "impl": ia, "model": ma, "broken": "correspondence lit"},
                          no_input=True)
            continue
        # spec oracle
        written = []
        bad = False
        for v, neg in lits:
            if neg and v == P31:
                written.append(-P31)
            elif v < P31:
                written.append(v)     # sign handled by the unary node, literal itself is v
            else:
                bad = True
        if bad and errs == 0:
            if f1 and any(v == P31 and not neg for v, neg in lits) and not any(v > P31 for v, _ in lits):
                if not stats["lit_f1"]:
                    known_once(ctx, f1, f"expression {text!r} parsed as {sk}")
                stats["lit_f1"] += 1
            else:
                ctx.violation(f"out-of-range literal accepted by the parser: {text!r} -> {sk}", {"protocol": "lit", "text": text, "impl": ia})
        elif not bad and (errs != 0 or got != written):
            ctx.violation(f"in-range literal expression misread or rejected: {text!r} -> {ia}", {"protocol": "lit", "text": text, "impl": ia})


def check_types(ctx, rng, n, stats):
    lines, meta = [], []
    for _ in range(n):
        a = gen_ty(rng, 3, allow_any=rng.chance(1, 2))
        b = mutate_ty(rng, a) if rng.chance(4, 5) else gen_ty(rng, 2)
        if rng.chance(1, 2):
            a, b = b, a
        lines.append(f"asg {ty_str(a)} {ty_str(b)}")
        meta.append((a, b))
    impl, model = run_impl(lines), run_model(lines)
    for l, (a, b), ia, ma in zip(lines, meta, impl, model):
        stats["asg"] += 1
        if ia != ma:
            stats["asg_disagree"] += 1
            if stats["asg_disagree"] > 3:
                continue
            ctx.violation("model/implementation disagreement on protocol asg (type_system.rs vs Model/Assign.lean)",
                          {"protocol": "asg", "line": l, "impl": ia, "model": ma, "broken": "correspondence asg"},
                          no_input=consistent(a, b) == (ia.startswith("a=1")))
            continue
        m = re.match(r"a=(\d) m=(\S+) s=(\d) p=(\d)(\d)", ia)
        if not m:
            ctx.violation("type kernel crashed", {"protocol": "asg", "line": l, "impl": ia}); continue
        acc, meet, same = m.group(1) == "1", m.group(2), m.group(3) == "1"
        spec = consistent(a, b)
        if spec:
            stats["asg_accept"] += 1
        if not has_any(a) and not has_any(b):
            stats["asg_anyfree"] += 1
        if (acc != spec or (meet != "none") != spec):
            stats["asg_spec_fail"] += 1
        if (acc != spec or (meet != "none") != spec) and stats["asg_spec_fail"] <= 3:
            ctx.violation(f"assignability/meet accepts {ty_str(a)} vs {ty_str(b)} = {acc}/{meet}, specification says {spec}",
                          {"protocol": "asg", "line": l, "impl": ia})
        elif spec and not has_any(a) and not has_any(b) and parse_ty(meet) != a:
            ctx.violation("meet of two identical any-free types is a different type", {"protocol": "asg", "line": l, "impl": ia})
        if not has_any(a) and not has_any(b) and not has_statics(a) and not has_statics(b) and same != (a == b):
            ctx.violation(f"is_the_same_type({ty_str(a)}, {ty_str(b)}) = {same}", {"protocol": "asg", "line": l, "impl": ia})
    # constraint solving
    lines, meta = [], []
    for _ in range(n // 2):
        tps = sorted(set(rng.pick([1, 2, 3]) for _ in range(rng.range(0, 3))))
        g = gen_ty(rng, 3, allow_any=False)
        sigma = {t: gen_ty(rng, 1, allow_any=False, generics=(7, 8)) for t in tps}
        inst = subst_py(g, sigma)
        mode = rng.below(3)
        c = inst if mode == 0 else mutate_ty(rng, inst) if mode == 1 else gen_ty(rng, 2, allow_any=rng.chance(1, 3))
        lines.append(f"slv {','.join(map(str, tps)) or '-'} {ty_str(c)} {ty_str(g)}")
        meta.append((tps, c, g, mode))
    impl, model = run_impl(lines), run_model(lines)
    for l, (tps, c, g, mode), ia, ma in zip(lines, meta, impl, model):
        stats["slv"] += 1
        if ia != ma:
            stats["slv_disagree"] += 1
            if stats["slv_disagree"] > 3:
                continue
            ctx.violation("model/implementation disagreement on protocol slv (solve_type_constraints vs Model/Assign.lean)",
                          {"protocol": "slv", "line": l, "impl": ia, "model": ma, "broken": "correspondence slv"}, no_input=True)
            continue
        m = re.match(r"s=(\S+) g=(\S+) e=(\d)", ia)
        if not m:
            ctx.violation("constraint solver crashed", {"protocol": "slv", "line": l, "impl": ia}); continue
        err = m.group(3) == "1"
        solved = parse_ty(m.group(2))
        sub = parse_subst(m.group(1))
        if mode == 0 and err:
            ctx.violation("a concrete type that IS an instance of the generic type is rejected", {"protocol": "slv", "line": l, "impl": ia})
        if not err:
            stats["slv_accept"] += 1
            if not has_any(c) and (subst_py(g, sub) != solved or not consistent(c, solved)):
                ctx.violation("constraint solving accepted a concrete type that is not an instance of the generic type",
                              {"protocol": "slv", "line": l, "impl": ia})
            if not has_any(c) and not has_any(solved) and solved != c:
                ctx.violation("constraint solving accepted a non-instance (any-free, different)", {"protocol": "slv", "line": l, "impl": ia})


def eval_programs(progs):
    """progs: list of dict(sources, entry, std, compile). Returns parsed JSON answers."""
    out = run_impl(["prog " + json.dumps(p) for p in progs])
    res = []
    for o in out:
        try:
            res.append(json.loads(o))
        except Exception:
            res.append({"check": "harness-failure", "errors": [], "compile": "?", "msg": o})
    return res


def judge_mutant(ans, module):
    """The property, on one mutant. Returns None if it holds, else what fails."""
    if ans.get("check") != "done":
        return f"front end did not finish: {ans.get('check')} {ans.get('panic', ans.get('msg', ''))}"[:200]
    if ans.get("compile") == "panic":
        return "compile_sources panicked: " + ans.get("msg", "")[:160]
    if not ans["errors"]:
        return "no error reported" + (" and code was emitted" if ans.get("compile") == "ok" else "")
    if ans.get("compile") == "ok":
        return "errors reported by the checker but compile_sources still emitted code"
    if not any(e["module"] == module for e in ans["errors"]):
        return "errors reported, but none located in the mutated module " + module
    return None


_reported = set()


def known_once(ctx, finding, detail):
    """One KNOWN-FINDING line per finding and run (first witness as detail)."""
    if (id(ctx), finding["id"]) not in _reported:
        _reported.add((id(ctx), finding["id"]))
        ctx.known(finding, detail)


def is_f1_mutant(kind, label):
    return kind == "literal-range" and label == "2147483648"


def is_f2_mutant(kind, label):
    return kind == "operand-type" and label.startswith("if-cond:")


def steered_away(ctx, kind, label):
    ids = {f["id"] for f in ctx.open_findings}
    return ("C06-F1" in ids and is_f1_mutant(kind, label)) or ("C06-F2" in ids and is_f2_mutant(kind, label))


def check_mutants(ctx, rng, n_generated, n_sample, stats, hist, errkinds, samples_out):
    f1 = next((f for f in ctx.open_findings if f["id"] == "C06-F1"), None)
    # ---- generated programs
    jobs = []   # (descr, module, kind, label, program dict)
    base_of = {}
    bases = []
    budget = n_generated
    nprog = 0
    while budget > 0 and nprog < 400:
        nprog += 1
        g = ProgGen(rng.fork())
        tree = g.program()
        base = {m: render(nodes) for m, nodes in tree.items()}
        bases.append((g, tree, base))
        all_sites = [(m, s) for m, nodes in tree.items() for s in sites_of(nodes)]
        pick = rng.shuffle(all_sites)
        if ctx.quick:
            pick = pick[:max(8, n_generated // 12)]
        for m, s in pick:
            for label, bad in s.bads:
                if steered_away(ctx, s.kind, label):
                    continue       # steered away from the open findings; dedicated probes below
                srcs = dict(base)
                srcs[m] = render(tree[m], s, bad)
                base_of[f"generated#{nprog}"] = base
                jobs.append((f"generated#{nprog}", m, s.kind, label,
                             {"sources": srcs, "entry": g.mainname, "std": False, "compile": True}))
                budget -= 1
    base_ans = eval_programs([{"sources": b, "entry": g.mainname, "std": False, "compile": True} for g, _, b in bases])
    for (g, tree, b), a in zip(bases, base_ans):
        stats["base_programs"] += 1
        if a.get("check") != "done" or a["errors"] or a.get("compile") != "ok":
            # generator bug or the compiler rejects a valid program: not a C06 failure, but the
            # mutants of this base would prove nothing -> report as a broken check, loudly
            ctx.violation("base program of the mutant oracle is not accepted (generator and front end disagree)",
                          {"sources": b, "answer": a, "broken": "mutant oracle base program"}, no_input=True)
    # ---- repository samples
    samples = load_samples()
    sjobs = []
    names = sorted(samples)
    site_list = []
    for nme in names:
        for st in sample_sites(samples[nme]):
            site_list.append((nme, st))
    stats["sample_sites_total"] = len(site_list)
    chosen = rng.shuffle(site_list)[:n_sample] if n_sample < len(site_list) else site_list
    sample_base_needed = sorted(set(n for n, _ in chosen))
    sb = eval_programs([{"sources": closure(samples, n), "entry": n, "std": True, "compile": False} for n in sample_base_needed])
    ok_base = {n for n, a in zip(sample_base_needed, sb) if a.get("check") == "done" and not a["errors"]}
    stats["sample_bases_accepted"] = len(ok_base)
    for nme, (kind, label, s, e, bad) in chosen:
        if nme not in ok_base or steered_away(ctx, kind, label):
            continue
        srcs = closure(samples, nme)
        srcs[nme] = samples[nme][:s] + bad + samples[nme][e:]
        sjobs.append((f"sample {nme}@{s}", nme, kind, label, {"sources": srcs, "entry": nme, "std": True, "compile": True}))
    alljobs = jobs + sjobs
    answers = eval_programs([j[4] for j in alljobs])
    for (descr, module, kind, label, prog), ans in zip(alljobs, answers):
        stats["mutants"] += 1
        hist[kind] = hist.get(kind, 0) + 1
        for e in ans.get("errors", []):
            errkinds[e["kind"]] = errkinds.get(e["kind"], 0) + 1
        why = judge_mutant(ans, module)
        if why is None:
            stats["mutants_rejected"] += 1
            if len(samples_out) < 6 and rng.chance(1, 40):
                samples_out.append({"mutant": f"{descr} {kind}/{label} in {module}",
                                    "errors": ans["errors"][:3], "compile": ans["compile"]})
            continue
        stats["mutants_slipped"] += 1
        if stats["mutants_slipped"] > 5:
            continue
        small = shrink_program(prog, module, base_of.get(descr))
        ctx.violation(f"static error not rejected ({kind}/{label} in module {module}): {why}",
                      {"protocol": "prog", "mutant": f"{descr} {kind}/{label}", "module": module,
                       "program": small, "answer": ans, "why": why})
    # ---- witnesses of the findings (open: reported as KNOWN-FINDING; fixed: regression inputs that must be rejected)
    probes = [("C06-F1", "Str.fromInt(2147483648)", "class Main {\n  function main(): unit = Process.println(Str.fromInt(2147483648))\n}\n"),
              ("C06-F1", "val x = 5 + /* c */ 2147483648", "class Main {\n  function main(): unit = {\n    let x = 5 + /* c */ 2147483648;\n    Process.println(Str.fromInt(x))\n  }\n}\n"),
              ("C06-F2", "if 7 { .. } else { .. }", "class Main {\n  function main(): unit = if 7 { Process.println(\"a\") } else { Process.println(\"b\") }\n}\n"),
              ("C06-F2", "if \"w\" { .. } else if 1 { .. } else { .. }", "class Main {\n  function main(): unit = if true { Process.println(\"a\") } else if 1 { Process.println(\"b\") } else { Process.println(\"c\") }\n}\n")]
    pans = eval_programs([{"sources": {"Main": t}, "entry": "Main", "std": False, "compile": True} for _, _, t in probes])
    for (fid, what, text), a in zip(probes, pans):
        why = judge_mutant(a, "Main")
        stats["mutants"] += 1
        if why is None:
            stats["mutants_rejected"] += 1
            continue
        f = next((f for f in ctx.open_findings if f["id"] == fid), None)
        if f:
            known_once(ctx, f, f"{what}: {why}")
        else:
            ctx.violation(f"regression of fixed finding {fid}: {what}: {why}",
                          {"protocol": "prog", "mutant": "probe " + fid, "module": "Main",
                           "program": {"sources": {"Main": text}, "entry": "Main", "std": False, "compile": True},
                           "answer": a, "why": why})


# ------------------------------------------------------------------ branch joins (if / else-if chains, if-let chains, match arms)

JOIN_TYPES = {  # source type -> (an expression of exactly that type, model type string)
    "int": ("a", "i"), "bool": ("b", "b"), "Str": ("s", "n0,0,1()"), "P": ("p", "n0,1,2()"),
    "Q": ("q", "n0,1,3()"), "Bx<int>": ("bi", "n0,1,4(i)"), "Bx<bool>": ("bb", "n0,1,4(b)"),
    "unit": ("Process.println(\"u\")", "u")}
JOIN_USE = {"int": "useI", "bool": "useB", "Str": "useS", "P": "useP", "Q": "useQ", "Bx<int>": "useBi",
            "Bx<bool>": "useBb", "unit": "useU"}
JOIN_PRELUDE = (
    "class P(val v: int) {\n  method get(): int = this.v\n}\n"
    "class Q(val w: bool) {\n  method get(): bool = this.w\n}\n"
    "class Bx<T>(val c: T) {\n  method get(): T = this.c\n}\n"
    "class E(A, B(int), C(bool)) {\n  method k(): int = 0\n}\n"
    "class E5(V1, V2, V3, V4, V5) {\n  method k(): int = 0\n}\n"
    "class O(N, S(int)) {\n  method k(): int = 0\n}\n"
    "class Main {\n" + "".join(f"  function {f}(x: {t}): unit = Process.println(\"k\")\n" for t, f in JOIN_USE.items()))
JOIN_CONTEXTS = ["ret", "alet", "arg", "ulet", "wild", "stmt"]
JOIN_CONSTRUCTS = [("if", 2), ("if", 3), ("if", 4), ("if", 5), ("iflet", 2), ("iflet", 3), ("iflet", 4),
                   ("match-E", 3), ("match-E5", 5), ("match-O", 2)]


def join_body(rng, ty, uid):
    """A branch body of exactly type `ty`, possibly behind a type-preserving wrapper."""
    v = JOIN_TYPES[ty][0]
    k = rng.below(5)
    if k == 0:
        return f"let z{uid} = 1; {v}"
    if k == 1:
        return f"(if b {{ {v} }} else {{ {v} }})"
    if k == 2:
        return f"match e {{ A -> {v}, B(_) -> {v}, C(_) -> {v} }}"
    return v


def join_program(rng, construct, n, tys, context, ctx_ty):
    bodies = [join_body(rng, t, i) for i, t in enumerate(tys)]
    if construct in ("if", "iflet"):
        parts = []
        for i in range(n - 1):
            if construct == "iflet" and (i == 0 or rng.chance(1, 2)):
                cond = f"let S(v{i}) = o"
            else:
                cond = rng.pick(["b", f"a > {i}", "!b", f"a == {i}"])
            parts.append(f"if {cond} {{ {bodies[i]} }}")
        text = " else ".join(parts) + f" else {{ {bodies[-1]} }}"
    else:
        pats = {"match-E": ["A", "B(_)", "C(_)"], "match-E5": ["V1", "V2", "V3", "V4", "V5"], "match-O": ["N", "S(_)"]}[construct]
        subj = {"match-E": "e", "match-E5": "e5", "match-O": "o"}[construct]
        text = f"match {subj} {{ " + ", ".join(f"{p} -> {{ {b} }}" for p, b in zip(pats, bodies)) + " }"
    ret = "unit"
    tail = "Process.println(\"k\")"
    if context == "ret":
        ret, body = ctx_ty, text
    elif context == "alet":
        body = f"let x: {ctx_ty} = {text};\n    {tail}"
    elif context == "arg":
        body = f"Main.{JOIN_USE[ctx_ty]}({text})"
    elif context == "ulet":
        body = f"let x = {text};\n    {tail}"
    elif context == "wild":
        body = f"let _ = {text};\n    {tail}"
    else:
        body = f"{text};\n    {tail}"
    src = (JOIN_PRELUDE +
           f"  function t(a: int, b: bool, s: Str, p: P, q: Q, bi: Bx<int>, bb: Bx<bool>, e: E, e5: E5, o: O): {ret} = {{\n"
           f"    {body}\n  }}\n  function main(): unit = Process.println(\"m\")\n}}\n")
    return src


def check_joins(ctx, rng, rounds, stats, hist):
    """Every branch position of every joining construct, in constrained and unconstrained
    contexts. Which programs are ill-typed comes from the Lean model of the join rule
    (`ifChainOk` / `matchArmsOk`, theorems ifChain_join_exact / match_join_exact); the real checker
    must agree on every case, and a rejected-by-the-model program must be rejected in module Main
    with compile_sources returning Err."""
    cases = []
    tynames = list(JOIN_TYPES)
    for _ in range(rounds):
        for construct, n in JOIN_CONSTRUCTS:
            for context in JOIN_CONTEXTS:
                for pos in [None] + list(range(n)):
                    base = rng.pick(tynames)
                    wrong = rng.pick([t for t in tynames if t != base])
                    tys = [base] * n
                    if pos is not None:
                        tys[pos] = wrong
                    cases.append((construct, n, context, pos, tys, join_program(rng.fork(), construct, n, tys, context, base)))
    model = run_model([f"join {'match' if c[0].startswith('match') else 'if'} " + " ".join(JOIN_TYPES[t][1] for t in c[4]) for c in cases])
    answers = eval_programs([{"sources": {"Main": c[5]}, "entry": "Main", "std": False, "compile": True} for c in cases])
    for (construct, n, context, pos, tys, src), m, ans in zip(cases, model, answers):
        stats["join"] += 1
        label = f"{construct}{n}/{context}/" + ("ok" if pos is None else f"branch{pos}")
        hist["join:" + construct] = hist.get("join:" + construct, 0) + 1
        accepted = ans.get("check") == "done" and not ans["errors"] and ans.get("compile") == "ok"
        why = judge_mutant(ans, "Main")
        spec_reject = pos is not None
        if m not in ("0", "1") or (m == "0") != spec_reject:
            ctx.violation("model of the branch-join rule disagrees with its own specification", {"protocol": "join", "case": label, "types": tys, "model": m,
                                                                                            "broken": "Model/Assign.lean ifChainOk/matchArmsOk"}, no_input=True)
            continue
        if spec_reject:
            if why is None:
                stats["join_rejected"] += 1
            else:
                stats["join_slipped"] += 1
                if stats["join_slipped"] <= 4:
                    ctx.violation(f"wrongly typed branch not rejected ({label}: branch types {tys}): {why}",
                                  {"protocol": "prog", "mutant": "branch-join " + label, "module": "Main",
                                   "program": {"sources": {"Main": src}, "entry": "Main", "std": False, "compile": True},
                                   "answer": ans, "why": why, "model_says": "rejected (ifChain_join_exact / match_join_exact)"})
        elif not accepted:
            stats["join_base_rejected"] += 1
            if stats["join_base_rejected"] <= 2:
                ctx.violation(f"well-typed join program not accepted ({label}); model and front end disagree",
                              {"protocol": "prog", "mutant": "branch-join " + label, "module": "Main",
                               "program": {"sources": {"Main": src}, "entry": "Main", "std": False, "compile": True},
                               "answer": ans, "broken": "join correspondence (accept side)"}, no_input=True)
        else:
            stats["join_accepted"] += 1



# ------------------------------------------------------------------ gates: visibility, type-arg arity, conformance, bounds

def gate_verdict(ans, module):
    """'accept' | 'reject' | other (what went wrong)."""
    if ans.get("check") == "done" and not ans["errors"] and ans.get("compile") == "ok":
        return "accept"
    if judge_mutant(ans, module) is None:
        return "reject"
    return "odd: " + str(judge_mutant(ans, module))


def vis_cases(rng):
    """Visibility: (label, model line, program, module holding the access)."""
    out = []
    TGT = 5
    for cpriv in (0, 1):
        for kind in ("method", "function", "field"):
            for pub in (1, 0):
                for loc in ("same-class", "sibling-class", "same-named-class-other-module", "other-module"):
                    if kind == "function" and loc == "same-named-class-other-module":
                        continue      # `Tgt.f()` there denotes the local class
                    member = {("method", 1): "pubM", ("method", 0): "privM", ("function", 1): "pubS",
                              ("function", 0): "privS", ("field", 1): "pubF", ("field", 0): "privF"}[(kind, pub)]
                    same_mod = loc in ("same-class", "sibling-class")
                    if kind == "function":
                        access = f"Tgt.{member}()"
                    elif loc == "same-class":
                        access = f"this.{member}" + ("()" if kind == "method" else "")
                    else:
                        access = f"Factory.mk().{member}" + ("()" if kind == "method" else "")
                    selfuse = f"  method selfUse(): int = {access}\n" if loc == "same-class" else ""
                    sib = f"class Sib {{\n  function use(): int = {access}\n}}\n" if loc == "sibling-class" else ""
                    lib = (("private " if cpriv else "") + "class Tgt(val pubF: int, private val privF: int) {\n"
                           "  function mk(): Tgt = Tgt.init(1, 2)\n  method pubM(): int = 1\n  private method privM(): int = 2\n"
                           "  function pubS(): int = 3\n  private function privS(): int = 4\n" + selfuse + "}\n"
                           "class Factory {\n  function mk(): Tgt = Tgt.mk()\n}\n" + sib)
                    imports = "Factory"
                    model = None
                    if not same_mod and kind == "function":
                        imports = "Factory, Tgt"
                        if cpriv:
                            model = "imp 1"       # the import itself is the gate
                    user = "Tgt" if loc == "same-named-class-other-module" else "User"
                    main = f"import {{ {imports} }} from lib.V;\n"
                    if not same_mod:
                        main += f"class {user} {{\n  function use(): int = {access}\n}}\n"
                    main += "class Main {\n  function main(): unit = Process.println(\"m\")\n}\n"
                    cur_mod, cur_class = (1, TGT if loc == "same-class" else 6) if same_mod else (2, TGT if user == "Tgt" else 8)
                    if model is None:
                        model = f"vis {'field' if kind == 'field' else 'member'} {cur_mod} {cur_class} 1 {TGT} {cpriv} {pub}"
                    out.append((f"vis/{'private-class' if cpriv else 'public-class'}/{kind}/{'public' if pub else 'private'}/{loc}",
                                model, {"lib.V": lib, "Main": main}, "lib.V" if same_mod else "Main"))
    # imports of public / private / absent toplevels
    for e, name in (("0", "Factory"), ("1", "Hid"), ("-", "Nope9")):
        lib = "class Factory {\n  function mk(): int = 1\n}\nprivate class Hid {\n  function mk(): int = 1\n}\n"
        main = f"import {{ {name} }} from lib.V;\nclass Main {{\n  function main(): unit = Process.println(\"m\")\n}}\n"
        out.append((f"imp/{name}", f"imp {e}", {"lib.V": lib, "Main": main}, "Main"))
    return out


TYA_DECLS = ("class P(val v: int) {\n  method g(): int = this.v\n}\n"
             "class Opt<T>(None, Some(T)) {\n  method k(): int = 0\n}\n"
             "class Pr<A, B>(val a: A, val b: B) {\n  method k(): int = 0\n}\n")
TYA_TABLE = "0.1=0,1.2=0,1.3=1,1.4=2"


def tya_type(rng, d, corrupt):
    """(source text, model type string, number of corrupted nodes). corrupt: probability/100 per node."""
    k = rng.below(9 if d > 0 else 4)
    if k == 0:
        return "int", "i", 0
    if k == 1:
        return "bool", "b", 0
    if k in (2, 3, 4, 5, 6):
        name, mid, ar = rng.pick([("Str", "0,1", 0), ("P", "1,2", 0), ("Opt", "1,3", 1), ("Pr", "1,4", 2)]) if d > 0 \
            else rng.pick([("Str", "0,1", 0), ("P", "1,2", 0)])
        n, bad = ar, 0
        if rng.chance(corrupt, 100):
            n = rng.pick([x for x in (0, 1, 2, 3) if x != ar]); bad = 1
        subs = [tya_type(rng, d - 1, corrupt) for _ in range(n)]
        txt = name + ("<" + ", ".join(x[0] for x in subs) + ">" if subs else "")
        return txt, f"n0,{mid}(" + "".join(x[1] for x in subs) + ")", bad + sum(x[2] for x in subs)
    n = rng.below(3)
    args = [tya_type(rng, d - 1, corrupt) for _ in range(n)]
    ret = tya_type(rng, d - 1, corrupt)
    return "(" + ", ".join(a[0] for a in args) + ") -> " + ret[0], "f(" + "".join(a[1] for a in args) + ")" + ret[1], \
        sum(a[2] for a in args) + ret[2]


def tya_cases(rng, n):
    out = []
    for i in range(n):
        txt, mty, bad = tya_type(rng, 3, 0 if i % 3 == 0 else 18)
        place = rng.below(4)
        if place == 0:
            member = f"  function f(x: {txt}): unit = Process.println(\"k\")\n"
        elif place == 1:
            member = f"  function f(): {txt} = Process.panic(\"k\")\n"
        elif place == 2:
            member = f"  function f(): unit = {{\n    let g = (x: {txt}) -> 1;\n    Process.println(\"k\")\n  }}\n"
        else:
            member = f"  function f(x: ({txt}) -> int): unit = Process.println(\"k\")\n"
            mty = f"f({mty})i"
        src = TYA_DECLS + "class Main {\n" + member + "  function main(): unit = Process.println(\"m\")\n}\n"
        out.append((f"tya/place{place}/{'bad' if bad else 'ok'}: {txt}", f"tya {TYA_TABLE} {mty}", {"Main": src}, "Main", bad > 0))
    return out


CONF_TYPES = {"int": "i", "bool": "b", "Str": "n0,0,1()", "P": "n0,1,2()", "T": "g1;", "U": "g2;", "unit": "u"}
CONF_BOUNDS = {"CmpA": "n0,1,8()", "CmpB": "n0,1,9()"}


def conf_sig_text(name, pub, tps, params, ret):
    tp = ("<" + ", ".join(n + (": " + b if b else "") for n, b in tps) + "> ") if tps else ""
    return ("" if pub else "private ") + f"method {tp}{name}(" + ", ".join(f"x{i}: {t}" for i, t in enumerate(params)) + f"): {ret}"


def conf_sig_model(idx, pub, tps, params, ret):
    tpm = "".join(f"[{ {'T': 1, 'U': 2}[n] }=" + (CONF_BOUNDS[b] if b else "-") + "]" for n, b in tps)
    return f"{idx}/{1 if pub else 0}/{tpm}/f(" + "".join(CONF_TYPES[t] for t in params) + ")" + CONF_TYPES[ret]


def conf_cases(rng, n, names=("alpha", "beta", "gamma"), fam="conf", force_missing_first=False):
    """`names`: member names of the interface.  The deterministic `confinit` family (see check_gates)
    uses `init` — the name of the constructor FUNCTION every struct class gets generated — as the name
    of a required METHOD: a generated function never implements a method of the same name."""
    out = []
    names = list(names)
    for _ in range(n):
        k = rng.range(1, 3)
        expected = []
        for i in range(k):
            tps = rng.pick([[], [], [("T", None)], [("T", "CmpA")], [("T", None), ("U", "CmpB")]])
            avail = ["int", "bool", "Str", "P"] + [t for t, _ in tps]
            params = [rng.pick(avail) for _ in range(rng.below(3))]
            expected.append([names[i], True, tps, params, rng.pick(avail + ["unit"])])
        declared = [list(map(lambda x: list(x) if isinstance(x, list) else x, e)) for e in expected]
        what = "ok"
        if force_missing_first or rng.chance(2, 3):
            j = 0 if force_missing_first else rng.below(len(declared))
            d = declared[j]
            m = 0 if force_missing_first else rng.below(8)
            avail = ["int", "bool", "Str", "P"] + [t for t, _ in d[2]]
            if m == 0:
                declared.pop(j); what = "missing"
            elif m == 1:
                d[4] = rng.pick([t for t in avail + ["unit"] if t != d[4]]); what = "return-type"
            elif m == 2 and d[3]:
                q = rng.below(len(d[3])); d[3] = list(d[3]); d[3][q] = rng.pick([t for t in avail if t != d[3][q]]); what = "param-type"
            elif m == 3:
                d[3] = list(d[3]) + [rng.pick(avail)]; what = "extra-param"
            elif m == 4 and d[3]:
                d[3] = list(d[3])[:-1]; what = "missing-param"
            elif m == 5:
                d[1] = False; what = "private-implementation"
            elif m == 6 and d[2]:
                q = rng.below(len(d[2])); tp = list(d[2]); n0, b0 = tp[q]
                tp[q] = (n0, rng.pick([b for b in (None, "CmpA", "CmpB") if b != b0])); d[2] = tp; what = "tparam-bound"
            elif m == 7:
                if d[2] and rng.chance(1, 2):
                    d[2] = list(d[2])[:-1]
                    if any(t in ("T", "U") and t not in [x for x, _ in d[2]] for t in d[3] + [d[4]]):
                        d[3] = [t if t in ("int", "bool", "Str", "P") or t in [x for x, _ in d[2]] else "int" for t in d[3]]
                        d[4] = d[4] if d[4] in ("int", "bool", "Str", "P", "unit") or d[4] in [x for x, _ in d[2]] else "int"
                    what = "tparam-count"
                elif len(d[2]) < 2:
                    d[2] = list(d[2]) + [("U" if d[2] else "T", None)]; what = "tparam-count"
        extra = rng.chance(1, 3)
        src = ("interface CmpA {\n  method ca(): int\n}\ninterface CmpB {\n  method cb(): int\n}\n"
               "class P(val v: int) {\n  method g(): int = this.v\n}\n"
               "interface I {\n" + "".join("  " + conf_sig_text(*e) + "\n" for e in expected) + "}\n"
               "class C(val z: int) : I {\n" + "".join("  " + conf_sig_text(*d) + " = Process.panic(\"k\")\n" for d in declared) +
               ("  private method own(q: bool): bool = q\n" if extra else "") + "}\n"
               "class Main {\n  function main(): unit = Process.println(\"m\")\n}\n")
        idx = {nm: i + 1 for i, nm in enumerate(names)}
        line = "conf " + " ".join(conf_sig_model(idx[e[0]], *e[1:]) for e in expected) + " | " + \
            " ".join([conf_sig_model(idx[d[0]], *d[1:]) for d in declared] + (["9/0//f(b)b"] if extra else []))
        out.append((f"{fam}/{what}", line, {"Main": src}, "Main"))
    return out


BND_DECLS = ("interface I {\n  method mi(): int\n}\ninterface J : I {\n  method mj(): int\n}\ninterface K {\n  method mk(): int\n}\n"
             "interface Cmp<T> {\n  method cmp(o: T): int\n}\n"
             "class A(val v: int) : I {\n  method mi(): int = 1\n}\n"
             "class B(val v: int) : J {\n  method mi(): int = 1\n  method mj(): int = 2\n}\n"
             "class C(val v: int) {\n  method mi(): int = 1\n}\n"
             "class D(val v: int) : K {\n  method mk(): int = 1\n}\n"
             "class N(val v: int) : Cmp<N> {\n  method cmp(o: N): int = 0\n}\n"
             "class M(val v: int) : Cmp<N> {\n  method cmp(o: N): int = 0\n}\n"
             "class BxI<T: I>(val x: T) {\n  method k(): int = 0\n}\nclass BxJ<T: J>(val x: T) {\n  method k(): int = 0\n}\n"
             "class BxK<T: K>(val x: T) {\n  method k(): int = 0\n}\nclass BxC<T: Cmp<T>>(val x: T) {\n  method k(): int = 0\n}\n"
             "class G {\n  function <T: I> useI(x: T): int = 1\n  function <T: J> useJ(x: T): int = 1\n"
             "  function <T: K> useK(x: T): int = 1\n  function <T: Cmp<T>> useC(x: T): int = 1\n}\n")
BND_ID = {"I": "n0,1,11()", "J": "n0,1,12()", "K": "n0,1,13()", "A": "n0,1,21()", "B": "n0,1,22()", "C": "n0,1,23()",
          "D": "n0,1,24()", "N": "n0,1,25()", "M": "n0,1,26()", "int": "i", "Str": "n0,0,1()"}
BND_SUPERS = {"A": ["I"], "B": ["J", "I"], "C": [], "D": ["K"], "N": ["Cmp<N>"], "M": ["Cmp<N>"], "int": [], "Str": [], "I": [], "J": ["I"], "K": []}
BND_VALUE = {"A": "A.init(1)", "B": "B.init(1)", "C": "C.init(1)", "D": "D.init(1)", "N": "N.init(1)", "M": "M.init(1)",
             "int": "3", "Str": "\"s\""}


def bnd_model_ty(t):
    if t.startswith("Cmp<"):
        return "n0,1,14(" + BND_ID[t[4:-1]] + ")"
    return BND_ID[t]


def bnd_cases(rng):
    out = []
    for bound in ("I", "J", "K", "C"):
        for targ in ("A", "B", "C", "D", "N", "M", "int", "Str", "I", "J"):
            for site in ("init", "call", "call-explicit", "annotation"):
                if targ in ("I", "J"):
                    continue          # interfaces are rejected as type arguments by a different gate (enforce_concrete_types)
                if targ in ("int", "Str") and site == "call-explicit" and False:
                    continue
                b_ty = f"Cmp<{targ}>" if bound == "C" else bound
                if bound == "C" and targ in ("I", "J", "int", "Str"):
                    b_model = "n0,1,14(" + BND_ID[targ] + ")"
                else:
                    b_model = bnd_model_ty(b_ty)
                v = BND_VALUE.get(targ)
                if site == "init":
                    body = f"    let z = Bx{bound}.init({v});\n    Process.println(\"k\")\n"; params = ""
                elif site == "call":
                    body = f"    let z = G.use{bound}({v});\n    Process.println(\"k\")\n"; params = ""
                elif site == "call-explicit":
                    body = f"    let z = G.use{bound}<{targ}>({v});\n    Process.println(\"k\")\n"; params = ""
                else:
                    body = "    Process.println(\"k\")\n"; params = f"p: Bx{bound}<{targ}>"
                src = BND_DECLS + f"class Main {{\n  function t({params}): unit = {{\n{body}  }}\n  function main(): unit = Process.println(\"m\")\n}}\n"
                line = f"bnd {BND_ID[targ]} {b_model} " + " ".join(bnd_model_ty(s) for s in BND_SUPERS[targ])
                out.append((f"bnd/{site}/{targ}<:{b_ty}", line.strip(), {"Main": src}, "Main"))
    return out


def check_gates(ctx, rng, stats, hist):
    """Kernels of Model/Gates.lean against the real checker on generated declarations: the model
    predicts accept/reject, the real front end must agree; a model-rejected program must carry an
    error in the module of the offending use and compile_sources must return Err."""
    cases = [(l, m, p, mod, None) for l, m, p, mod in vis_cases(rng)]
    cases += tya_cases(rng.fork(), ctx.scale(150, 3000))
    cases += [(l, m, p, mod, None) for l, m, p, mod in conf_cases(rng.fork(), ctx.scale(200, 4000))]
    cases += [(l, m, p, mod, None) for l, m, p, mod in bnd_cases(rng)]
    # deterministic (seed-independent): a required METHOD named like the generated constructor function
    cases += [(l, m, p, mod, None) for l, m, p, mod in
              conf_cases(common.Rng(0xC06), 12, names=("init", "beta", "gamma"), fam="confinit", force_missing_first=True)]
    cases += [(l, m, p, mod, None) for l, m, p, mod in
              conf_cases(common.Rng(0xC061), 40, names=("init", "beta", "gamma"), fam="confinit")]
    model = run_model([c[1] for c in cases])
    answers = eval_programs([{"sources": c[2], "entry": "Main", "std": False, "compile": True} for c in cases])
    for (label, line, prog, module, spec_bad), m, ans in zip(cases, model, answers):
        fam = label.split("/")[0]
        stats["gate"] += 1
        hist["gate:" + fam] = hist.get("gate:" + fam, 0) + 1
        verdict = gate_verdict(ans, module)
        if m not in ("0", "1") or (spec_bad is not None and (m == "0") != spec_bad):
            ctx.violation("gate model answer malformed or disagrees with the generator's own bookkeeping",
                          {"protocol": "gate", "case": label, "line": line, "model": m, "broken": "Model/Gates.lean vs vlib/c06.py"}, no_input=True)
            continue
        if m == "0" and verdict == "reject":
            stats["gate_rejected"] += 1
        elif m == "1" and verdict == "accept":
            stats["gate_accepted"] += 1
        elif m == "0":
            stats["gate_slipped"] += 1
            if stats["gate_slipped"] <= 4:
                ctx.violation(f"static error not rejected ({label}): {verdict}; the model of the gate rejects it",
                              {"protocol": "prog", "mutant": "gate " + label, "module": module,
                               "program": {"sources": prog, "entry": "Main", "std": False, "compile": True},
                               "answer": ans, "why": verdict, "model_line": line})
        else:
            stats["gate_overstrict"] += 1
            if stats["gate_overstrict"] <= 3:
                ctx.violation(f"gate correspondence broken ({label}): model accepts, front end says {verdict}",
                              {"protocol": "prog", "mutant": "gate " + label, "module": module,
                               "program": {"sources": prog, "entry": "Main", "std": False, "compile": True},
                               "answer": ans, "model_line": line, "broken": "gate correspondence (accept side)"}, no_input=True)



# ------------------------------------------------------------------ scope exit: a bound name used just outside its scope

SCOPE_PRELUDE = ("class O(N, S(int)) {\n  method k(): int = 0\n}\n"
                 "class E(A, B(int), C(int)) {\n  method k(): int = 0\n}\n"
                 "class P(val f: int, val g: int) {\n  method k(): int = 0\n}\n")


def scope_constructs():
    """(label, statements with {IN} = a use inside the scope and {OUT} = a use just outside it).
    The name `v` (or `w`) is bound by exactly one construct and by nothing around it, so a use
    at {OUT} is an unresolved variable by the language's scoping rules
    (theorems use_after_pop_unresolved / iflet_binding_not_in_else / binding_not_visible_after)."""
    return [
        ("iflet->else", "let r = if let S(v) = o { {IN} } else { {OUT} };"),
        ("iflet->after", "let r0 = if let S(v) = o { {IN} } else { 0 };\n    let r = {OUT};"),
        ("iflet->else-if-condition", "let r = if let S(v) = o { {IN} } else if {OUT} > 0 { 1 } else { 2 };"),
        ("iflet->else-if-let-body", "let r = if let S(v) = o { {IN} } else if let B(u) = e { u + {OUT} } else { 2 };"),
        ("block-struct-destructure->after", "let r0 = { let { f, g as v } = p; f + {IN} };\n    let r = {OUT};"),
        ("match-arm->other-arm", "let r = match o { S(v) -> {IN}, N -> {OUT} };"),
        ("match-arm->after", "let r0 = match o { S(v) -> {IN}, N -> 0 };\n    let r = {OUT};"),
        ("match-or-pattern->other-arm", "let r = match e { B(v) | C(v) -> {IN}, A -> {OUT} };"),
        ("block-let->after", "let r0 = { let v = a + 1; {IN} };\n    let r = {OUT};"),
        ("block-destructure->after", "let r0 = { let { f as v, g as w9 } = p; {IN} + w9 };\n    let r = {OUT};"),
        ("then-let->else", "let r = if b { let v = 1; {IN} } else { {OUT} };"),
        ("lambda-param->after", "let fn0 = (v: int) -> {IN} + 1;\n    let r = fn0(1) + {OUT};"),
        ("lambda-param->sibling-lambda", "let fn0 = (v: int) -> {IN} + 1;\n    let fn1 = (u: int) -> u + {OUT};\n    let r = fn0(1) + fn1(2);"),
        ("nested-block->outer-block", "let r = { let q0 = { let v = 3; {IN} }; q0 + {OUT} };"),
    ]


def scope_program(rng, stmt, use_out, wrap):
    body = stmt.replace("{IN}", "v").replace("{OUT}", "v" if use_out else "a")
    if wrap == 1:
        body = "let z0 = {\n    " + body.replace("\n", "\n  ") + "\n    r\n    };"
        tail = "z0"
    elif wrap == 2:
        body = "let z0 = if b {\n    " + body + "\n    r\n    } else { 0 };"
        tail = "z0"
    elif wrap == 3:
        body = "let fz = (m0: int) -> {\n    " + body + "\n    r + m0\n    };"
        tail = "fz(1)"
    else:
        tail = "r"
    return (SCOPE_PRELUDE + "class Main {\n"
            "  function t(a: int, b: bool, o: O, e: E, p: P): int = {\n    " + body + "\n    " + tail + "\n  }\n"
            "  function main(): unit = Process.println(\"m\")\n}\n")


def check_scopes(ctx, rng, stats, hist):
    """Every binding construct x {use inside scope (must be accepted), use of exactly that name
    just outside its scope (must be rejected in Main, compile_sources = Err)} x 4 surrounding
    contexts; plus function parameter -> sibling function. The same module texts go through
    builder C13's `ssa` correspondence (real perform_ssa_analysis_on_module vs Model/Scope.lean),
    which ties the scope theorems of Props/C06c.lean to ssa_analysis.rs on exactly these inputs."""
    cases = []
    for label, stmt in scope_constructs():
        for wrap in range(4):
            for use_out in (False, True):
                cases.append((f"scope/{label}/wrap{wrap}/" + ("out-of-scope" if use_out else "in-scope"), use_out,
                              scope_program(rng, stmt, use_out, wrap)))
    for use_out in (False, True):
        src = (SCOPE_PRELUDE + "class Main {\n  function g(v: int): int = v + 1\n"
               f"  function h(u: int): int = u + {'v' if use_out else 'u'}\n"
               "  function main(): unit = Process.println(\"m\")\n}\n")
        cases.append(("scope/function-param->sibling-function/" + ("out-of-scope" if use_out else "in-scope"), use_out, src))
        src = (SCOPE_PRELUDE + "class Main {\n  function <T> g(v: T): T = v\n"
               f"  function h(u: int): {'T' if use_out else 'int'} = u\n"
               "  function main(): unit = Process.println(\"m\")\n}\n")
        cases.append(("scope/type-param->sibling-function/" + ("out-of-scope" if use_out else "in-scope"), use_out, src))
    answers = eval_programs([{"sources": {"Main": c[2]}, "entry": "Main", "std": False, "compile": True} for c in cases])
    for (label, use_out, src), ans in zip(cases, answers):
        stats["scope"] += 1
        hist["scope"] = hist.get("scope", 0) + 1
        verdict = gate_verdict(ans, "Main")
        prog = {"sources": {"Main": src}, "entry": "Main", "std": False, "compile": True}
        if use_out and verdict == "reject" and any(e["kind"] in ("CannotResolveName", "CannotResolveClass") for e in ans["errors"]):
            stats["scope_rejected"] += 1
        elif not use_out and verdict == "accept":
            stats["scope_accepted"] += 1
        elif use_out:
            stats["scope_slipped"] += 1
            if stats["scope_slipped"] <= 4:
                ctx.violation(f"unresolved variable not rejected ({label}): a name used just outside the scope that binds it: {verdict}",
                              {"protocol": "prog", "mutant": label, "module": "Main", "program": prog, "answer": ans, "why": verdict})
        else:
            stats["scope_base_rejected"] += 1
            if stats["scope_base_rejected"] <= 2:
                ctx.violation(f"well-scoped program not accepted ({label}): {verdict}",
                              {"protocol": "prog", "mutant": label, "module": "Main", "program": prog, "answer": ans,
                               "broken": "scope stream (accept side)"}, no_input=True)
    # tie of the scope model on exactly these modules (C13's protocol)
    try:
        from . import c13
        common.build_harness("C13")
        ok, _ = common.build_lean(["drv-c13"])
        if not ok:
            raise RuntimeError("drv-c13 does not build")
        res, other = c13.correspond("ssa", [c[2] for c in cases])
        stats["scope_ssa_compared"] = len(res)
        for t, a, m in res:
            if a != m:
                stats["scope_ssa_disagree"] += 1
                if stats["scope_ssa_disagree"] <= 2:
                    ctx.violation("model/implementation disagreement on protocol ssa (Model/Scope.lean vs ssa_analysis.rs) on a scope-exit program; "
                                  "the theorems of Props/C06c.lean no longer speak about this code",
                                  {"protocol": "ssa", "module": t, "impl": a, "model": m, "broken": "correspondence ssa"}, no_input=True)
        if other:
            stats["scope_ssa_unparsed"] = len(other)
    except Exception as ex:      # C13's tools unavailable: C13's own check reports that; say so here
        ctx.assumptions.append(f"ssa correspondence of builder C13 not run in this check: {ex!r}"[:200])



# ------------------------------------------------------------------ gates II: super types (exact), abstract type arguments, generic conformance, names

def sup_cases(rng, n):
    """Random declaration graphs of interfaces C1..C6 (+ generic class C9) with cycles, diamonds and
    generic instantiation. -> (source, model decl tokens, queries)."""
    out = []
    for _ in range(n):
        k = rng.range(2, 6)
        arity = {i: rng.pick([0, 0, 1, 1, 2]) for i in range(1, k + 1)}
        arity[9] = 1
        decls, src = {}, ""

        def ty(avail, d):
            c = rng.below(6 if d > 0 else 3)
            if c == 0:
                return "int", "i"
            if c == 1 and avail:
                g = rng.pick(avail)
                return f"T{g}", f"g{g};"
            if c == 2:
                return "bool", "b"
            a, b = ty(avail, d - 1)
            return f"C9<{a}>", f"n0,1,9({b})"

        for i in range(1, k + 1):
            tps = list(range(1, arity[i] + 1))
            sups = []
            for _ in range(rng.pick([0, 1, 1, 2, 3])):
                j = rng.range(1, k)
                args = [ty(tps, 2) for _ in range(arity[j])]
                sups.append((f"C{j}" + ("<" + ", ".join(a for a, _ in args) + ">" if args else ""),
                             f"n0,1,{j}(" + "".join(b for _, b in args) + ")"))
            decls[i] = (tps, sups)
            src += (f"interface C{i}" + ("<" + ", ".join(f"T{t}" for t in tps) + ">" if tps else "") +
                    (" : " + ", ".join(a for a, _ in sups) if sups else "") + f" {{\n  method m{i}(): int\n}}\n")
        src += "class C9<T1>(val v: T1) {\n  method k(): int = 0\n}\n"
        toks = [f"1.{i}/{','.join(map(str, tps))}/" + ("|".join(b for _, b in sups) or "-") for i, (tps, sups) in decls.items()]
        toks.append("1.9/1/-")
        out.append((src, toks, {i: "n0,1,%d(%s)" % (i, "".join(f"g{t};" for t in decls[i][0])) for i in decls}))
    return out


def supers_variant():
    """Which variant of resolve_all_transitive_super_types_recursive the current source implements:
    'supm' if the loop skips already collected super types (repair of C05-F6), else 'sup'."""
    try:
        src = open(os.path.join(common.REPO, "crates", "samlang-checker", "src", "global_signature.rs"), encoding="utf-8").read()
    except OSError:
        return "sup"
    body = src[src.find("fn resolve_all_transitive_super_types_recursive"):]
    body = body[:body.find("\npub(super) fn resolve_all_transitive_super_types")]
    return "supm" if re.search(r"collector\s*\.\s*types\s*\.\s*iter\(\)\s*\.\s*any\(", body) else "sup"


def graph_cyclic(toks, start):
    """Specification oracle, independent of model and code: is a cycle of the declaration graph
    (toplevel -> toplevels of its declared super types) reachable from toplevel `start`?"""
    edges = {}
    for t in toks:
        key, _, sups = t.split("/")
        edges[key] = [] if sups == "-" else [re.match(r"n\d,(\d+),(\d+)", x).group(1, 2) for x in sups.split("|")]
        edges[key] = [f"{m}.{i}" for m, i in edges[key]]
    seen, stack = set(), [start]
    while stack:
        k = stack.pop()
        if k in seen:
            continue
        seen.add(k)
        stack += edges.get(k, [])
    def on_cycle(k):
        st, vis = list(edges.get(k, [])), set()
        while st:
            x = st.pop()
            if x == k:
                return True
            if x not in vis:
                vis.add(x); st += edges.get(x, [])
        return False
    return any(on_cycle(k) for k in seen)


def check_supers(ctx, rng, n, stats):
    op = supers_variant()
    stats["sup_variant_memoised"] = int(op == "supm")
    cases = sup_cases(rng, n)
    # deterministic diamond chains (shape of finding C05-F6): Ik : I(k-1), I(k-1)
    for depth in (3, 6):
        src = "interface C1 {\n  method m1(): int\n}\n" + "".join(f"interface C{k} : C{k-1}, C{k-1} {{\n  method m{k}(): int\n}}\n" for k in range(2, depth + 1))
        src += "class C9<T1>(val v: T1) {\n  method k(): int = 0\n}\n"
        toks = ["1.1//-"] + [f"1.{k}//n0,1,{k-1}()|n0,1,{k-1}()" for k in range(2, depth + 1)] + ["1.9/1/-"]
        cases.append((src, toks, {k: f"n0,1,{k}()" for k in range(1, depth + 1)}))
    impl = run_impl(["sup " + json.dumps({"source": src, "queries": [f"C{i}" for i in q]}) for src, _, q in cases])
    mlines, idx = [], []
    for ci, (src, toks, q) in enumerate(cases):
        for i, t in q.items():
            mlines.append(op + " " + " ".join(toks) + " ? " + t); idx.append((ci, i))
    model = run_model(mlines)
    per = {}
    for (ci, i), m in zip(idx, model):
        per.setdefault(ci, {})[i] = m
    for ci, ((src, toks, q), ia) in enumerate(zip(cases, impl)):
        got = {}
        for part in ia.split(" "):
            f = part.split(":", 2)
            if len(f) == 3 and f[0].startswith("C"):
                got[int(f[0][1:])] = (f[1], f[2])
        for i in q:
            stats["sup"] += 1
            m = per[ci][i]
            mm = re.match(r"c=(\d) x=(\d) (\S+)", m)
            g = got.get(i)
            ok = bool(mm) and g is not None and g[0] == "c=" + mm.group(1) and g[1] == mm.group(3) and mm.group(2) == "0"
            if ok:
                stats["sup_cyclic"] += int(mm.group(1) == "1")
                if (mm.group(1) == "1") != graph_cyclic(toks, f"1.{i}"):
                    ctx.violation("is_cyclic of resolve_all_transitive_super_types disagrees with the declaration graph "
                                  f"(C{i}: reported {mm.group(1)}, a reachable cycle {'exists' if mm.group(1) == '0' else 'does not exist'})",
                                  {"protocol": "sup", "source": src, "query": f"C{i}", "impl": ia, "decls": toks})
                continue
            stats["sup_disagree"] += 1
            if stats["sup_disagree"] <= 3:
                ctx.violation("model/implementation disagreement on protocol sup (resolve_all_transitive_super_types vs Gates.resolveSupers"
                              + ("; model ran out of its recursion budget" if mm and mm.group(2) == "1" else "") + ")",
                              {"protocol": "sup", "source": src, "query": f"C{i}", "impl": ia, "model": m, "decls": toks,
                               "broken": "correspondence sup"}, no_input=True)
    # cyclic declarations must be reported by the checker (property level)
    progs = [{"sources": {"Main": src + "class Main {\n  function main(): unit = Process.println(\"m\")\n}\n"},
              "entry": "Main", "std": False, "compile": True} for src, _, _ in cases[:max(10, n // 4)]]
    answers = eval_programs(progs)
    for (src, toks, q), pr, ans, ci in zip(cases, progs, answers, range(len(progs))):
        cyc = any(re.match(r"c=1", per[ci][i]) for i in q)
        if cyc:
            stats["sup_prog_cyclic"] += 1
            if not any(e["kind"] == "CyclicTypeDefinition" for e in ans.get("errors", [])) or ans.get("compile") == "ok":
                ctx.violation("cyclic super types not reported by the checker", {"protocol": "prog", "mutant": "cyclic-supertypes",
                              "module": "Main", "program": pr, "answer": ans, "why": "no CyclicTypeDefinition error / code emitted"})


ABS_DECLS = ("interface Ifc {\n  method i(): int\n}\ninterface Cmp<T> {\n  method c(o: T): int\n}\n"
             "class P(val v: int) {\n  method g(): int = this.v\n}\nclass Opt<T>(None, Some(T)) {\n  method k(): int = 0\n}\n")
ABS_TABLE = "1.2=0,1.3=0,1.7=1,1.8=1"     # P, Opt concrete; Ifc, Cmp interfaces


def abs_type(rng, d):
    k = rng.below(8 if d > 0 else 4)
    if k == 0:
        return "int", "i"
    if k == 1:
        return "P", "n0,1,2()"
    if k == 2:
        return "Ifc", "n0,1,7()"
    if k == 3:
        return "bool", "b"
    if k in (4, 5):
        a, b = abs_type(rng, d - 1)
        return f"Opt<{a}>", f"n0,1,3({b})"
    if k == 6:
        a, b = abs_type(rng, d - 1)
        return f"Cmp<{a}>", f"n0,1,8({b})"
    n = rng.below(3)
    args = [abs_type(rng, d - 1) for _ in range(n)]
    r = abs_type(rng, d - 1)
    return "(" + ", ".join(a for a, _ in args) + ") -> " + r[0], "f(" + "".join(b for _, b in args) + ")" + r[1]


def abs_cases(rng, n):
    out = []
    for _ in range(n):
        txt, mty = abs_type(rng, 2)
        place = rng.below(4)
        if place == 0:       # member signature: validated strictly as one function type
            member = f"  function f(x: {txt}): unit = Process.println(\"k\")\n"; line = f"abs {ABS_TABLE} 1 f({mty})u"
        elif place == 1:
            member = f"  function f(): {txt} = Process.panic(\"k\")\n"; line = f"abs {ABS_TABLE} 1 f(){mty}"
        elif place == 2:     # bound of a type parameter: root may be abstract
            if not (txt.startswith("Ifc") or txt.startswith("Cmp<") or txt.startswith("P") or txt.startswith("Opt<")):
                continue
            member = f"  function <T: {txt}> f(x: int): unit = Process.println(\"k\")\n"; line = f"abs {ABS_TABLE} 0 {mty}"
        else:                # field type: strict
            out.append((f"abs/field: {txt}", f"abs {ABS_TABLE} 1 {mty}",
                        {"Main": ABS_DECLS + f"class K(val fld: {txt}) {{\n  method k(): int = 0\n}}\nclass Main {{\n  function main(): unit = Process.println(\"m\")\n}}\n"}, "Main"))
            continue
        out.append((f"abs/place{place}: {txt}", line,
                    {"Main": ABS_DECLS + "class Main {\n" + member + "  function main(): unit = Process.println(\"m\")\n}\n"}, "Main"))
    return out


def confi_cases(rng, n):
    out = []
    base = {"int": "i", "bool": "b", "Str": "n0,0,1()", "P": "n0,1,2()", "unit": "u"}
    for _ in range(n):
        targs = [rng.pick(["int", "bool", "Str", "P"]) for _ in range(2)]
        sub = {"A": targs[0], "B": targs[1]}
        k = rng.range(1, 3)
        iface = []
        for i in range(k):
            params = [rng.pick(["int", "A", "B", "P", "A"]) for _ in range(rng.below(3))]
            iface.append((["alpha", "beta", "gamma"][i], params, rng.pick(["A", "B", "int", "unit", "bool"])))
        inst = lambda t: sub.get(t, t)
        declared = [[nm, [inst(p) for p in ps], inst(r)] for nm, ps, r in iface]
        what = "ok"
        if rng.chance(2, 3):
            d = declared[rng.below(len(declared))]
            m = rng.below(3)
            if m == 0:
                d[2] = rng.pick([t for t in ("int", "bool", "Str", "P", "unit") if t != d[2]]); what = "return-type"
            elif m == 1 and d[1]:
                q = rng.below(len(d[1])); d[1][q] = rng.pick([t for t in ("int", "bool", "Str", "P") if t != d[1][q]]); what = "param-type"
            elif m == 2:
                declared.remove(d); what = "missing"
        mt = lambda t: {"A": "g1;", "B": "g2;"}.get(t, base.get(t))
        src = ("class P(val v: int) {\n  method g(): int = this.v\n}\n"
               "interface I<A, B> {\n" + "".join(f"  method {nm}(" + ", ".join(f"x{j}: {p}" for j, p in enumerate(ps)) + f"): {r}\n" for nm, ps, r in iface) + "}\n"
               f"class C(val z: int) : I<{targs[0]}, {targs[1]}> {{\n" +
               "".join(f"  method {nm}(" + ", ".join(f"x{j}: {p}" for j, p in enumerate(ps)) + f"): {r} = Process.panic(\"k\")\n" for nm, ps, r in declared) + "}\n"
               "class Main {\n  function main(): unit = Process.println(\"m\")\n}\n")
        idx = {"alpha": 1, "beta": 2, "gamma": 3}
        line = ("confi 1,2 " + " ".join(base[t] for t in targs) + " | " +
                " ".join(f"{idx[nm]}/1//f(" + "".join(mt(p) for p in ps) + ")" + mt(r) for nm, ps, r in iface) + " | " +
                " ".join(f"{idx[nm]}/1//f(" + "".join(base[p] for p in ps) + ")" + base[r] for nm, ps, r in declared))
        out.append((f"confi/{what}", line, {"Main": src}, "Main"))
    return out


def nam_cases():
    lib = ("class Ext(val v: int) {\n  function mk(): Ext = Ext.init(1)\n  method m(): int = 1\n}\n"
           "interface ExtI {\n  method i(): int\n}\n")
    out = []
    main = lambda imports, expr: ({"lib.N": lib, "Main": imports + "class Loc(val fld: int) {\n  function mk(): Loc = Loc.init(1)\n  method m(): int = 1\n}\n"
                                   "interface LocI {\n  method i(): int\n}\n"
                                   f"class Main {{\n  function t(): int = {expr}\n  function main(): unit = Process.println(\"m\")\n}}\n"}, "Main")
    tab = "2.5=1,2.6=0,1.7=1,1.8=0,1.9=1"     # lib.N = module 2: Ext=5 (class), ExtI=6 (interface); Main = 1: Loc=7, LocI=8, Main=9
    imp = "import { Ext } from lib.N;\n"
    for label, imports, impm, expr, name in [
            ("imported-class", imp, "5=2", "Ext.mk().m()", 5), ("local-class", imp, "5=2", "Loc.mk().m()", 7),
            ("not-imported-class", "", "-", "Ext.mk().m()", 5), ("unknown-class", imp, "5=2", "Nope9.mk()", 99),
            ("imported-interface-as-class", "import { ExtI } from lib.N;\n", "6=2", "ExtI.mk()", 6),
            ("local-interface-as-class", imp, "5=2", "LocI.mk()", 8)]:
        out.append((f"nam/class/{label}", f"nam class {impm} 1 {tab} {name}") + main(imports, expr))
    for label, mod, m in [("existing-module", "lib.N", 2), ("missing-module", "lib.Nope", 3)]:
        srcs, module = main(f"import {{ Ext }} from {mod};\n", "1")
        out.append((f"nam/module/{label}", f"nam module 1,2 {m}", srcs, module))
    for label, expr, name in [("method", "Loc.mk().m()", 1), ("field", "Loc.mk().fld", 2), ("unknown-member", "Loc.mk().nope9", 3),
                              ("unknown-method-call", "Loc.mk().nope9()", 3), ("unknown-static", "Loc.nope9()", 3)]:
        ms = "1=1" if "static" not in label else "4=1"
        out.append((f"nam/member/{label}", f"nam member {ms} 2=1 {name}") + main(imp, expr))
    return out


def check_gates2(ctx, rng, stats, hist):
    check_supers(ctx, rng.fork(), ctx.scale(60, 1500), stats)
    cases = abs_cases(rng.fork(), ctx.scale(120, 2500)) + confi_cases(rng.fork(), ctx.scale(120, 2500)) + nam_cases()
    model = run_model([c[1] for c in cases])
    answers = eval_programs([{"sources": c[2], "entry": "Main", "std": False, "compile": True} for c in cases])
    for (label, line, prog, module), m, ans in zip(cases, model, answers):
        fam = label.split("/")[0]
        stats["gate"] += 1
        hist["gate:" + fam] = hist.get("gate:" + fam, 0) + 1
        verdict = gate_verdict(ans, module)
        pr = {"sources": prog, "entry": "Main", "std": False, "compile": True}
        want_kind = {"nam/class": "CannotResolveClass", "nam/module": "CannotResolveModule",
                     "nam/member": "CannotResolveMember"}.get("/".join(label.split("/")[:2]))
        if m == "0" and verdict == "reject" and want_kind and not any(e["kind"] == want_kind for e in ans["errors"]):
            stats["gate_overstrict"] += 1
            ctx.violation(f"gate correspondence broken ({label}): rejected, but not by the gate the model describes (no {want_kind} error)",
                          {"protocol": "prog", "mutant": "gate " + label, "module": module, "program": pr,
                           "answer": ans, "model_line": line, "broken": "nam correspondence (error kind)"}, no_input=True)
        elif m == "0" and verdict == "reject":
            stats["gate_rejected"] += 1
        elif m == "1" and verdict == "accept":
            stats["gate_accepted"] += 1
        elif m == "0":
            stats["gate_slipped"] += 1
            if stats["gate_slipped"] <= 4:
                ctx.violation(f"static error not rejected ({label}): {verdict}; the model of the gate rejects it",
                              {"protocol": "prog", "mutant": "gate " + label, "module": module, "program": pr,
                               "answer": ans, "why": verdict, "model_line": line})
        else:
            stats["gate_overstrict"] += 1
            if stats["gate_overstrict"] <= 3:
                ctx.violation(f"gate correspondence broken ({label}): model says {m}, front end says {verdict}",
                              {"protocol": "prog", "mutant": "gate " + label, "module": module, "program": pr,
                               "answer": ans, "model_line": line, "broken": "gate correspondence (accept side)"}, no_input=True)



# ------------------------------------------------------------------ pattern gates (check_matching_pattern / check_declaration_statement / if-let)

def pat_family():
    """Deterministic family: one minimal violating program per diagnostic gate of
    `check_matching_pattern` (main_checker.rs:1197-1530), `check_declaration_statement` (:1532-1570)
    and the if-let guard (:950-958), each with an accepted twin, plus every placement of a refutable
    sub-pattern inside object / tuple patterns (all field positions x all mention orders).
    Cases use builder C07's case format (vlib/c07.py): the expected verdict comes from C07's Lean
    model of this function (`normalize` .err, `incompleteCounterexample`, usefulness) through
    drv-c07."""
    I = ("int",)
    C0 = {"name": "C0", "generic": 0, "kind": "enum", "variants": [(0, []), (1, [I]), (2, [I, I]), (3, [("cls", "C1", None)])]}
    C1 = {"name": "C1", "generic": 0, "kind": "struct", "fields": [(0, I), (1, I)], "private": []}
    C2 = {"name": "C2", "generic": 0, "kind": "struct", "fields": [(0, ("cls", "C0", None)), (1, ("cls", "C0", None)), (2, I)], "private": [2]}
    C3 = {"name": "C3", "generic": 0, "kind": "struct", "fields": [(0, ("cls", "C0", None)), (1, ("cls", "C0", None))], "private": []}
    classes = [C0, C1, C2, C3]
    T = lambda n: ("cls", n, None)
    W, V, O, Tp, R = ("W",), (lambda t, *a: ("V", t, list(a))), (lambda *fs: ("O", list(fs))), (lambda *ps: ("T", list(ps))), (lambda *ps: ("R", list(ps)))
    v = lambda n: ("I", n)
    cases = []

    def add(label, kind, ty, pats, home=None):
        cases.append((label, {"classes": classes, "ty": T(ty), "kind": kind, "pats": pats, "malformed": True, "home": home}))
    full = [V(0), V(1, W), V(2, W, W), V(3, W)]
    # tuple patterns
    add("tuple/not-a-struct", "let", "C0", [Tp(v(1), v(2))])
    add("tuple/ok", "let", "C1", [Tp(v(1), v(2))])
    add("tuple/private-element", "let", "C2", [Tp(v(1), v(2), v(3))])
    add("tuple/private-element-inside-class-ok", "let", "C2", [Tp(v(1), v(2), v(3))], home="C2")
    add("tuple/surplus-element", "let", "C1", [Tp(v(1), v(2), v(3))])
    add("tuple/too-few-elements", "let", "C1", [Tp(v(1))])
    # object patterns
    add("object/not-a-struct", "let", "C0", [O((0, v(1)))])
    add("object/ok", "let", "C1", [O((0, v(1)), (1, v(2)))])
    add("object/reordered-ok", "let", "C1", [O((1, v(2)), (0, v(1)))])
    add("object/private-field", "let", "C2", [O((0, v(1)), (1, v(2)), (2, v(3)))])
    add("object/private-field-inside-class-ok", "let", "C2", [O((0, v(1)), (1, v(2)), (2, v(3)))], home="C2")
    add("object/field-twice", "let", "C1", [O((0, v(1)), (0, v(2)), (1, v(3)))])
    add("object/unknown-field", "let", "C1", [O((5, v(1)), (0, v(2)), (1, v(3)))])
    add("object/field-not-mentioned", "let", "C1", [O((0, v(1)))])
    # variant patterns
    add("variant/ok", "match", "C0", full)
    add("variant/unknown-tag", "match", "C0", full + [V(7)])
    add("variant/not-an-enum", "match", "C1", [V(0)])
    add("variant/surplus-argument", "match", "C0", [V(0), V(1, W, W), V(2, W, W), V(3, W)])
    add("variant/too-few-arguments", "match", "C0", [V(0), V(1, W), V(2, W), V(3, W)])
    add("variant/missing-arm", "match", "C0", full[:3])
    add("variant/redundant-arm-ok", "match", "C0", full + [V(1, W)])     # not a diagnostic in this language
    # or-patterns
    add("or/ok", "match", "C0", [V(0), R(V(1, v(1)), V(2, v(1), W)), V(3, W)])
    add("or/inconsistent-names", "match", "C0", [V(0), R(V(1, v(1)), V(2, v(2), W)), V(3, W)])
    add("or/inconsistent-types", "match", "C0", [V(0), R(V(1, v(1)), V(3, v(1))), V(2, W, W)])
    add("or/object-in-later-alternative-ok", "match", "C0", [V(0), V(1, W), V(2, W, W), R(V(3, O((0, v(1)), (1, W))), V(3, Tp(v(1), W)))])
    add("or/nested-or-in-later-alternative-ok", "match", "C0", [V(0), R(V(1, v(1)), R(V(2, v(1), W), V(2, W, v(1)))), V(3, W)])
    add("or/object-pattern-in-later-alternative-ok", "match", "C0", [V(0), V(1, W), V(2, W, W), R(V(3, Tp(v(1), W)), V(3, O((0, v(1)), (1, W))))])
    add("or/or-inside-later-alternative-ok", "match", "C0", [V(0), V(1, W), V(2, W, W), R(V(3, Tp(v(1), W)), V(3, Tp(R(v(1), v(1)), W)))])
    add("or/object-in-later-alternative-missing-binding", "match", "C0", [V(0), V(1, W), V(2, W, W), R(V(3, Tp(v(1), W)), V(3, O((0, W), (1, W))))])
    # let / if-let
    add("let/refutable", "let", "C0", [V(1, v(1))])
    add("let/irrefutable-ok", "let", "C0", [v(1)])
    add("iflet/useless", "iflet", "C0", [v(1)])
    add("iflet/refutable-ok", "iflet", "C0", [V(1, v(1))])
    # bad patterns with nested tuple / object / or sub-patterns (any_typed_invalid_matching_pattern), in let and if-let
    nested_bad = Tp(Tp(v(1), v(2)), O((0, v(3))), R(V(0), V(1, W)))
    add("invalid/nested-under-not-a-struct/let", "let", "C0", [nested_bad])
    add("invalid/nested-under-not-a-struct/iflet", "iflet", "C0", [nested_bad])
    add("invalid/object-under-not-a-struct/iflet", "iflet", "C0", [O((0, Tp(v(1))), (1, R(v(2), v(2))))])
    add("invalid/unknown-tag/iflet", "iflet", "C0", [V(7, Tp(v(1)))])
    add("invalid/or-inconsistent/iflet", "iflet", "C0", [R(V(1, v(1)), V(2, v(2), W))])
    add("invalid/tuple-too-few/iflet", "iflet", "C3", [Tp(V(1, W))])
    # refutable sub-pattern at every field position, every mention order (object), let and match
    import itertools
    for n, cname in ((2, "C3"), (3, "C2")):
        home = "C2" if cname == "C2" else None
        fields = list(range(n))
        refutable_ok = lambda f: (cname, f) != ("C2", 2)        # field c of C2 is an int
        for order in itertools.permutations(fields):
            for pos in fields:
                if not refutable_ok(pos):
                    continue
                elems = [(f, V(1, W) if f == pos else W) for f in order]
                add(f"object-position/let/{cname}/order{''.join(map(str, order))}/refutable-at-{pos}", "let", cname, [O(*elems)], home)
                # match with two arms that differ only at `pos`: A and B(_) there -> C, D missing
                arm = lambda tag: O(*[(f, tag if f == pos else W) for f in order])
                add(f"object-position/match-missing/{cname}/order{''.join(map(str, order))}/at-{pos}", "match", cname, [arm(V(0)), arm(V(1, W))], home)
                add(f"object-position/match-complete-ok/{cname}/order{''.join(map(str, order))}/at-{pos}", "match", cname,
                    [arm(V(0)), arm(V(1, W)), arm(V(2, W, W)), arm(V(3, W))], home)
            add(f"object-position/let-irrefutable-ok/{cname}/order{''.join(map(str, order))}", "let", cname, [O(*[(f, W) for f in order])], home)
        for pos in fields:
            if refutable_ok(pos):
                add(f"tuple-position/let/{cname}/refutable-at-{pos}", "let", cname, [Tp(*[V(1, W) if f == pos else W for f in fields])], home)
    return cases


def check_patterns(ctx, stats, hist):
    try:
        from . import c07
        common.build_harness("C07")
        ok, _ = common.build_lean(["drv-c07"])
        if not ok:
            raise RuntimeError("drv-c07 does not build")
    except Exception as ex:
        ctx.assumptions.append(f"pattern-gate family not run (builder C07's model driver unavailable): {ex!r}"[:200])
        return
    fam = pat_family()
    # builder C07's seed-independent families, reused read-only: `wrapper_family` (type side: enums with
    # 1/2/3 variants x payload arity 0..3, single-variant wrappers over struct / enum / wrapper payloads,
    # the refutable leaf at every path to depth 3, as match / let / if-let) and `deterministic_family`
    # (every branch of check_matching_pattern). The verdict is the model's; no label bookkeeping.
    for name in ("wrapper_family", "deterministic_family"):
        gen = getattr(c07, name, None)
        if gen is None:
            ctx.assumptions.append(f"vlib/c07.{name} not available: that part of the pattern-gate family was not run")
            continue
        for i, case in enumerate(gen()):
            fam.append((f"c07:{name}#{i}", case))
    # builder C07's std-tuple family (every size 2..16, refutable pattern at a position of the tuple, components
    # pairwise different enums): these programs are checked together with the embedded std modules
    gen = getattr(c07, "tuple_family", None)
    if gen is None:
        ctx.assumptions.append("vlib/c07.tuple_family not available: the std-tuple part of the pattern-gate family was not run")
    else:
        for i, case in enumerate(gen()):
            n = len(case["tuple_of"])
            pos = next((k for k, q in enumerate(case["pats"][0][1]) if q != ("W",)), 0)
            if ctx.quick and pos not in (0, n // 2, n - 1):
                continue
            fam.append((f"c07:tuple_family#{i}(size {n}, position {pos})", case))
    srcs = [c07.render_case(case) for _, case in fam]
    model = common.run_exec(common.driver_bin("C07"), [], [c07.case_line(case, src) for (_, case), src in zip(fam, srcs)])[1]
    progs = []
    for (label, case), src in zip(fam, srcs):
        main = "" if case.get("home") is None else "class Main {\n  function main(): unit = Process.println(\"m\")\n}\n"
        if case.get("home") is None:
            src = src.replace("class Main {\n", "class Main {\n  function main(): unit = Process.println(\"m\")\n")
        with_std = bool(case.get("tuple_of"))
        progs.append({"sources": {"Main": src + main}, "entry": "Main", "std": with_std, "compile": not with_std})
    answers = eval_programs(progs)
    for (label, case), m, pr, ans in zip(fam, model + [""] * len(fam), progs, answers):
        stats["pat"] += 1
        hist["pat"] = hist.get("pat", 0) + 1
        mv = c07.model_verdict(m)
        if "bad" in mv:
            ctx.violation("pattern-gate family: C07's model driver gave no verdict", {"protocol": "pat", "case": label, "model": m,
                          "broken": "drv-c07 chk"}, no_input=True)
            continue
        expect_reject = mv["err"] or mv["nonexh"] is not None or mv["useless"]
        if not label.startswith("c07:") and (("-ok" in label) or label.endswith("/ok")) == expect_reject:
            ctx.violation(f"pattern-gate family: the model's verdict for {label} contradicts the family's own bookkeeping",
                          {"protocol": "pat", "case": label, "model": m, "broken": "vlib/c06.py pat_family vs Model/Useful.lean"}, no_input=True)
            continue
        verdict = gate_verdict(ans, "Main")
        if pr["std"] and verdict.startswith("odd") and ans.get("check") == "done" and not ans["errors"]:
            verdict = "accept"          # std-tuple cases are type-checked only (no second pass through compile_sources)
        if expect_reject and verdict == "reject":
            stats["pat_rejected"] += 1
        elif not expect_reject and verdict == "accept":
            stats["pat_accepted"] += 1
        elif expect_reject:
            stats["pat_slipped"] += 1
            if stats["pat_slipped"] <= 4:
                ctx.violation(f"static error not rejected (pattern gate {label}): {verdict}; the model (err={mv['err']}, nonexh={mv['nonexh']}, useless={mv['useless']}) rejects it",
                              {"protocol": "prog", "mutant": "pat " + label, "module": "Main", "program": pr, "answer": ans, "why": verdict})
        else:
            stats["pat_overstrict"] += 1
            if stats["pat_overstrict"] <= 3:
                ctx.violation(f"pattern-gate correspondence broken ({label}): model accepts, front end says {verdict}",
                              {"protocol": "prog", "mutant": "pat " + label, "module": "Main", "program": pr, "answer": ans,
                               "broken": "pat correspondence (accept side)"}, no_input=True)



# ------------------------------------------------------------------ kind gates and the other rejecting branches (deterministic)

MISC_DECLS = ("class P(val v: int) {\n  method get(): int = this.v\n  function mk(): P = P.init(1)\n}\n"
              "class Opt<T>(None, Some(T)) {\n  method k(): int = 0\n}\n"
              "class Util {\n  function <T> id(x: T): T = x\n  function addI(a: int, b: int): int = a + b\n  function app(g: (int) -> int, x: int): int = g(x)\n}\n"
              "class H(val fn: (int) -> int) {\n  method k(): int = 0\n}\n"
              "interface Ifc {\n  method i(): int\n}\n")


def misc_family():
    """(label, model line or None, expected kind, module text): one minimal violating program per
    remaining rejecting branch of the checker / scope analysis / lexer, each next to an accepted
    twin. The verdict of the kind gates comes from Model/Gates.lean (`kind …`), of rebinding from
    the scope model (theorem rebind_reported, `ssa` tie), the rest from the stated rule."""
    body = lambda e, params="a: int, b: bool, s: Str, p: P, f: (int) -> int": (
        MISC_DECLS + f"class Main {{\n  function t({params}): int = {e}\n  function main(): unit = Process.println(\"m\")\n}}\n")
    decl = lambda d: MISC_DECLS + d + "class Main {\n  function main(): unit = Process.println(\"m\")\n}\n"
    P, F, I = "n0,1,2()", "f(i)i", "i"
    out = [
        ("callee/int", f"kind callee {I}", "IncompatibleTypeKind", body("a(1)")),
        ("callee/class-instance", f"kind callee {P}", "IncompatibleTypeKind", body("p(1)")),
        ("callee/function-value-ok", f"kind callee {F}", None, body("f(1)")),
        ("object/int", f"kind object - {I}", "IncompatibleTypeKind", body("a.foo")),
        ("object/function", f"kind object - {F}", "IncompatibleTypeKind", body("f.foo")),
        ("object/class-ok", f"kind object - {P}", None, body("p.get()")),
        ("object/unbounded-type-parameter", "kind object - g1;", "IncompatibleTypeKind",
         MISC_DECLS + "class Main {\n  function <T> t(x: T): int = x.i()\n  function main(): unit = Process.println(\"m\")\n}\n"),
        ("object/bounded-type-parameter-ok", "kind object 1 g1;", None,
         MISC_DECLS + "class Main {\n  function <T: Ifc> t(x: T): int = x.i()\n  function main(): unit = Process.println(\"m\")\n}\n"),
        ("fieldtargs/given", "kind fieldtargs 1", "Stacked", body("p.v<int>")),
        ("fieldtargs/none-ok", "kind fieldtargs -", None, body("p.v")),
        ("super/class", "kind super 1.2=0,1.7=1 1.2=0", "IncompatibleTypeKind", decl("class K(val z: int) : P {\n  method k(): int = 0\n}\n")),
        ("super/interface-ok", "kind super 1.2=0,1.7=1 1.7=0", None, decl("class K(val z: int) : Ifc {\n  method i(): int = 0\n}\n")),
        ("imember/function-in-interface", "kind imember 0 mf", "IllegalFunctionInInterface", decl("interface J {\n  method a(): int\n  function b(): int\n}\n")),
        ("imember/methods-only-ok", "kind imember 0 mm", None, decl("interface J {\n  method a(): int\n  method b(): int\n}\n")),
        ("imember/function-in-class-ok", "kind imember 1 mf", None, decl("class J(val z: int) {\n  method a(): int = 1\n  function b(): int = 2\n}\n")),
        # conformance: type-parameter *name* mismatch (main_checker.rs:1639-1641)
        ("conf/tparam-renamed", "conf 1/1/[1=-]/f(g1;)g1; | 1/1/[2=-]/f(g2;)g2;", "TypeParameterNameMismatch",
         decl("interface J {\n  method <T> m(x: T): T\n}\nclass K(val z: int) : J {\n  method <U> m(x: U): U = x\n}\n")),
        ("conf/tparam-same-ok", "conf 1/1/[1=-]/f(g1;)g1; | 1/1/[1=-]/f(g1;)g1;", None,
         decl("interface J {\n  method <T> m(x: T): T\n}\nclass K(val z: int) : J {\n  method <T> m(x: T): T = x\n}\n")),
        # rebinding (ssa_analysis.rs:465-478)
        ("rebind/same-block", None, "NameAlreadyBound", body("{ let v = 1; let v = 2; v }")),
        ("rebind/nested-block", None, "NameAlreadyBound", body("{ let v = 1; let w = { let v = 2; v }; v + w }")),
        ("rebind/parameter", None, "NameAlreadyBound", body("{ let a = 1; a }")),
        ("rebind/lambda-parameter", None, "NameAlreadyBound", body("{ let g = (a: int) -> a; g(1) }")),
        ("rebind/match-binding", None, "NameAlreadyBound", body("match Opt.Some(1) { Some(a) -> a, None -> 0 }")),
        ("rebind/distinct-names-ok", None, None, body("{ let v = 1; let w = { let u = 2; u }; v + w }")),
        # values that cannot exist
        ("builtin-member-as-value", None, "BuiltinMemberAsValue", body("{ let g = s.toInt; 1 }")),
        ("builtin-member-called-ok", None, None, body("s.toInt()")),
        ("underconstrained/generic-function-value", None, "Underconstrained", body("{ let g = Util.id; 1 }")),
        ("underconstrained/explicit-ok", None, None, body("{ let g = Util.id<int>; g(1) }")),
        ("underconstrained/none-constructor", None, "Underconstrained", body("{ let g = Opt.None(); 1 }")),
        # hints through match / else-if arguments (main_checker.rs:80-120): inference must not lose the branch types
        ("hint/match-argument-ok", None, None, body("Util.id(match Opt.Some(a) { Some(q) -> q, None -> 0 })")),
        ("hint/match-argument-wrong-arm", None, "Stacked", body("Util.addI(match Opt.Some(a) { Some(q) -> q, None -> b }, 1)")),
        ("hint/else-if-argument-ok", None, None, body("Util.id(if b { 1 } else if b { 2 } else { 3 })")),
        ("hint/else-if-argument-wrong-branch", None, "Stacked", body("Util.addI(if b { 1 } else if b { s } else { 3 }, 1)")),
        ("hint/match-of-lambdas-argument-ok", None, None, body("Util.app(match Opt.Some(a) { Some(q) -> (z) -> z + q, None -> (z) -> z }, 1)")),
        ("hint/match-of-lambdas-argument-wrong-arm", None, "Stacked", body("Util.app(match Opt.Some(a) { Some(q) -> (z) -> z + q, None -> (z) -> b }, 1)")),
        ("callee/function-typed-field-ok", None, None, body("h.fn(1)", "a: int, b: bool, h: H")),
        ("callee/function-typed-field-wrong-argument", None, "Stacked", body("h.fn(b)", "a: int, b: bool, h: H")),
        # scope of type parameters: a static function sees only its own type parameters (main_checker.rs type_check_module)
        ("tparam-scope/static-function-own-T-shadows-class-T/missing-arm", None, "NonExhaustiveMatch", decl(
            "class Wide(Red, Green, Blue) {\n  method k(): int = 0\n}\nclass Narrow(Red, Green) {\n  method k(): int = 0\n}\n"
            "class Bxs<T: Narrow>(val v: int) {\n  function <T: Wide> f(x: T): int = match x { Red -> 1, Green -> 2 }\n}\n")),
        ("tparam-scope/static-function-own-T-shadows-class-T/complete-ok", None, None, decl(
            "class Wide(Red, Green, Blue) {\n  method k(): int = 0\n}\nclass Narrow(Red, Green) {\n  method k(): int = 0\n}\n"
            "class Bxs<T: Narrow>(val v: int) {\n  function <T: Wide> f(x: T): int = match x { Red -> 1, Green -> 2, Blue -> 3 }\n}\n")),
        ("tparam-scope/static-function-own-T-unbounded-class-T-ok", None, None, decl(
            "class Wide(Red, Green, Blue) {\n  method k(): int = 0\n}\n"
            "class Pls<T>(val v: int) {\n  function <T: Wide> f(x: T): int = match x { Red -> 1, Green -> 2, Blue -> 3 }\n}\n")),
        ("tparam-scope/static-function-own-T-refutable-let", None, "NonExhaustiveMatch", decl(
            "class Wide(Red, Green, Blue) {\n  method k(): int = 0\n}\nclass One(Red) {\n  method k(): int = 0\n}\n"
            "class Bxs<T: One>(val v: int) {\n  function <T: Wide> f(x: T): int = { let Red = x; 1 }\n}\n")),
        ("tparam-scope/class-T-in-static-function", None, "CannotResolveName", decl(
            "class Bxs<T>(val v: T) {\n  function f(x: T): int = 1\n}\n")),
        ("tparam-scope/class-T-in-method-ok", None, None, decl(
            "class Bxs<T>(val v: T) {\n  method f(x: T): int = 1\n}\n")),
        # lexer: invalid escape in a string literal (lexer.rs:174-176)
        ("lexer/invalid-escape", None, "InvalidSyntax", body("{ let z = \"a\\qb\"; 1 }")),
        ("lexer/valid-escape-ok", None, None, body("{ let z = \"a\\nb\"; 1 }")),
    ]
    # syntax gates of the lexer / parser (each report site of source_parser.rs and the reserved words of
    # lexer.rs): an ill-formed module is rejected with InvalidSyntax and never compiled
    syn = lambda t: t + "class Main {\n  function main(): unit = Process.println(\"m\")\n}\n"
    fn = lambda e: syn("class Q {\n  function t(a: int): int = " + e + "\n}\n")
    synt = [
        ("expected-operator", fn("(a + 1")), ("expected-keyword", syn("class Q {\n  t(a: int): int = 1\n}\n")),
        ("expected-lower-id", fn("{ let = 1; a }")), ("expected-upper-id", syn("class (val v: int) { }\n")),
        ("expected-identifier-after-dot", fn("a.1")), ("expected-expression", fn("a + ")),
        ("expected-member-name", fn("a.")), ("bad-toplevel-keyword", syn("function f(): int = 1\n")),
        ("unexpected-private", syn("class Q {\n  private private function t(): int = 1\n}\n")),
        ("struct-too-large", syn("class Big(" + ", ".join(f"val f{i}: int" for i in range(17)) + ") {\n  method k(): int = 0\n}\n")),
        ("struct-max-size-ok", syn("class Big(" + ", ".join(f"val f{i}: int" for i in range(16)) + ") {\n  method k(): int = 0\n}\n")),
        ("invalid-token", fn("a @ 1")), ("unterminated-string", fn("{ let z = \"abc; 1 }")),
        ("missing-import-semicolon-module", "import { A } from\n" + syn("")),
        ("lambda-parameter-list-broken", fn("{ let g = (x: int, ) -> ; 1 }")),
        ("match-without-arms", fn("match a { }")),
        ("type-annotation-missing", syn("class Q {\n  function t(a: ): int = 1\n}\n")),
        ("private-member-in-interface", syn("interface J {\n  private method a(): int\n}\n")),
        ("private-interface-ok", syn("private interface J {\n  method a(): int\n}\n")),
        ("tuple-too-large", fn("{ let z = (" + ", ".join("1" for _ in range(17)) + "); a }")),
        ("reserved-operator-brackets", fn("a[0]")), ("reserved-operator-question", fn("a ? 1")),
        ("reserved-operator-dotdotdot", fn("{ let z = ...; a }")),
        ("unterminated-block-comment", fn("a") + "/* never closed"),
        ("unterminated-string-at-eof", fn("a") + "\"never closed"),
    ] + [(f"reserved-word-{w}", fn("{ let " + w + " = 1; a }")) for w in
         ["protected", "internal", "public", "then", "string", "self", "const", "var", "type", "constructor",
          "destructor", "extends", "implements", "exports", "assert", "let", "val", "class", "if", "match"]]
    for label, text in synt:
        out.append(("syntax/" + label, None, None if label.endswith("-ok") else "InvalidSyntax", text))
    return out


def check_misc(ctx, stats, hist):
    fam = misc_family()
    mlines = [(i, c[1]) for i, c in enumerate(fam) if c[1]]
    mans = dict(zip([i for i, _ in mlines], run_model([l for _, l in mlines])))
    answers = eval_programs([{"sources": {"Main": c[3]}, "entry": "Main", "std": False, "compile": True} for c in fam])
    for i, ((label, line, kind, src), ans) in enumerate(zip(fam, answers)):
        stats["misc"] += 1
        hist["misc"] = hist.get("misc", 0) + 1
        expect_reject = kind is not None
        pr = {"sources": {"Main": src}, "entry": "Main", "std": False, "compile": True}
        if line is not None and mans.get(i) != ("0" if expect_reject else "1"):
            ctx.violation(f"kind-gate model disagrees with the family's bookkeeping ({label}): model {mans.get(i)}",
                          {"protocol": "gate", "case": label, "line": line, "model": mans.get(i), "broken": "Model/Gates.lean vs vlib/c06.py"}, no_input=True)
            continue
        verdict = gate_verdict(ans, "Main")
        if expect_reject and verdict == "reject" and any(e["kind"] == kind for e in ans["errors"]):
            stats["misc_rejected"] += 1
        elif not expect_reject and verdict == "accept":
            stats["misc_accepted"] += 1
        elif expect_reject and verdict != "reject":
            ctx.violation(f"static error not rejected (gate {label}, expected {kind}): {verdict}",
                          {"protocol": "prog", "mutant": "misc " + label, "module": "Main", "program": pr, "answer": ans, "why": verdict})
        else:
            ctx.violation(f"gate family broken ({label}): expected {'a ' + kind + ' error' if kind else 'acceptance'}, front end says {verdict} "
                          f"{[e['kind'] for e in ans.get('errors', [])][:4]}",
                          {"protocol": "prog", "mutant": "misc " + label, "module": "Main", "program": pr, "answer": ans,
                           "broken": "misc gate family"}, no_input=True)



# ------------------------------------------------------------------ positions: every violation kind in every expression context / delayed-check position

POSITION_VIOLATIONS = [   # (label, accepted error kinds, ill-typed int expression over `n: int`, well-typed twin)
    ("operand-type", {"Stacked"}, "n + true", "n + 1"),
    ("argument-type", {"Stacked"}, "Main.two(n, \"s\")", "Main.two(n, 2)"),
    ("call-arity", {"Stacked"}, "Main.two(n)", "Main.two(n, 1)"),
    ("unresolved-member", {"CannotResolveMember"}, "Main.missing9(n)", "Main.id(n)"),
    ("unresolved-name", {"CannotResolveName"}, "n + zz9", "n + n"),
    ("unresolved-class", {"CannotResolveClass"}, "Nope9.f(n)", "Main.id(n)"),
    ("type-argument-arity", {"Stacked"}, "Main.gid<int, bool>(n)", "Main.gid<int>(n)"),
    ("non-exhaustive-match", {"NonExhaustiveMatch"}, "match Main.opt(n) { So(v9) -> v9 }", "match Main.opt(n) { So(v9) -> v9, No -> 0 }"),
    ("refutable-let", {"NonExhaustiveMatch"}, "{ let So(v9) = Main.opt(n); v9 }", "{ let v9 = Main.opt(n); n }"),
    ("lambda-return-type", {"Stacked"}, "Main.ap((q9: int) -> true, n)", "Main.ap((q9: int) -> q9, n)"),
    ("if-condition-type", {"Stacked"}, "if n { 1 } else { 2 }", "if n > 0 { 1 } else { 2 }"),
    ("private-member", {"CannotResolveMember"}, "Hid.mk().secret()", "Hid.mk().open()"),
]
POSITION_DECLS = ("class Sc(A, B(int)) {\n  method k(): int = 0\n}\n"
                  "class Op(No, So(int)) {\n  method k(): int = 0\n}\n"
                  "class Hid(val z: int) {\n  function mk(): Hid = Hid.init(1)\n  method open(): int = this.z\n  private method secret(): int = this.z\n}\n")


def position_module(c07, expr):
    """(module text, {0-based line: context name}): one function per expression context of builder
    C07's CONTEXTS, each on its own line, with `expr` at the context's hole."""
    lines = (POSITION_DECLS + "\n".join(c07.CTX_PRELUDE)).split("\n")
    lines += ["class Main {", "  function id(a: int): int = a", "  function <T> gid(v: T): T = v",
              "  function two(a: int, b: int): int = a + b", "  function ap(g: (int) -> int, a: int): int = g(a)",
              "  function opt(a: int): Op = if a > 0 { Op.So(a) } else { Op.No() }"]
    where = {}
    for k, cdef in enumerate(c07.CONTEXTS):
        if len(cdef) > 3:
            continue                   # contexts that only take an if-let expression
        where[len(lines)] = cdef[0]
        lines.append(f"  function c{k}(x: Sc, n: int): int = " + cdef[1].format(E=expr))
    lines += ["  function main(): unit = Process.println(\"m\")", "}"]
    return "\n".join(lines) + "\n", where


def check_positions(ctx, stats, hist):
    """Position dimension of "every static error is rejected wherever it occurs": one violation per
    error kind that can sit inside an expression, embedded (a) in every expression context of
    builder C07's context family and (b) in the delayed-check positions of builder C13's
    branch-structured generic-argument family (the body of a lambda that is only typeable from the
    context, or a payload that conflicts with a placeholder, next to a later nested generic call).
    Expected: an error of that kind on exactly that line / in Main, compile_sources = Err."""
    # ---- (a) C07's expression contexts
    try:
        from . import c07
        contexts = c07.CONTEXTS
        assert c07.CTX_PRELUDE
    except Exception as ex:
        ctx.assumptions.append(f"position family (a) not run: builder C07's context family unavailable: {ex!r}"[:200])
        contexts = None
    if contexts is not None:
        mods = []
        for label, kinds, bad, good in POSITION_VIOLATIONS:
            for which, e in (("ill-typed", bad), ("twin", good)):
                text, where = position_module(c07, e)
                mods.append((label, kinds, which, text, where))
        answers = eval_programs([{"sources": {"Main": m[3]}, "entry": "Main", "std": False, "compile": True} for m in mods])
        for (label, kinds, which, text, where), ans in zip(mods, answers):
            pr = {"sources": {"Main": text}, "entry": "Main", "std": False, "compile": True}
            if which == "twin":
                stats["pos"] += len(where)
                if gate_verdict(ans, "Main") != "accept":
                    ctx.violation(f"position family: well-typed twin of {label} not accepted in some context: "
                                  f"{[(where.get(int(e['loc'].split(':')[0]), '?'), e['kind']) for e in ans.get('errors', [])][:4]} {ans.get('compile')}",
                                  {"protocol": "prog", "mutant": "position twin " + label, "module": "Main", "program": pr, "answer": ans,
                                   "broken": "position family (accept side)"}, no_input=True)
                else:
                    stats["pos_accepted"] += len(where)
                continue
            by_line = {}
            for e in ans.get("errors", []):
                by_line.setdefault(int(e["loc"].split(":")[0]), []).append(e["kind"])
            for line, cname in where.items():
                stats["pos"] += 1
                hist["pos:" + label] = hist.get("pos:" + label, 0) + 1
                if ans.get("check") == "done" and any(k in kinds for k in by_line.get(line, [])) and ans.get("compile") == "err":
                    stats["pos_rejected"] += 1
                    continue
                stats["pos_slipped"] += 1
                if stats["pos_slipped"] <= 4:
                    one, _ = position_module(type("O", (), {"CONTEXTS": [c for c in c07.CONTEXTS if c[0] == cname], "CTX_PRELUDE": c07.CTX_PRELUDE}), dict((l, (b, g)) for l, _, b, g in POSITION_VIOLATIONS)[label][0])
                    p1 = {"sources": {"Main": one}, "entry": "Main", "std": False, "compile": True}
                    a1 = eval_programs([p1])[0]
                    ctx.violation(f"static error not rejected in expression context `{cname}` ({label}): errors on that line {by_line.get(line, [])}, "
                                  f"alone: {judge_mutant(a1, 'Main') or 'rejected when alone'}",
                                  {"protocol": "prog", "mutant": f"position {label} @ {cname}", "module": "Main", "program": p1, "answer": a1,
                                   "why": judge_mutant(a1, "Main") or f"no {sorted(kinds)} error on the context's line in the combined module"})
    # ---- (b) C13's branch-structured generic arguments: the fault in the delayed-check position
    try:
        from . import scopegen as g
        fam = [(f, sh, [a, b] if sh != "match" else [a, b, a])
               for f, ks in (("M", g.M_KINDS), ("L", g.L_KINDS)) for sh in ("if", "match", "if-block", "block-if")
               for a in ks for b in ks if (a in g.NEEDS_HINT or b in g.NEEDS_HINT)]
        g.mix_program, g.map_expr, g.render
    except Exception as ex:
        ctx.assumptions.append(f"position family (b) not run: builder C13's generic-argument family unavailable: {ex!r}"[:200])
        return
    L_FAULTS = [("operand-type", {"Stacked"}, ("raw", "true")), ("call-arity", {"Stacked"}, ("raw", "Main.inc(1, 2)")),
                ("argument-type", {"Stacked"}, ("raw", "Main.inc(\"s\")")), ("unresolved-member", {"CannotResolveMember"}, ("raw", "Main.missing9(1)")),
                ("unresolved-name", {"CannotResolveName"}, ("raw", "zz9"))]
    jobs = []
    for fi, (family, shape, kinds) in enumerate(fam):
        base = g.mix_program(family, shape, kinds)
        jobs.append((f"{family}/{shape}/{'+'.join(kinds)}", None, None, base))
        body = base["funs"][0]["body"]
        if family == "L":
            for label, ek, fault in (L_FAULTS if not ctx.quick else [L_FAULTS[(fi + j) % len(L_FAULTS)] for j in range(2)]):
                def f(node, fault=fault):
                    if node[0] == "lam" and len(node[1]) == 1 and node[1][0][1] is False:
                        return ("lam", node[1], ("bin", "+", ("var", node[1][0][0]), fault))
                    return node
                nb = g.map_expr(body, f)
                if nb != body:
                    q = dict(base); q["funs"] = [dict(base["funs"][0], body=nb)]
                    jobs.append((f"{family}/{shape}/{'+'.join(kinds)}", label + " in the context-typed lambda body", ek, q))
        else:
            def f(node):
                if node[0] == "gcall" and node[1] == "Maybe.Just":
                    return (node[0], node[1], [("raw", "\"s\"")]) + tuple(node[3:])
                return node
            nb = g.map_expr(body, f)
            if nb != body:
                q = dict(base); q["funs"] = [dict(base["funs"][0], body=nb)]
                jobs.append((f"{family}/{shape}/{'+'.join(kinds)}", "Maybe<Str> where Maybe<int> is required (conflicts with the placeholder)", {"Stacked"}, q))
    # bases are only type-checked here (builder C13's check compiles and runs them); mutants go through compile_sources
    progs = [{"sources": g.render(j[3]), "entry": "Main", "std": False, "compile": j[1] is not None} for j in jobs]
    answers = eval_programs(progs)
    for (name, label, ek, _), pr, ans in zip(jobs, progs, answers):
        stats["pos"] += 1
        if label is None:
            if ans.get("check") == "done" and not ans["errors"]:
                stats["pos_accepted"] += 1
            else:
                ctx.violation(f"position family: base program {name} of builder C13's generic-argument family not accepted",
                              {"protocol": "prog", "mutant": "position base " + name, "module": "Main", "program": pr, "answer": ans,
                               "broken": "position family (accept side)"}, no_input=True)
            continue
        hist["pos:delayed"] = hist.get("pos:delayed", 0) + 1
        why = judge_mutant(ans, "Main")
        if why is None and any(e["kind"] in ek for e in ans["errors"]):
            stats["pos_rejected"] += 1
            continue
        stats["pos_slipped"] += 1
        if stats["pos_slipped"] <= 6:
            ctx.violation(f"static error not rejected in a delayed-check position ({name}: {label}): {why or 'rejected, but without a ' + '/'.join(sorted(ek)) + ' error'}",
                          {"protocol": "prog", "mutant": f"position {label} @ {name}", "module": "Main", "program": pr, "answer": ans,
                           "why": why or "wrong error kind"})



def shrink_program(prog, module, base):
    """Structural shrinking of a generated mutant: drop whole `function fK` definitions of the
    mutated module that are identical to the base program's (so the fault stays), as long as the
    property still fails; `main` is rewritten to print a constant."""
    if not base or module not in base:
        return prog
    def fails(p):
        return judge_mutant(eval_programs([p])[0], module) is not None
    split = lambda t: re.split(r"(?=  function (?:f\d+|main)\()", t)
    mp, bp = split(prog["sources"][module]), split(base[module])
    if len(mp) != len(bp) or len(mp) < 3:
        return prog
    keep = list(range(1, len(mp) - 1))
    for i in list(keep):
        if mp[i] != bp[i]:
            continue
        cand = [k for k in keep if k != i]
        t = mp[0] + "".join(mp[k] for k in cand) + "  function main(): unit = Process.println(\"x\")\n}\n"
        p = dict(prog); p["sources"] = dict(prog["sources"]); p["sources"][module] = t
        if fails(p):
            keep, prog = cand, p
    return prog


def run(ctx):
    res = common.proof_gate(ctx, None)
    rng = ctx.rng
    stats = {k: 0 for k in ["tok", "tok_disagree", "tok_literals", "tok_out_of_range", "tok_f1", "lit", "lit_f1",
                            "asg", "asg_disagree", "asg_accept", "asg_anyfree", "slv", "slv_accept",
                            "pos", "pos_rejected", "pos_accepted", "pos_slipped", "misc", "misc_rejected", "misc_accepted", "pat", "pat_rejected", "pat_accepted", "pat_slipped", "pat_overstrict", "sup", "sup_cyclic", "sup_disagree", "sup_variant_memoised", "sup_prog_cyclic", "scope", "scope_rejected", "scope_accepted", "scope_slipped", "scope_base_rejected", "scope_ssa_compared", "scope_ssa_disagree", "scope_ssa_unparsed", "gate", "gate_rejected", "gate_accepted", "gate_slipped", "gate_overstrict", "join", "join_rejected", "join_accepted", "join_slipped", "join_base_rejected", "base_programs", "mutants", "mutants_rejected", "mutants_slipped", "tok_oracle_fail", "slv_disagree", "asg_spec_fail", "prog_f1", "prog_f2",
                            "sample_sites_total", "sample_bases_accepted"]}
    hist, errkinds, samples_out = {}, {}, []
    built = os.path.exists(common.harness_bin("C06")) and os.path.exists(common.driver_bin("C06")) and \
        not any(n == "build" for n, _ in res["failed"])
    if built:
        # corpus first
        cdir = os.path.join(common.VERIF, "corpus", "C06")
        corpus = []
        for f in sorted(os.listdir(cdir)) if os.path.isdir(cdir) else []:
            for l in open(os.path.join(cdir, f), encoding="utf-8"):
                l = l.strip()
                if l and not l.startswith("#"):
                    toks = [("m",) if w == "m" else ("i", int(w[1:])) if w[0] == "i" else ("o", int(w[1:])) for w in l.split()]
                    corpus.append((toks, " ".join(layout_plain(toks))))
        if corpus:
            check_tok_cases(ctx, corpus, stats)
        ntok = ctx.scale(10000, 100000)
        cases = []
        for i in range(ntok):
            r = rng.fork()
            toks = gen_stream(r, guarded=(i % 5 != 0))
            cases.append((toks, layout(r, toks)))
        cases.append(([("o", 0), ("i", P31)], "( 2147483648"))          # dedicated probe of C06-F1
        check_tok_cases(ctx, cases, stats)
        check_lit(ctx, rng, ctx.scale(1500, 20000), stats)
        check_types(ctx, rng, ctx.scale(20000, 300000), stats)
        check_joins(ctx, rng, ctx.scale(2, 20), stats, hist)
        check_gates(ctx, rng, stats, hist)
        check_gates2(ctx, rng, stats, hist)
        check_scopes(ctx, rng, stats, hist)
        check_patterns(ctx, stats, hist)
        check_misc(ctx, stats, hist)
        check_positions(ctx, stats, hist)
        check_mutants(ctx, rng, ctx.scale(1600, 12000), ctx.scale(500, 8000), stats, hist, errkinds, samples_out)
    ctx.cov.update({
        "evaluations": stats["tok"] + stats["lit"] + stats["asg"] + stats["slv"] + stats["mutants"] + stats["join"] + stats["gate"] + stats["scope"] + stats["sup"] + stats["pat"] + stats["misc"] + stats["pos"],
        "distinct_nontrivial": stats["tok_out_of_range"] + stats["asg_accept"] + stats["slv_accept"] + stats["mutants_rejected"] + stats["join_rejected"] + stats["gate_rejected"] + stats["scope_rejected"] + stats["pat_rejected"] + stats["misc_rejected"] + stats["pos_rejected"],
        "rule": "evaluations = token streams + literal expressions + type pairs + constraint problems + program mutants, each run "
                "through the real crates; non-trivial = out-of-range literals inside token streams + type pairs the kernel "
                "accepts (consistent up to any-holes; most pairs differ in one deep position) + accepted constraint problems "
                "+ single-fault mutants that were actually type-checked and rejected with an error in the mutated module",
        "samples": samples_out,
        "traces_validated_against_impl": stats["tok"] + stats["lit"] + stats["asg"] + stats["slv"],
        "counters": stats, "mutant_kind_histogram": hist, "error_kind_histogram": errkinds,
        "partial_theorems": {},
        "counterexample_theorems": [],
        "fixed_findings": ["C06-F1 (d5c9a21): int_range_exact / accepted_literals_faithful now full strength",
                           "C06-F2 (db690ec): if condition checked against bool",
                           "C06-F3 (d05f979): private fields no longer visible in a same-named class of another module"],
        "pending": ["the inference engine that decides where `any` placeholders arise (hints, lambda parameter inference) is not modelled",
                    "memoised super-type walk: set-equality of its collected list with the un-memoised walk's is not proved (tied exactly by the supm stream); the model's recursion budget (declarations + 2) is shown sufficient only by the driver's exhaustion flag, a fuel-free (well-founded) definition is not given",
                    "position dimension (a violation is rejected in whatever expression context it occurs) has no Lean statement: the contexts act through the hint / synthesis machinery of the inference engine, which is not modelled; covered by the pos family (C07's 36 contexts, C13's generic-argument family) only",
                    "cycle_detected (un-memoised walk, the code before 8144d53c) is fuel-indexed; kept for the historical variant only",
                    "gate kernels other than sup are tied by whole-program verdicts, not by function-level hooks",
                    "error *location* (module of the diagnostic) is observed by the oracle only; locations are not in the models",
                    "solve_sound is proved for any-free concrete types; with placeholders inside the concrete type only the slv oracle applies",
                    "generic type arguments with their own bounds are outside boundOk"]})
    ctx.assumptions += ["valid UTF-8 sources", "integer literal text matches the lexer regex 0|[1-9][0-9]* (checked by the tok correspondence)",
                        "reasons/locations are not part of a type's identity (dropped in Model/Assign.lean)"]
    return ctx.finish(res, trusted=common.TRUSTED_COMMON + [
        "hand-written models Model/IntRange.lean, Model/Assign.lean (HashMap substitution as association list)",
        "hooks: samlang_parser::verif_hooks (token dump), samlang_checker::verif_hooks_c06 (re-exports of type_system kernels)",
        "gate kernels (Model/Gates.lean) are tied through whole programs (verdict accept/reject), not function by function",
        "the mutant generator's claim that each edit is ill-typed by the language rules (vlib/c06.py ProgGen / sample_sites)",
        "not modelled: inference engine deciding where `any` placeholders arise, SSA/name resolution, visibility, interface "
        "conformance walk, pattern exhaustiveness (C07), compile_sources' error gate — reached by the mutant oracle only"])


def replay(ctx, path):
    common.build_harness("C06"); common.build_lean(["drv-c06"])
    data = json.load(open(path))
    r = data.get("replay", data)
    proto = r.get("protocol")
    if proto == "tok":
        toks = [("m",) if w == "m" else ("i", int(w[1:])) if w[0] == "i" else ("o", int(w[1:])) for w in r["raw"]]
        text = r.get("text") or " ".join(layout_plain(toks))
        ia = run_impl(["tok " + hexs(text)])[0]
        ma = run_model(["tok " + " ".join(r["raw"])])[0]
        print("text :", repr(text)); print("impl :", canon_tok_answer(ia)[0]); print("model:", ma)
        return 1 if canon_tok_answer(ia)[0] != ma.split(" V ")[0] or oracle_fails_tok(toks) else 0
    if proto == "lit":
        print(run_impl(["lit " + hexs(r["text"])])[0]); return 1
    if proto in ("asg", "slv"):
        ia, ma = run_impl([r["line"]])[0], run_model([r["line"]])[0]
        print("impl :", ia); print("model:", ma)
        return 1 if ia != ma else 0
    if proto == "prog":
        a = eval_programs([r["program"]])[0]
        print(json.dumps(a, indent=1))
        why = judge_mutant(a, r["module"])
        print("property:", why or "holds")
        return 1 if why else 0
    print(json.dumps(data, indent=1))
    return 1
