"""C09 — formatting is idempotent and keeps every comment.

Proof: lean/SamVerif/Props/C09.lean over Model/Doc.lean (the whole layout engine prettier.rs) and
Model/CommentQueue.lean (parser comment queue + comment-store helpers).
Tie (every run):
  * `layout`/`expand`/`flatten`: real prettier::pretty_print and the real Document builders (hook H4)
    vs the Lean model on random documents and widths, exact equality;
  * `fmtdoc`: the real Document built by source_printer for generated modules (hook H4b): the model
    lays it out (exact equality with the real output) and evaluates the hypothesis `Agree` of
    `layout_preserves_text` on it;
  * `queue`/`prepend`: real SourceParser::{peek,consume} / comment prepending vs the model;
  * `attach`/`paren`: comment skeleton of real parses before/after
    parse_expression_with_additional_preceding_comments / keep_parenthesis_comments vs Model/Attach.lean;
  * `exprdoc`: the real Document of an expression (create_doc, hook H4c) vs Model/ExprDoc.lean, structural
    equality, and its layout;
  * `imports`: the import section of the real Document (grouping by module, merged comments and members,
    sorting) vs Model/Imports.lean, structural equality.
Implementation-side oracle (no model): a comment of every kind inserted into every token gap of a
corpus of valid modules; format once and twice with the real parser+printer; comment word sequence
kept, second format identical, no panic, output still parses.
"""
import json, os, glob, collections, hashlib
from . import common
from .common import hexs

PROP = "C09"
CTX_FILE = os.path.join(common.VERIF, "vlib", "c09_contexts.json")
COMMENT_KINDS = ("line", "block", "doc")


def uh(s):
    return "" if s == "-" else bytes.fromhex(s).decode("utf-8", "replace")


def run_h(lines, timeout=1800):
    rc, out, err = common.run_exec(common.harness_bin(PROP), [], lines, timeout)
    if len(out) < len(lines):
        out += [f"<harness died rc={rc}: {err.strip()[-200:]}>"] * (len(lines) - len(out))
    return out


def run_d(lines, timeout=1800):
    rc, out, err = common.run_exec(common.driver_bin(PROP), [], lines, timeout)
    if len(out) < len(lines):
        out += [f"<driver died rc={rc}: {err.strip()[-200:]}>"] * (len(lines) - len(out))
    return out


# ------------------------------------------------------------------------------------------------
# 1. layout protocol: random documents
# ------------------------------------------------------------------------------------------------
STATIC = ["(", ")", ",", " ", "{", "}", "let ", " = ", "x", "", ";", "->", "if "]
WORDS = ["a", "foo", "barbaz", "é", "日本", "x1", "longerIdentifierName", "42", "\"s t\"", "", "w w"]
CWORDS = ["hello", "world", "a", "é", "", "word", "averyveryverylongcommentwordthatdoesnotfit", "x y", "日本"]


def gen_doc(rng, depth, raw_union_ok):
    """Returns a tree: tuples ('N',) ('T',s) ('S',s) ('L',) ('LN',) ('LH',) ('C',a,b) ('I',n,a) ('U',a,b)
    ('G',a) ('BF',l,sep,a,r) ('LC',t) ('MC',starter,t) ('CV',[...])."""
    if depth <= 0 or rng.chance(1, 5):
        k = rng.weighted([("T", 5), ("S", 6), ("L", 3), ("LN", 2), ("LH", 1), ("N", 1), ("LC", 2), ("MC", 2)])
    else:
        k = rng.weighted([("C", 8), ("CV", 5), ("I", 3), ("G", 5), ("BF", 4), ("U", 2 if raw_union_ok else 0),
                          ("LC", 1), ("MC", 1)])
    if k == "T":
        return ("T", rng.pick(STATIC))
    if k == "S":
        return ("S", rng.pick(WORDS))
    if k in ("L", "LN", "LH", "N"):
        return (k,)
    if k == "LC":
        return ("LC", " ".join(rng.pick(CWORDS) for _ in range(rng.range(1, 6))))
    if k == "MC":
        return ("MC", rng.pick(["/*", "/**"]), " ".join(rng.pick(CWORDS) for _ in range(rng.range(1, 6))))
    if k == "C":
        return ("C", gen_doc(rng, depth - 1, raw_union_ok), gen_doc(rng, depth - 1, raw_union_ok))
    if k == "CV":
        return ("CV", [gen_doc(rng, depth - 1, raw_union_ok) for _ in range(rng.range(0, 4))])
    if k == "I":
        return ("I", rng.pick([0, 2, 2, 4, 7]), gen_doc(rng, depth - 1, raw_union_ok))
    if k == "G":
        return ("G", gen_doc(rng, depth - 1, raw_union_ok))
    if k == "BF":
        return ("BF", rng.pick(["(", "{", "<", "["]), rng.pick([("L",), ("LN",)]),
                gen_doc(rng, depth - 1, raw_union_ok), rng.pick([")", "}", ">", "]"]))
    return ("U", gen_doc(rng, depth - 1, raw_union_ok), gen_doc(rng, depth - 1, raw_union_ok))


def ser(d):
    k = d[0]
    if k in ("N", "L", "LN", "LH"):
        return k
    if k in ("T", "S", "LC"):
        return f"{k} {hexs(d[1])}"
    if k == "MC":
        return f"MC {hexs(d[1])} {hexs(d[2])}"
    if k in ("C", "U"):
        return f"{k} {ser(d[1])} {ser(d[2])}"
    if k == "I":
        return f"I {d[1]} {ser(d[2])}"
    if k == "G":
        return f"G {ser(d[1])}"
    if k == "BF":
        return f"BF {hexs(d[1])} {ser(d[2])} {ser(d[3])} {hexs(d[4])}"
    if k == "CV":
        return ("CV %d " % len(d[1]) + " ".join(ser(x) for x in d[1])).strip()
    raise ValueError(k)


def children(d):
    k = d[0]
    if k in ("C", "U"):
        return [d[1], d[2]]
    if k in ("I",):
        return [d[2]]
    if k == "G":
        return [d[1]]
    if k == "BF":
        return [d[3]]
    if k == "CV":
        return list(d[1])
    return []


def has_raw_union(d):
    return d[0] == "U" or any(has_raw_union(c) for c in children(d)) or (d[0] == "BF" and has_raw_union(d[2]))


def strip_ws(s):
    return "".join(c for c in s if not c.isspace())


def content(d):
    """Independent reading of a builder-only document: its non-whitespace text, comment leaders and
    delimiters (`/`, `*`) removed."""
    k = d[0]
    if k in ("T", "S"):
        return strip_ws(d[1])
    if k == "LC":
        return strip_ws(d[1])
    if k == "MC":
        return strip_ws(d[2])
    if k == "BF":
        return strip_ws(d[1]) + content(d[3]) + strip_ws(d[4])
    return "".join(content(c) for c in children(d))


def layout_oracle(d, out):
    """Property-level check on the real output (no model): nothing but whitespace and comment
    leaders may differ from the document's text."""
    if has_raw_union(d):
        return None
    got = strip_ws(out).replace("/", "").replace("*", "")
    return None if got == content(d) else f"text of the document {content(d)!r} != text of the layout {got!r}"


def shrink_doc(d, fails, budget=200):
    changed = True
    while changed and budget > 0:
        changed = False
        for c in children(d):
            budget -= 1
            if fails(c):
                d, changed = c, True
                break
    return d


def layout_phase(ctx, n):
    rng = ctx.rng.fork()
    docs, lines = [], []
    hist = collections.Counter()
    for i in range(n):
        d = gen_doc(rng, rng.range(1, 6), raw_union_ok=rng.chance(1, 3))
        w = rng.weighted([(rng.range(0, 12), 4), (rng.range(13, 40), 4), (rng.range(41, 120), 2), (100, 1)])
        op = rng.weighted([("layout", 8), ("expand", 1), ("flatten", 1)])
        docs.append((op, w, d))
        lines.append(f"layout {w} {ser(d)}" if op == "layout" else f"{op} {ser(d)}")
        hist[op] += 1
    impl, model = common.run_pair(PROP, lines)
    bad_oracle = 0
    nontrivial = 0
    for (op, w, d), a in zip(docs, impl):
        if op != "layout" or not a.startswith("s:"):
            if op == "layout":
                ctx.violation("real layout engine failed on a document: " + a[:80], {"protocol": "layout", "width": w, "doc": ser(d), "impl": a})
            continue
        out = uh(a[2:])
        if out.count("\n") > 1:
            nontrivial += 1
        msg = layout_oracle(d, out)
        if msg:
            bad_oracle += 1
            def f(c, w=w):
                r = run_h([f"layout {w} {ser(c)}"])[0]
                return r.startswith("s:") and layout_oracle(c, uh(r[2:])) is not None
            small = shrink_doc(d, f)
            r = run_h([f"layout {w} {ser(small)}"])[0]
            ctx.violation("prettier::pretty_print loses or invents text: " + (layout_oracle(small, uh(r[2:])) or msg),
                          {"protocol": "layout", "width": w, "doc": ser(small), "impl_output": uh(r[2:])})
            break
    i = common.first_diff(impl, model)
    if i is not None and not ctx.violations:
        op, w, d = docs[i]
        mk = (lambda c: f"layout {w} {ser(c)}") if op == "layout" else (lambda c: f"{op} {ser(c)}")
        def f(c):
            a, b = common.run_pair(PROP, [mk(c)])
            return a != b
        small = shrink_doc(d, f)
        a, b = common.run_pair(PROP, [mk(small)])
        # search: does the real engine break the property on this document at any width?
        found = False
        if not has_raw_union(small):
            ws = list(range(0, 130))
            outs = run_h([f"layout {x} {ser(small)}" for x in ws])
            for x, r in zip(ws, outs):
                if r.startswith("s:") and layout_oracle(small, uh(r[2:])):
                    ctx.violation("prettier::pretty_print loses or invents text: " + layout_oracle(small, uh(r[2:])),
                                  {"protocol": "layout", "width": x, "doc": ser(small), "impl_output": uh(r[2:])})
                    found = True
                    break
        if not found:
            ctx.violation("model/implementation disagreement on protocol layout (Model/Doc.lean vs prettier.rs); the theorems of Props/C09.lean no longer speak about this code",
                          {"protocol": op, "line": mk(small), "impl": a, "model": b,
                           "impl_text": uh(a[0][2:]) if a and a[0].startswith("s:") else None,
                           "model_text": uh(b[0][2:]) if b and b[0].startswith("s:") else None,
                           "broken": "correspondence `layout`"}, no_input=True)
    return {"layout_ops": dict(hist), "layout_multi_line_outputs": nontrivial}, n


# ------------------------------------------------------------------------------------------------
# 2. queue / prepend protocols
# ------------------------------------------------------------------------------------------------
QTOK = ["a", "Foo", "42", "(", ")", "{", "}", "=", "->", ",", "class", "val", "\"s\"", "+", "::", "."]
QCMT = ["// one two\n", "/* blk */", "/** doc\n * more */", "//\n", "/* a */ /* b */", "// é\n"]


def parse_tok_answer(a):
    items = []
    if a != "-" and not a.startswith("<") and not a.startswith("panic"):
        for it in a.split(","):
            k, l0, c0, l1, c1, h = it.split(":")
            items.append((k, int(l0), int(c0), int(l1), int(c1), uh(h)))
    return items


def stream_of(tl):
    parts = []
    for t in tl:
        if t[0] in COMMENT_KINDS:
            parts.append(f"{t[0]}={hexs(t[5])}")
        else:
            parts.append("t=" + hexs(("ERROR: " + t[5]) if t[0] == "error" else t[5]))
    return ",".join(parts) if parts else "-"


def queue_oracle(tl, ops, ans):
    """flatten(consumed) ++ pending must be a prefix of the stream's comments (complete once EOF was
    consumed), and the peeked tokens must come in stream order."""
    cm = [(t[0], t[5]) for t in tl if t[0] in COMMENT_KINDS]
    tk = [(("ERROR: " + t[5]) if t[0] == "error" else t[5]) for t in tl if t[0] not in COMMENT_KINDS]
    parts = ans.split(";")
    if len(parts) != len(ops) + 1:
        return "malformed answer " + ans[:60]
    got, consumed = [], 0
    def rd(s):
        return [(x.split("=")[0], uh(x.split("=")[1])) for x in s.split(",") if x]
    for o, p in zip(ops, parts):
        expect = tk[consumed] if consumed < len(tk) else "EOF"
        if o == "p":
            if uh(p[2:]) != expect:
                return f"peek answered {uh(p[2:])!r}, next token is {expect!r}"
        else:
            got += rd(p[2:])
            consumed += 1
    got += rd(parts[-1][1:])
    if got != cm[:len(got)]:
        return f"comments handed out {got} are not a prefix of the stream's comments {cm}"
    if consumed > len(tk) and got != cm:
        return f"EOF consumed but only {len(got)} of {len(cm)} comments were handed out"
    return None


def queue_phase(ctx, n):
    rng = ctx.rng.fork()
    texts, opss = [], []
    for _ in range(n):
        parts = []
        for _ in range(rng.range(0, 8)):
            parts.append(rng.pick(QCMT) if rng.chance(2, 5) else rng.pick(QTOK))
        text = " ".join(parts)
        ops = "".join("c" if rng.chance(1, 2) else "p" for _ in range(rng.range(0, 14)))
        texts.append(text); opss.append(ops)
    lines = []
    for t, o in zip(texts, opss):
        lines += ["tok " + hexs(t), f"queue {hexs(t)} {o}".rstrip()]
    def resolve(ls, impl):
        out = []
        for i, l in enumerate(ls):
            if l.startswith("tok "):
                out.append("echo " + impl[i])
            else:
                tl = parse_tok_answer(impl[i - 1])
                w = l.split(" ")
                out.append(("queue " + stream_of(tl) + " " + (w[2] if len(w) > 2 else "")).rstrip())
        return out
    impl, model = common.run_pair(PROP, lines, resolve)
    handed = 0
    for k, (t, o) in enumerate(zip(texts, opss)):
        a = impl[2 * k + 1]
        tl = parse_tok_answer(impl[2 * k])
        msg = queue_oracle(tl, o, a) if not a.startswith("panic") else "panic " + uh(a[6:])
        handed += a.count("=")
        if msg:
            ctx.violation("parser comment queue loses/duplicates/reorders comments: " + msg,
                          {"protocol": "queue", "text": t, "ops": o, "impl": a})
            return {}, n
    i = common.first_diff(impl, model)
    if i is not None:
        ctx.violation("model/implementation disagreement on protocol queue (Model/CommentQueue.lean vs source_parser.rs peek/consume)",
                      {"protocol": "queue", "line": lines[i], "impl": impl[i] if i < len(impl) else None,
                       "model": model[i] if i < len(model) else None, "broken": "correspondence `queue`"}, no_input=True)
    return {"queue_comments_handed_out": handed}, n


def hexlist(v):
    return ",".join(hexs(x) for x in v) if v else "-"


def prepend_phase(ctx, n):
    """C09-F1 was fixed by /repo commit 5884ffb: comment-less targets are part of the bulk stream and
    any loss is a violation again."""
    rng = ctx.rng.fork()
    cases = [(0, ["kept"], [[], ["other"]])]      # the former C09-F1 witness
    for _ in range(n):
        groups = [[f"g{gi}c{j}" for j in range(rng.pick([0, 0, 1, 1, 2, 3]))] for gi in range(rng.range(1, 4))]
        target = rng.below(len(groups))
        extra = [f"e{j}" for j in range(rng.pick([0, 1, 2, 3]))]
        cases.append((target, extra, groups))
    lines = [f"prepend {t} {hexlist(e)} " + " ".join(hexlist(g) for g in gs) for t, e, gs in cases]
    impl, model = common.run_pair(PROP, lines)
    for (t, e, gs), a, l in zip(cases, impl, lines):
        want = "r:" + hexlist(e + gs[t])
        if not a.startswith(want + " "):
            ctx.violation("mod_associated_comments_with_additional_preceding_comments loses comments: expected "
                          + want + ", got " + a, {"protocol": "prepend", "line": l, "impl": a})
            return n
    i = common.first_diff(impl, model)
    if i is not None:
        ctx.violation("model/implementation disagreement on protocol prepend (Model/CommentQueue.lean vs source_parser.rs:2181-2196)",
                      {"protocol": "prepend", "line": lines[i], "impl": impl[i], "model": model[i] if i < len(model) else None,
                       "broken": "correspondence `prepend`; theorem prepend_conserves no longer speaks about this code"}, no_input=True)
    return n + 1


# ------------------------------------------------------------------------------------------------
# 3. module oracle: a comment in every token gap
# ------------------------------------------------------------------------------------------------
HAND_BASES = [
    "import { A, B } from m.N;\nimport { C } from m.K;\nclass Main { function main(): unit = {} }\n",
    "class Foo(val a: int, val b: bool) {\n  function bar(): int = 3\n  method baz(x: int): int = this.a + x\n}\n",
    "class Opt<T>(None, Some(T), Both(T, int)) {\n  function <A> of(a: A): Opt<A> = Opt.Some(a)\n  method isNone(): bool = match this { None -> true, Some(_) -> false, Both(a, _) -> true }\n}\n",
    "interface I<T> { method f(x: T): int }\ninterface J : I<int> { function g(): unit }\nclass K : J { method f(x: int): int = x function g(): unit = {} }\n",
    "class M {\n  function f(a: int, b: int): int = a + b * 2 - a / b % 3\n  function g(a: bool, b: bool): bool = a && b || !a && (1 < 2) == (3 >= 4)\n  function h(a: Str): Str = a :: \"x\" :: \"y\"\n}\n",
    "class N {\n  function f(x: int): int = if x < 0 { -x } else if x == 0 { 1 } else { x }\n  function g(o: Opt<int>): int = if let Some(v) = o { v } else { 0 }\n}\n",
    "class P {\n  function f(): int = {\n    let a = 1;\n    let b: int = 2;\n    let (c, d) = (a, b);\n    let { e, f as g } = Obj.init(1, 2);\n    let _ = Process.println(\"hi\");\n    a + b + c + d + e + g\n  }\n}\n",
    "class Q {\n  function f(): (int) -> int = (x) -> x + 1\n  function g(): (int, bool) -> int = (x: int, y: bool) -> if y { x } else { 0 }\n  function h(): () -> unit = () -> {}\n  function k(l: List<int>): int = l.map<int>((x) -> x * 2).fold((a, b) -> a + b, 0)\n}\n",
    "class R {\n  function f(t: Pair<int, Str>): int = match t { (a, _) -> a }\n  function g(): Pair<int, Pair<bool, Str>> = (1, (true, \"s\"))\n  function h(a: int): int = (a + 1) * (a - 1)\n}\n",
    "private class S(val x: int) {\n  private function f(): S = S.init(1)\n  private method g(): int = this.x\n  function h(): int = S.f().g()\n}\nclass T { function main(): unit = Process.println(Str.fromInt(S.h())) }\n",
    "class U<A: Cmp<A>, B>(val a: A, val b: B) : Cmp<U<A, B>>, Show {\n  method <C: Show> w(c: C): B = this.b\n}\n",
    "class V {\n  function f(a: int): int = {\n    let b = { let c = a; c + 1 };\n    { let d = b; };\n    b\n  }\n  function g(): unit = { let x = 1; }\n}\n",
    "class W {\n  function f(o: Opt<Opt<int>>): int = match o {\n    None -> 0,\n    Some(None) -> 1,\n    Some(Some(v)) -> { let w = v; w },\n  }\n}\n",
    "class X {\n  function f(): int = A.b().c.d<int>(1, 2).e\n  function g(a: A): bool = a.f && !a.g() || a.h(true, \"s\") == 3\n  function h(): int = -1 + -(2) - (-3)\n}\n",
    "import { L } from std.list;\n\nclass Y {\n  function f(): unit = {\n    let l = L.of(1).cons(2).cons(3);\n    let _ = l.iter((i) -> Process.println(Str.fromInt(i)));\n  }\n}\n",
]


def _imp(lines, semi=True, tail="class Main { function main(): unit = {} }\n"):
    return "".join(f"import {{ {m} }} from {p}{';' if semi else ''}\n" for p, m in lines) + ("\n" + tail if tail else "")


# modules with 0..4 import lines: distinct modules in and out of order, several lines importing the
# same module (adjacent and interleaved), unsorted members, with and without `;`, imports only
IMPORT_SPECS = [
    [("m.A", "X")],
    [("m.B", "X"), ("m.A", "Y")],
    [("m.A", "B, A"), ("m.A", "C")],
    [("m.B", "Z"), ("m.A", "Y"), ("m.B", "X, W")],
    [("m.B", "Q"), ("m.A", "Y"), ("m.B", "P"), ("m.A", "X")],
    [("m.A", "A"), ("m.A", "B"), ("m.A", "C")],
    [("std.list", "List"), ("a.C", "K, J"), ("std.list", "Cons")],
]
IMPORT_BASES = [_imp(sp) for sp in IMPORT_SPECS] + [_imp(sp, semi=False) for sp in IMPORT_SPECS[1:5]] + \
               [_imp(IMPORT_SPECS[3], tail=""), _imp(IMPORT_SPECS[4], semi=False, tail="")]


# Round 5 (coverage-guided): productions the earlier corpus never parsed — empty class / interface
# bodies, `private interface`, `private val`, class with type parameters only, lambdas whose later
# parameters are annotated, tuples whose identifier cover ends in a compound / literal element,
# `(a + 1, b)`, empty statements, or-patterns, function types inside bounds and type arguments, the
# `<`-after-member-name rule, match / if-else as operands, and a trailing comma in every comma
# separated list (fields, parameters, arguments, tuples, type parameters / arguments, tuple and
# object patterns, lambda parameters, variants and their data, function-type parameters, match arms)
COVER_BASES = [
    "class E1 {}\ninterface E2 {}\nprivate interface E3 { method m(): int }\nclass E4<T> { function f(): unit = {} }\nprivate class E5<T>(val a: T) {}\n",
    "class F(private val a: int, val b: bool) { function f(): int = 1 }\n",
    "class G {\n  function f(): unit = {\n    let p = (a, b: int) -> a;\n    let q = (a, b, c + 1);\n    let r = (a, b, 42);\n    let s = (a + 1, b);\n    let t = (a: int, b) -> b;\n    let u = (a, b, c) -> a;\n    let v = (a);\n    let w = (a, b);\n  }\n}\n",
    "class H { function f(): int = { ; let a = 1; ; g(a); ; a } }\n",
    "class I { function f(o: O): int = match o { A | B -> 1, C(x) | D(x) -> x, _ -> 0 } }\n",
    "class J<T: Cmp<(int) -> int>, U: Box<List<(T) -> U>>> { function <V: F<(V, int) -> int>> g(): unit = {} }\n",
    "class K { function f(a: A): bool = (a.b) < 3 && (a.c.d) < a.e || ((x) -> x.y) < 2 }\n",
    "class L { function f(o: O): int = (match o { A -> 1, B -> 2 }) + (if o { 1 } else { 2 }) * 3 }\n",
    "class M(val a: int, val b: int,) {\n  function f(a: int, b: int,): int = g(a, b,) + h((a, b,))\n  method <A, B,> m(x: Pair<A, B,>): unit = { let (c, d,) = x; let { e, f, } = x; let k = (p, q,) -> p; }\n}\n",
    "class N(A(int, bool,), B,) { function f(n: N): int = match n { A(x, y,) -> 1, B -> 2, } }\n",
    "class O { function f(): (int, bool,) -> int = (x: int, y: bool,) -> x }\n",
    "class P {\n  function f(a: int, b: int, c: int): int = a + (b + c) + a * (b * c) - (a - (b - c))\n  function g(a: bool): bool = a && (a && a) || (a || a)\n  function h(a: int): int = { let x = (a + 1,); let y = (a,); x + y }\n}\n",
]


def tokcls(t):
    return t[5] if t[0] in ("kw", "op") else ("CMT" if t[0] in COMMENT_KINDS else t[0])


def line_offsets(src):
    offs = [0]
    for line in src.split("\n"):
        offs.append(offs[-1] + len(line.encode()) + 1)
    return offs


def tokens_of(srcs):
    return [parse_tok_answer(a) for a in run_h(["tok " + hexs(s) for s in srcs])]


def repo_pieces(max_tokens=140):
    """Top-level declarations of /repo's tests and std modules, as stand-alone modules."""
    files = sorted(glob.glob(os.path.join(common.REPO, "tests", "*.sam")) + glob.glob(os.path.join(common.REPO, "std", "*.sam")))
    srcs = [open(f, encoding="utf-8").read() for f in files]
    pieces = []
    for src, tl in zip(srcs, tokens_of(srcs)):
        b = src.encode(); offs = line_offsets(src)
        depth, starts = 0, []
        prev = None
        for t in tl:
            c = tokcls(t)
            if depth == 0 and c in ("class", "interface", "private") and prev != "private":
                starts.append(offs[t[1]] + t[2])
            if c in ("{", "(") : depth += 1
            if c in ("}", ")"): depth -= 1
            if c != "CMT":
                prev = c
        for s, e in zip(starts, starts[1:] + [len(b)]):
            pieces.append(b[s:e].decode("utf-8", "replace").strip() + "\n")
    out = []
    for p, tl in zip(pieces, tokens_of(pieces)):
        if 8 <= len(tl) <= max_tokens and not any(t[0] in COMMENT_KINDS or t[0] == "error" for t in tl):
            out.append(p)
    # keep only those the real formatter accepts and on which it is already a fixpoint after one pass
    ans = run_h(["fmt 100 " + hexs(p) for p in out])
    return [p for p, a in zip(out, ans) if a.startswith("ok ")]


LONG_TEXT = " ".join(["lorem", "ipsum", "dolor", "sit", "amet"] * 6)
VARIANT_TEXTS = ["x", "é 日本 z", LONG_TEXT, "a  b", "TODO: fix (this) = that -> x", "TWO"]


def text_id(text):
    if text == "cmt one":
        return 0
    if text in VARIANT_TEXTS:
        return 1 + VARIANT_TEXTS.index(text)
    return 6 if "second" in text else 9


def select_all(bases):
    """Deterministic enumeration (identical in the check and in the reference run): every gap x every
    comment kind with a short text, plus one variant per gap (one word, multi-byte, longer than the
    line, double blank, punctuation, two adjacent comments), chosen by a hash of module and gap."""
    def select(bi, ngaps):
        h = int(hashlib.sha1(bases[bi].encode()).hexdigest()[:8], 16)
        for g in range(ngaps):
            for kind in COMMENT_KINDS:
                yield (g, kind, "cmt one", 100)
            r = common.Rng(h * 1000003 + g)
            text = r.pick(VARIANT_TEXTS)
            kind = r.pick(COMMENT_KINDS)
            if text == "TWO":   # two adjacent comments in the same gap
                text = "first\n// second" if kind == "line" else "first */ /* second"
            yield (g, kind, text, 100)
    return select


def comment_text(kind, text):
    if kind == "line":
        return f"// {text}\n"
    return ("/* " if kind == "block" else "/** ") + text + " */"


def make_cases(bases, basetoks, select):
    """select(bi, ngaps) -> iterable of (gap, kind, text, width)."""
    cases = []
    for bi, (src, tl) in enumerate(zip(bases, basetoks)):
        b = src.encode(); offs = line_offsets(src)
        pos = [offs[t[1]] + t[2] for t in tl] + [len(b)]
        cls = ["^", "^"] + [tokcls(t) for t in tl] + ["$", "$"]
        for gi, kind, text, width in select(bi, len(pos)):
            p = pos[gi]
            m = (b[:p] + (" " + comment_text(kind, text) + " ").encode() + b[p:]).decode()
            cases.append({"base": bi, "gap": gi, "kind": kind, "text": text, "width": width,
                          "key": f"{hashlib.sha1(b).hexdigest()[:10]}:{gi}:{kind}:{text_id(text)}",
                          "ctx4": " ".join(cls[gi:gi + 4]), "ctx2": " ".join(cls[gi + 1:gi + 3]), "src": m})
    return cases


def words_of(tl):
    return [(t[0], w) for t in tl if t[0] in COMMENT_KINDS for w in t[5].split()]


def import_statements(tl):
    """[(end index in tl, module path)] of the leading import statements. A statement ends at its `;`
    if there is one, else at the last token of the module path."""
    stmts, i, n = [], 0, len(tl)
    def nxt(j):
        j += 1
        while j < n and tl[j][0] in COMMENT_KINDS:
            j += 1
        return j
    i = -1
    i = nxt(i)
    while i < n and tokcls(tl[i]) == "import":
        j = i
        while j < n and tokcls(tl[j]) != "from":
            j = nxt(j)
        if j >= n:
            break
        path, last = [], j
        j = nxt(j)
        while j < n and tl[j][0] in ("upper", "lower"):
            path.append(tl[j][5]); last = j
            k = nxt(j)
            if k < n and tokcls(tl[k]) == "." and nxt(k) < n and tl[nxt(k)][0] in ("upper", "lower"):
                j = nxt(k)
            else:
                j = k
                break
        if j < n and tokcls(tl[j]) == ";":
            last = j
            j = nxt(j)
        stmts.append((last, ".".join(path)))
        i = j
    return stmts


def expected_words(tl):
    """The comment (kind, word) sequence the property allows in the output: comments keep their order,
    except that the comments of an import statement move with that statement when the import lines are
    sorted by module path (lines of one module are merged, in source order), and inside one printed
    import line the comments of the imported members move with their member when the members are
    sorted by name (they are printed inside the braces, after the line's own comments)."""
    stmts = import_statements(tl)
    line_c = [[] for _ in stmts]          # comments of the statement itself
    memb_c = [[] for _ in stmts]          # (member name, seq, words)
    rest = []
    def next_real(j):
        j += 1
        while j < len(tl) and tl[j][0] in COMMENT_KINDS:
            j += 1
        return j
    braces = []                           # (index of `{`, index of `}`) per statement
    start = 0
    for gi, (end, _) in enumerate(stmts):
        o = c = None
        for j in range(start, end + 1):
            if tokcls(tl[j]) == "{" and o is None:
                o = j
            elif tokcls(tl[j]) == "}" and c is None:
                c = j
        braces.append((o if o is not None else -1, c if c is not None else -1))
        start = end + 1
    seq = 0
    for j, t in enumerate(tl):
        if t[0] not in COMMENT_KINDS:
            continue
        ws = [(t[0], w) for w in t[5].split()]
        for gi, (end, _) in enumerate(stmts):
            if j < end:
                o, c = braces[gi]
                member = None
                if o < j < c:
                    k = next_real(j)
                    if k < c and tokcls(tl[k]) == ",":
                        k = next_real(k)      # a comment before `,` is handed to the next member
                    if k < c and tl[k][0] == "upper":
                        member = tl[k][5]
                if member is None:
                    line_c[gi] += ws
                else:
                    seq += 1
                    memb_c[gi].append((member, seq, ws))
                break
        else:
            rest += ws
    order = sorted(range(len(stmts)), key=lambda gi: (stmts[gi][1].encode(), gi))
    out = []
    i = 0
    while i < len(order):
        k = i
        while k < len(order) and stmts[order[k]][1] == stmts[order[i]][1]:
            k += 1
        grp = order[i:k]
        for gi in grp:
            out += line_c[gi]
        ms = [m for gi in grp for m in memb_c[gi]]
        for _, _, ws in sorted(ms, key=lambda m: (m[0].encode(), m[1])):
            out += ws
        i = k
    return out + rest


def only_close_paren_comments_moved(tl, expected, got):
    """Signature of C09-F6: the output has the same comments, and the only ones out of order are comments
    written directly before a `)` (they are kept in front of the parenthesised expression)."""
    moved = []
    for j, t in enumerate(tl):
        if t[0] in COMMENT_KINDS:
            k = j + 1
            while k < len(tl) and tl[k][0] in COMMENT_KINDS:
                k += 1
            if k < len(tl) and tokcls(tl[k]) == ")":
                moved += [(t[0], w) for w in t[5].split()]
    if not moved or sorted(expected) != sorted(got):
        return False
    def without(seq):
        m = list(moved); out = []
        for x in seq:
            if x in m:
                m.remove(x)
            else:
                out.append(x)
        return out
    return without(expected) == without(got)


def independent_comments(src):
    """Comments of a text by the documented rule, without the project's lexer: `//` to the end of the line
    (trimmed); `/* .. */` (doc if it starts with `/**` and is longer than `/**/`): the text on the line of
    the opener is text; on every further line ONE leading `*` is decoration, the rest is text; lines are
    trimmed, empty ones dropped, the rest joined by one blank. String literals are skipped."""
    out, i, n = [], 0, len(src)
    while i < n:
        c = src[i]
        if c == '"':
            i += 1
            while i < n and src[i] != '"' and src[i] != "\n":
                i += 2 if src[i] == "\\" else 1
            i += 1
        elif src.startswith("//", i):
            j = src.find("\n", i)
            j = n if j < 0 else j
            out.append(("line", src[i + 2:j].strip()))
            i = j
        elif src.startswith("/*", i):
            j = src.find("*/", i + 2)
            if j < 0:
                break
            whole = src[i:j + 2]
            doc = len(whole) > 4 and whole[2] == "*"
            body = whole[3:-2] if doc else whole[2:-2]
            lines = body.split("\n")
            parts = [lines[0].strip()]
            for l in lines[1:]:
                l = l.lstrip()
                parts.append((l[1:] if l.startswith("*") else l).strip())
            out.append(("doc" if doc else "block", " ".join(x for x in parts if x)))
            i = j + 2
        else:
            i += 1
    return out


def with_independent_texts(tl, src):
    """Token list with the comment texts replaced by the independent reading; None if the lexer and the
    independent scanner disagree on the comments themselves or on a text."""
    ind = independent_comments(src)
    k, out, diffs = 0, [], []
    for t in tl:
        if t[0] in COMMENT_KINDS:
            if k >= len(ind) or ind[k][0] != t[0]:
                return None, [("structure", t, ind[k] if k < len(ind) else None)]
            if ind[k][1].split() != t[5].split():
                diffs.append((t[0], t[5], ind[k][1]))
            out.append(t[:5] + (ind[k][1],))
            k += 1
        else:
            out.append(t)
    if k != len(ind):
        return None, [("structure", None, ind[k])]
    return out, diffs


def judge(cases):
    """Formats every case once and twice with the real code; sets case['fail'] (None = property holds)."""
    f1 = run_h([f"fmt {c['width']} {hexs(c['src'])}" for c in cases])
    outs = [uh(a.split(" ")[1]) if a.startswith("ok ") else None for a in f1]
    f2 = run_h([f"fmt {c['width']} {hexs(o)}" if o is not None else "tok -" for c, o in zip(cases, outs)])
    tin = tokens_of([c["src"] for c in cases])
    tout = tokens_of([o or "" for o in outs])
    for c, a1, o, a2, ti, to in zip(cases, f1, outs, f2, tin, tout):
        c["out"] = o
        fail = None
        if o is None:
            if a1.startswith("panic"):
                fail = "in-panic"; c["detail"] = uh(a1[6:])
            else:
                fail = "skip-unparseable"; c["detail"] = a1[:120]
        else:
            # comment texts by the documented rule, independent of the lexer's post-processing
            ti2, d_in = with_independent_texts(ti, c["src"])
            to2, d_out = with_independent_texts(to, o)
            if ti2 is None or to2 is None or d_in or d_out:
                fail = "lexer-text"
                c["detail"] = f"the lexer's comment text differs from the documented rule (one decoration star per continuation line): input {d_in}, output {d_out}"
                c["lexer_diffs"] = [list(map(str, x)) for x in (d_in or []) + (d_out or [])]
            ci, co = expected_words(ti2 or ti), words_of(to2 or to)
            if fail is None and ci != co:
                if len(co) < len(ci):
                    fail = "dropped"
                elif len(co) > len(ci):
                    fail = "duplicated"
                elif sorted(ci) == sorted(co):
                    fail = "reordered"
                    c["close_paren_only"] = only_close_paren_comments_moved(ti, ci, co)
                else:
                    fail = "changed"
                c["detail"] = f"comments expected (source order, import lines moved as wholes): {ci}; comments out: {co}"
            if fail in (None,):
                if a2.startswith("panic"):
                    fail = "reformat-panic"; c["detail"] = uh(a2[6:])
                elif not a2.startswith("ok "):
                    fail = "reformat-error"; c["detail"] = a2[:120]
                elif uh(a2.split(" ")[1]) != o:
                    fail = "nonidempotent"; c["out2"] = uh(a2.split(" ")[1])
        c["fail"] = fail
    return cases


FINDING_OF_KIND = {"dropped": "C09-F2", "nonidempotent": "C09-F3"}   # C09-F4: see classify


def only_empty_line_comments_added(o1, o2):
    """Signature of C09-F4: the second pass differs from the first only by additional lines that are an
    empty line comment `//`."""
    import difflib
    diff = [l for l in difflib.ndiff(o1.splitlines(), o2.splitlines()) if l[:1] in "+-"]
    return bool(diff) and all(l.startswith("+ ") and l[2:].strip() == "//" for l in diff)


def load_contexts():
    if not os.path.exists(CTX_FILE):
        return {"dropped": []}
    return json.load(open(CTX_FILE))


def classify(ctxs, c):
    """known finding id or None (=> violation). Only C09-F4 is still open: `nonidempotent` where the
    second pass only adds empty `//` lines, or at an exact position (module hash:gap:kind:text id) the
    reference enumeration of the unchanged tree recorded (re-wrapped line comment containing a double
    blank). C09-F2 and C09-F5 are fixed: a dropped comment or any other non-idempotence anywhere is a
    VIOLATION."""
    k = c["fail"]
    if k == "reordered" and (c.get("close_paren_only") or c.get("key") in ctxs["reordered_set"]):
        return "C09-F6"
    if k == "nonidempotent" and (only_empty_line_comments_added(c.get("out") or "", c.get("out2") or "")
                                 or c.get("key") in ctxs["nonidem_set"]):
        return "C09-F4"
    return None


def module_phase(ctx):
    rng = ctx.rng.fork()
    ctxs = load_contexts()
    ctxs["dropped_set"] = set(ctxs.get("dropped", []))
    ctxs["nonidem_set"] = set(ctxs.get("nonidempotent", []))
    ctxs["reordered_set"] = set(ctxs.get("reordered", []))
    bases = list(HAND_BASES) + IMPORT_BASES + COVER_BASES
    pieces = repo_pieces(140 if ctx.quick else 400)
    nhand = len(bases)
    bases += pieces
    basetoks = tokens_of(bases)
    select = select_all(bases)
    multi = multi_comment_cases(rng, ctx.scale(40, 400))
    pairs = pair_cases(bases, basetoks, nhand)
    # shared deterministic family of builder-C08 (vlib/listfamily.py): a comment in every gap of 18 kinds of
    # bracketed comma separated lists; optional (another property's file: skipped if it cannot be imported)
    shared = []
    try:
        from . import listfamily
        shared = [{"base": -1, "gap": -1, "kind": "", "text": "listfamily", "width": 100, "key": None,
                   "ctx4": "LISTFAMILY " + "/".join(map(str, k)), "ctx2": "LIST", "src": m} for k, m in listfamily.modules()]
    except Exception as ex:      # pragma: no cover
        shared_note = f"unavailable: {ex!r}"
    texts = text_family()
    cases = judge(make_cases(bases, basetoks, select) + multi + pairs + shared + texts)
    stats = collections.Counter()
    known_hits = collections.Counter()
    reported = 0
    seen_fail = set()
    samples = []
    for c in cases:
        f = c["fail"]
        stats[f or "ok"] += 1
        if f is None or f == "skip-unparseable":
            continue
        fid = classify(ctxs, c)
        finding = next((x for x in ctx.open_findings if x["id"] == fid), None) if fid else None
        if finding:
            known_hits[fid] += 1
            ctx.known(finding)
        elif reported < 3 and (f, c["ctx4"]) not in seen_fail:
            seen_fail.add((f, c["ctx4"]))
            reported += 1
            what = {"dropped": "a comment is lost by parse+print", "duplicated": "a comment is duplicated",
                    "reordered": "comments change their relative order", "changed": "comment text changes",
                    "nonidempotent": "format(format(m)) != format(m)", "reformat-error": "the formatter's output no longer parses",
                    "reformat-panic": "formatting the formatter's output panics", "in-panic": "formatting panics",
                    "lexer-text": "the comment text the lexer hands to the parser differs from the documented rule"}[f]
            ctx.violation(f"formatter breaks C09: {what} (comment between `{c['ctx2']}`, context `{c['ctx4']}`)",
                          {"protocol": "fmt", "width": c["width"], "source": c["src"], "failure": f,
                           "context": c["ctx4"], "formatted": c.get("out"), "reformatted": c.get("out2"),
                           "detail": c.get("detail")})
    for c in cases[:2]:
        samples.append({"source": c["src"], "width": c["width"], "formatted": c.get("out"), "verdict": c["fail"] or "ok"})
    # tie on real documents: the model lays out what source_printer really built
    tie_cases = [c for c in cases if c["fail"] != "skip-unparseable"]
    tie_cases = rng.shuffle(tie_cases)[:ctx.scale(1500, 12000)]
    lines = [f"fmtdoc {c['width']} {hexs(c['src'])}" for c in tie_cases]
    def resolve(ls, impl):
        out = []
        for l, a in zip(ls, impl):
            if a.startswith("ok "):
                parts = a.split(" ", 2)
                out.append(f"layoutdoc {l.split(' ')[1]} {parts[2]}")
            else:
                out.append("echo " + a)
        return out
    impl, model = common.run_pair(PROP, lines, resolve)
    i = common.first_diff(impl, model)
    if i is not None:
        a, b = impl[i], model[i] if i < len(model) else "<missing>"
        ctx.violation("model/implementation disagreement on protocol fmtdoc: the model's layout of the real Document differs from the real output",
                      {"protocol": "fmtdoc", "source": tie_cases[i]["src"], "width": tie_cases[i]["width"],
                       "impl_text": uh(a.split(" ")[1]) if a.startswith("ok ") else a[:200],
                       "model_text": uh(b.split(" ")[1]) if b.startswith("ok ") else b[:200],
                       "broken": "correspondence `fmtdoc`"}, no_input=True)
    n_imports = 0
    if not any(not v[1] for v in ctx.violations):
        n_imports = imports_phase(ctx, [c["src"] for c in multi] + IMPORT_BASES + [c["src"] for c in cases if c["base"] >= 0 and bases[c["base"]] in IMPORT_BASES][::7])
    docs = [a.split(" ", 2)[2] for a in impl if a.startswith("ok ")]
    agree = run_d(["agree " + d for d in docs])
    agree_stats = collections.Counter()
    for c, g in zip([c for c, a in zip(tie_cases, impl) if a.startswith("ok ")], agree):
        agree_stats[g.split(" size=")[0]] += 1
        if "comment=1" not in g:
            ctx.violation("hypothesis of layout_preserves_text fails on a real document: source_printer built a Union whose branches differ in text (Agree commentKey is false)",
                          {"protocol": "fmtdoc/agree", "source": c["src"], "width": c["width"], "model": g,
                           "broken": "hypothesis `Agree commentKey d` on the printer's documents"}, no_input=True)
            break
    return {"module_cases": len(cases), "module_verdicts": dict(stats), "known_finding_hits": dict(known_hits),
            "import_sections_equal_to_model": n_imports, "multi_comment_import_cases": len(multi), "pair_cases": len(pairs), "shared_listfamily_cases": len(shared), "comment_text_family_cases": len(texts),
            "bases_hand": nhand, "bases_repo_pieces": len(pieces), "real_documents_laid_out_by_model": len(docs),
            "agree_on_real_documents": dict(agree_stats)}, cases, samples


def multi_comment_cases(rng, n_random):
    """Modules with 0..4 import lines (also several lines of one module), one distinct comment before
    every import line, before the class and at the end — all at once."""
    specs = [list(sp) for sp in IMPORT_SPECS] + [[]]
    mods = ["m.A", "m.B", "a.C", "std.list"]
    for _ in range(n_random):
        specs.append([(rng.pick(mods), ", ".join(rng.shuffle(["P", "Q", "R"])[:rng.range(1, 3)])) for _ in range(rng.range(0, 4))])
    cases = []
    for si, sp in enumerate(specs):
        for kind in COMMENT_KINDS:
            for semi in (True, False):
                for tail in ("class Main { function main(): unit = {} }\n", ""):
                    parts = []
                    for li, (pth, mem) in enumerate(sp):
                        if rng.chance(5, 6):
                            parts.append(comment_text(kind if rng.chance(3, 4) else rng.pick(COMMENT_KINDS), f"k{li} on {pth.replace('.', ' ')}"))
                        parts.append(f"import {{ {mem} }} from {pth}{';' if semi else ''}\n")
                    parts.append(comment_text(kind, "before class") + "\n" if tail else "")
                    parts.append(tail)
                    parts.append(comment_text(kind, "at end"))
                    cases.append({"base": -1, "gap": -1, "kind": kind, "text": "multi", "width": 100, "key": None,
                                  "ctx4": "MULTI (one comment per import line)", "ctx2": "MULTI", "src": "".join(parts)})
    return cases


def imports_phase(ctx, srcs):
    """Tie of Model/Imports.lean: the model's document of the import section vs the real Document."""
    impl = run_h(["imports " + hexs(s) for s in srcs])
    mlines = []
    for a in impl:
        if a.startswith("ok "):
            _, shape, dump, _ = a.split(" ", 3)
            mlines.append(f"importsdoc {shape} {dump}")
        else:
            mlines.append("echo " + a)
    model = run_d(mlines)
    ok = 0
    for s, a, b in zip(srcs, impl, model):
        if not a.startswith("ok "):
            continue
        shape = a.split(" ")[1]
        da, db = a.split(" | ", 1)[1], (b.split(" | ", 1) + [""])[1]
        good = (da == db) if shape == "only" else (db == "" or da == db or da.startswith(db + " "))
        if a.split(" | ")[0] != b.split(" | ")[0] or not good:
            ctx.violation("model/implementation disagreement on protocol imports (Model/Imports.lean vs source_module_to_document/import_to_document): the import section of the real Document is not what the model builds",
                          {"protocol": "imports", "source": s, "impl_doc": da[:3000], "model_doc": db[:3000],
                           "broken": "correspondence `imports`; imports_conserve_comments speaks about the model only"}, no_input=True)
            break
        ok += 1
    return ok


def pair_cases(bases, basetoks, nbases):
    """Two distinct comments in neighbouring token gaps (g, g+1) and (g, g+2) of the hand-written and
    import modules: interactions between adjacent attachment points (order, merging)."""
    cases = []
    for bi in range(nbases):
        src, tl = bases[bi], basetoks[bi]
        b = src.encode(); offs = line_offsets(src)
        pos = [offs[t[1]] + t[2] for t in tl] + [len(b)]
        for g in range(len(pos)):
            for d in (1, 2):
                if g + d >= len(pos):
                    continue
                p1, p2 = pos[g], pos[g + d]
                m = (b[:p1] + b" /* pa one */ " + b[p1:p2] + b" /* pb two */ " + b[p2:]).decode()
                cases.append({"base": bi, "gap": g, "kind": "block", "text": "pair", "width": 100,
                              "key": f"{hashlib.sha1(b).hexdigest()[:10]}:pair:{g}:{d}",
                              "ctx4": f"PAIR gaps {g},{g + d}", "ctx2": "PAIR", "src": m})
    return cases


# ------------------------------------------------------------------------------------------------
# 4. expression fragment: attachment skeletons and the document of an expression
# ------------------------------------------------------------------------------------------------
def gen_expr_text(rng, depth, comments=True):
    def cm():
        if not comments or not rng.chance(1, 4):
            return ""
        k = rng.below(4)
        w = rng.pick(["c1", "c2", "note", "x"])
        return [f"/* {w} */ ", f"/** {w} */ ", f"// {w}\n", f"/* {w} */ /* k */ "][k]
    if depth <= 0 or rng.chance(1, 3):
        return cm() + rng.pick(["a", "b", "x1", "42", "7", "foo"])
    k = rng.below(10)
    if k < 6:
        op = rng.pick(["+", "-", "*", "/", "%", "<", "<=", "==", "!=", "&&", "||", "::", ">", ">="])
        l, r = gen_expr_text(rng, depth - 1, comments), gen_expr_text(rng, depth - 1, comments)
        if rng.chance(1, 3):
            r = "(" + cm() + r + (" /* z */" if comments and rng.chance(1, 5) and "//" not in r[-12:] else "") + ")"
        if rng.chance(1, 4):
            l = "(" + l + ")"
        return f"{l} {cm()}{op} {r}"
    if k < 7:
        return cm() + rng.pick(["!", "-"]) + "(" + gen_expr_text(rng, depth - 1, comments) + ")"
    if k < 9:
        # member access / call chains (round 6): base, then .name and (args) with comments everywhere
        base = gen_expr_text(rng, depth - 1, comments)
        if rng.chance(1, 2) or not base.replace("_", "a").isalnum():
            base = "(" + base + ")"
        for _ in range(rng.range(1, 4)):
            if rng.chance(1, 2):
                base += (" " + cm() if rng.chance(1, 3) else "") + "." + rng.pick(["f", "gg", "someLongerMemberName"])
            else:
                n = rng.range(0, 3)
                args = [gen_expr_text(rng, max(0, depth - 2), comments) for _ in range(n)]
                inner = ", ".join(args)
                tail = " /* t */" if comments and rng.chance(1, 5) and "//" not in inner[-14:] else ""
                base += "(" + cm() + inner + tail + ")"
        return base
    return "(" + cm() + gen_expr_text(rng, depth - 1, comments) + ")"


def gen_chain_text(rng, depth):
    """expressions with field/method access and calls, for the attachment skeletons"""
    base = gen_expr_text(rng, depth, comments=rng.chance(1, 2))
    if rng.chance(1, 2):
        base = "(" + base + ")"
    for _ in range(rng.range(0, 3)):
        base += rng.pick([".f", ".g(1)", "(2)", ".h<int>(3)"])
    if rng.chance(1, 2):
        base = base + " " + rng.pick(["+", "*", "&&"]) + " " + gen_expr_text(rng, 1, comments=True)
    return base


def inner_chain_comments(toks):
    """True if some F/K node that is the object / callee of another F/K node carries comments."""
    pos = 0
    bad = False
    def node(inner):
        nonlocal pos, bad
        k = toks[pos]; pos += 1
        cs = toks[pos]; pos += 1
        if k == "A":
            pos += 1
        elif k == "U":
            pos += 1; node(False)
        elif k == "B":
            pos += 2; node(False); node(False)
        elif k == "F":
            if inner and cs != "-":
                bad = True
            node(True); pos += 2
        elif k == "K":
            if inner and cs != "-":
                bad = True
            node(True); pos += 1
            n = int(toks[pos]); pos += 1
            for _ in range(n):
                node(False)
            pos += 1
    try:
        node(False)
    except (IndexError, ValueError):
        return False
    return bad


def fragment_phase(ctx, n):
    rng = ctx.rng.fork()
    # (a) attachment / parenthesis skeletons: real parser vs Model/Attach.lean
    lines, mk = [], []
    for _ in range(n):
        t = gen_chain_text(rng, rng.range(0, 3))
        extra = ",".join(rng.pick(["e1", "e2", "e3"]) for _ in range(rng.range(0, 2))) or "-"
        stop = ",".join(rng.pick(["s1", "s2"]) for _ in range(rng.range(0, 2))) or "-"
        if rng.chance(1, 2):
            lines.append(f"attach {hexs(t)} {extra}"); mk.append(("attachm", extra, None))
        else:
            lines.append(f"paren {hexs(t)} {extra} {stop}"); mk.append(("parenm", extra, stop))
    impl = run_h(lines)
    mlines = []
    for a, (op, x, y) in zip(impl, mk):
        if " | " in a and not a.startswith("panic"):
            s0 = a.split(" | ")[0]
            mlines.append(f"{op} {x} {s0}" if y is None else f"{op} {x} {y} {s0}")
        else:
            mlines.append("echo " + a)
    model = run_d(mlines)
    i = common.first_diff(impl, model)
    nskel = sum(1 for a in impl if " | " in a)
    if i is not None:
        ctx.violation("model/implementation disagreement on protocol attach/paren (Model/Attach.lean vs parse_expression_with_additional_preceding_comments / keep_parenthesis_comments)",
                      {"protocol": "attach", "line": lines[i], "text": uh(lines[i].split(" ")[1]), "impl": impl[i], "model": model[i] if i < len(model) else None,
                       "broken": "correspondence `attach`/`paren`; attachLeft_stable / printCE_wrapLeft speak about the model only"}, no_input=True)
    # (a2) comma separated list production on the queue (trailing comma, comments everywhere)
    ltexts, lends, lwant = [], [], []
    for _ in range(n // 2):
        k = rng.range(1, 4)
        parts, want = [], []
        def cmt(name, num, den):
            if rng.chance(num, den):
                want.append(name)
                return f"/* {name} */ "
            return ""
        for i in range(k):
            parts.append(cmt("e%d" % i, 1, 3) + "ABCD"[i])
            if i < k - 1 or rng.chance(1, 2):
                parts.append(cmt("k%d" % i, 1, 2) + ",")
        endp = rng.chance(1, 2)
        parts.append(cmt("z", 1, 2) + (")" if endp else ">") + (" /* after */ x" if rng.chance(1, 3) else ""))
        ltexts.append(" ".join(parts)); lends.append("p" if endp else "g"); lwant.append(want)
    llines = []
    for t, e in zip(ltexts, lends):
        llines += ["tok " + hexs(t), f"list {hexs(t)} {e}"]
    limpl = run_h(llines)
    lm = []
    for i, l in enumerate(llines):
        if l.startswith("tok "):
            lm.append("echo " + limpl[i])
        else:
            tl = parse_tok_answer(limpl[i - 1])
            lm.append("listm " + hexs(")" if l.endswith(" p") else ">") + " " + stream_of(tl))
    lmodel = run_d(lm)
    i = common.first_diff(limpl, lmodel)
    nlists = len(ltexts)
    if i is not None:
        ctx.violation("model/implementation disagreement on protocol list (Model/CommentQueue.lean parseList vs parse_comma_separated_list_with_end_token)",
                      {"protocol": "list", "text": uh(llines[i].split(" ")[1]), "impl": limpl[i], "model": lmodel[i] if i < len(lmodel) else None,
                       "broken": "correspondence `list`; list_production_conserves speaks about the model only"}, no_input=True)
    for t, want, a in zip(ltexts, lwant, limpl[1::2]):
        # independent oracle: every comment written before the closing token is handed to an element
        # or to the closing token, exactly once, in order
        handed = "|".join(a.split("|")[:2])
        got = [x for part in handed.replace("|", ";").split(";") for x in (part.split("=")[-1]).split(",") if x not in ("-", "")]
        if not a.startswith("panic") and got != want:
            ctx.violation(f"comma separated list loses or reorders comments: handed out {got}, text has {want}",
                          {"protocol": "list", "text": t, "impl": a})
            break
    # (a3) comment text normalisation: real lexer vs Model/CommentText.lean postProcess
    pieces = ["alpha", "*kwargs", "**u**", "*", "/x", "a/b", "x*", "* /", "", " ", "\t", "é", "w" * 30]
    bodies = []
    for _ in range(n // 2):
        lines = []
        for li in range(rng.range(1, 5)):
            deco = rng.pick([" * ", " *", "*", "", "   ", "\t* ", " ** ", " * * "]) if li > 0 or rng.chance(1, 4) else " "
            lines.append(deco + " ".join(rng.pick(pieces) for _ in range(rng.range(0, 4))) + rng.pick(["", " ", "  "]))
        b = "\n".join(lines)
        if b.startswith("*") or "*/" in b:
            b = " " + b.replace("*/", "* /")
        bodies.append(b)
    timpl = run_h(["tok " + hexs("/*" + b + "*/") for b in bodies])
    tmodel = run_d(["ctext " + hexs(b) for b in bodies])
    nct = 0
    for b, a, m in zip(bodies, timpl, tmodel):
        tl = parse_tok_answer(a)
        if len(tl) != 1 or tl[0][0] not in ("block", "doc"):
            continue
        nct += 1
        if "t:" + hexs(tl[0][5]) != m:
            ctx.violation("model/implementation disagreement on protocol ctext (Model/CommentText.lean postProcess vs lexer.rs post_process_block_comment)",
                          {"protocol": "ctext", "body": b, "impl_text": tl[0][5], "model": uh(m[2:]) if m.startswith("t:") else m,
                           "broken": "correspondence `ctext`; stripLine_reflowLine speaks about the model only"}, no_input=True)
            break
    # (b) document of an expression: real create_doc vs Model/ExprDoc.lean, and its layout
    texts = [gen_expr_text(rng, rng.range(0, 4)) for _ in range(n)]
    widths = [rng.weighted([(100, 3), (rng.range(1, 30), 3), (rng.range(31, 80), 2)]) for _ in texts]
    lines = [f"exprdoc {w} {hexs(t)}" for w, t in zip(widths, texts)]
    impl = run_h(lines)
    mlines = []
    for a, w in zip(impl, widths):
        if a.startswith("ok "):
            tree = a.split(" | ")[0].split(" ", 2)[2]
            mlines.append(f"exprdocm {w} {tree}")
        else:
            mlines.append("echo " + a)
    model = run_d(mlines)
    ndocs = sum(1 for a in impl if a.startswith("ok "))
    nchains = 0
    for t, a in zip(texts, impl):
        if a.startswith("ok "):
            toks = a.split(" | ")[0].split(" ")[2:]
            bad_inner = inner_chain_comments(toks)
            nchains += int("F" in toks or "K" in toks)
            if bad_inner:
                ctx.violation("the parser attached a comment to an inner node of a dotted chain; create_chainable_ir_docs never prints it (theorem inner_chain_comment_not_printed)",
                              {"protocol": "exprdoc", "text": t, "tree": " ".join(toks)})
                break
    for t, w, a in zip(texts, widths, impl):
        if a.startswith("panic"):
            ctx.violation("formatting an expression panics: " + uh(a[6:])[:100], {"protocol": "exprdoc", "text": t, "width": w, "impl": a})
            break
    i = common.first_diff(impl, model)
    if i is not None and not ctx.violations:
        a, b = impl[i], model[i] if i < len(model) else "<missing>"
        ctx.violation("model/implementation disagreement on protocol exprdoc (Model/ExprDoc.lean vs create_doc): the document or its layout differs",
                      {"protocol": "exprdoc", "text": texts[i], "width": widths[i], "impl": a[:2500], "model": b[:2500],
                       "impl_text": uh(a.split(" ")[1]) if a.startswith("ok ") else None,
                       "model_text": uh(b.split(" ")[1]) if b.startswith("ok ") else None,
                       "broken": "correspondence `exprdoc`; docOf_ok / expression_layout_text speak about the model only"}, no_input=True)
    return {"attachment_skeletons_compared": nskel, "list_productions_compared": nlists, "comment_text_normalisations_compared": nct,
            "expression_documents_equal_to_model": ndocs, "of_which_with_member_access_or_call": nchains}, 2 * n + nlists


def text_family():
    """Round g: the comment-TEXT dimension. Texts that interact with the comment decoration and the re-flow
    (words starting / ending with `*`, `/`, `* /`, a lone `*`, tabs, leading blanks, a word longer than the
    line) x line / block / doc x member / statement position x (a) one-line comments whose length sweeps the
    wrap boundary so that the wrap lands before every word, (b) hand-written multi-line comments with
    ` * ` decoration, bare `*` lines, no decoration, tab indentation, trailing stars."""
    cases = []
    def add(label, member_c, stmt_c):
        src = "class T {\n" + (f"  {member_c}\n" if member_c else "") + "  function f(): unit = {\n" + \
              (f"    {stmt_c}\n" if stmt_c else "") + "    let x = 1;\n  }\n}\n"
        cases.append({"base": -1, "gap": -1, "kind": "", "text": "textfamily", "width": 100, "key": None,
                      "ctx4": "TEXT " + label, "ctx2": "TEXT", "src": src})
    body = "alpha beta *kwargs gamma **union** delta * item epsilon /x zeta a/b eta * / theta star* iota"
    long_word = "w" * 118
    for k in range(0, 28):
        pad = ("p" * k + " ") if k else ""
        text = pad + body + " " + body
        for kind in COMMENT_KINDS:
            if kind == "line":
                c = "// " + text + " ends */ here"
            else:
                c = ("/* " if kind == "block" else "/** ") + text + " */"
            add(f"sweep {kind} member k={k}", c, None)
            add(f"sweep {kind} stmt k={k}", None, c)
    singles = ["*kwargs first", "**bold** text", "* bullet", "*", "x *", "ends with star*", "/slash first", "a * / b",
               "\ttab\tinside", "   three leading blanks", long_word, "pre " + long_word + " post", "é 日本 *ü"]
    for i, t in enumerate(singles):
        for kind in COMMENT_KINDS:
            c = ("// " + t) if kind == "line" else (("/* " if kind == "block" else "/** ") + t + " */")
            add(f"single {kind} #{i}", c, c if i % 2 == 0 else None)
    multis = [
        "/*\n * *args are passed on,\n * **kwargs** too.\n * * binds tighter than +\n */",
        "/**\n * *args are passed on,\n * **kwargs** too.\n */",
        "/*\n *\n * text after an empty line\n *\n * more\n *\n */",
        "/**\n * doc\n *\n * * bullet one\n * * bullet two\n */",
        "/*\n  no decoration here\n  second plain line\n*/",
        "/*\n\t* tab indented\n\t* *star word\n\t*/",
        "/* first line text\n * second */",
        "/* text **/",
        "/** doc **/",
        "/*\n * a/b and * / and x*\n */",
        "/*   \n *    spaced    words   \n */",
        "/*\n * " + long_word + "\n * *tail\n */",
    ]
    for i, c in enumerate(multis):
        add(f"multi #{i} member", c, None)
        add(f"multi #{i} stmt", None, c)
        add(f"multi #{i} both", c, c)
    return cases


def regen_contexts():
    """Maintenance (run on the unchanged tree only): enumerate every gap of every base and record the
    token contexts in which the unchanged code fails / passes.  `python3 -m vlib.c09 regen`"""
    common.build_harness(PROP)
    bases = list(HAND_BASES) + IMPORT_BASES + COVER_BASES + repo_pieces(400)
    basetoks = tokens_of(bases)
    select = select_all(bases)
    cases = judge(make_cases(bases, basetoks, select) + pair_cases(bases, basetoks, len(HAND_BASES) + len(IMPORT_BASES) + len(COVER_BASES)))
    reordered = sorted({c["key"] for c in cases if c["fail"] == "reordered"})
    dropped = sorted({c["key"] for c in cases if c["fail"] == "dropped"})
    nonidem = sorted({c["key"] for c in cases if c["fail"] == "nonidempotent"
                      and not only_empty_line_comments_added(c.get("out") or "", c.get("out2") or "")})
    other = collections.Counter(c["fail"] for c in cases if c["fail"] not in (None, "dropped", "nonidempotent", "reordered", "skip-unparseable"))
    ctx4 = sorted({c["ctx4"] for c in cases if c["fail"] == "dropped"})
    json.dump({"_comment": "generated by `python3 -m vlib.c09 regen` on the unchanged tree: exact positions (sha1(module text)[:10]:gap index:comment kind) at which parse+print drops an inserted comment (finding C09-F2); dropped_contexts is informational only (prev2 prev | next next2 token classes)",
               "cases": len(cases), "dropped": dropped, "nonidempotent": nonidem, "reordered": reordered, "dropped_contexts": ctx4}, open(CTX_FILE, "w"), indent=0)
    print("nonidempotent positions:", len(nonidem), "reordered pair positions:", len(reordered))
    print("dropped positions:", len(dropped), "contexts:", len(ctx4), "cases:", len(cases), "other failures:", dict(other))
    for c in cases:
        if c["fail"] not in (None, "dropped", "nonidempotent", "reordered", "skip-unparseable"):
            print(c["fail"], c["ctx4"], repr(c["src"][:300])); break


# ------------------------------------------------------------------------------------------------
def run(ctx):
    def search():
        return False
    res = common.proof_gate(ctx, search)
    # part b builds on builder-C08's model: audited separately; if Props/C08 itself does not build,
    # that is C08's failure (reported by ./check C08) and part b is listed as not checked in this run
    partb = "checked"
    ok08, _ = common.build_lean(["SamVerif.Props.C08"])
    if ok08:
        rb = common.audit("C09b")
        res["obligations"] += rb["obligations"]; res["discharged"] += rb["discharged"]
        if rb["failed"]:
            ctx.violation("proof obligations of Props/C09b.lean no longer check: " + "; ".join(f"{n} ({w})" for n, w in rb["failed"][:4]),
                          {"broken_theorems": rb["failed"], "log": rb["log"][-3000:]}, no_input=True)
    else:
        partb = "not checked in this run: SamVerif.Props.C08 (another property's module) does not build"
    if not os.path.exists(common.harness_bin(PROP)) or not os.path.exists(common.driver_bin(PROP)):
        return ctx.finish(res, trusted=common.TRUSTED_COMMON)
    extra = {}
    # corpus first
    cdir = os.path.join(common.VERIF, "corpus", PROP)
    ncorpus = 0
    for f in sorted(os.listdir(cdir)) if os.path.isdir(cdir) else []:
        if f.endswith(".json"):
            replay_payload(ctx, json.load(open(os.path.join(cdir, f))), quiet=True); ncorpus += 1
    e1, n1 = layout_phase(ctx, ctx.scale(15000, 150000))
    e2, n2 = queue_phase(ctx, ctx.scale(3000, 30000))
    n3 = prepend_phase(ctx, ctx.scale(1000, 10000))
    e5, n5 = fragment_phase(ctx, ctx.scale(1500, 15000))
    e4, cases, samples = module_phase(ctx)
    extra.update(e1); extra.update(e2); extra.update(e4); extra.update(e5)
    if any(not v[1] for v in ctx.violations):
        # a concrete failing input was found: the broken-tie reports add nothing
        ctx.violations = [v for v in ctx.violations if not v[1]]
    distinct = len({(c["ctx4"], c["kind"]) for c in cases})
    ctx.cov.update({
        "evaluations": n1 + n2 + n3 + n5 + len(cases) + ncorpus,
        "distinct_nontrivial": distinct,
        "rule": "distinct (4-token context of the comment gap, comment kind) pairs among the module cases; each case = one comment inserted into one token gap of a valid module, formatted twice by the real parser+printer",
        "samples": samples,
        "traces_validated_against_impl": n1 + n2 + n3 + n5 + extra.get("real_documents_laid_out_by_model", 0),
        "part_b_fragment_corollaries": partb,
        "pending": ["layout-level idempotence as one theorem: needs (a) a proof that lexing the laid-out text returns the item sequence (builder-C05's Model/Lexer.lean is a byte-level longest-match lexer with a keyword table: a round trip over arbitrary identifier/operator adjacency was not attempted) and (b) a parser model for the comment-carrying fragment; today: `expression_layout_text` (layout = comment/token sequence at every width, now incl. member access, calls, dotted chains, argument lists) + token-level round trip with comments on the C08 fragment; document construction of if-else, match, lambdas, tuples, blocks/statements, declarations, type arguments on members; comments on operator tokens in the C08 round trip; whole-comment `post (reflow (post t)) = post t` (today per line); C09-F4 (pinned test), rest of C09-F6 (needs a trailing-comment slot)"],
        "partial_theorems": {"format_idempotent_fragment_partial / roundtrip_with_comments_partial / format_idempotent_with_comments_partial": "C08's decidable side condition RT e; token level; comments on atoms (normal form the parser produces since fix a0babc7); atom table without duplicates",
                             "lineComment/multilineComment_content_equal": "content read modulo the repeated leaders `// ` and ` * ` (commentKey)"},
    })
    ctx.cov.update(extra)
    ctx.assumptions += ["usize arithmetic of the layout engine does not overflow (indentation, consumed < 2^64)",
                        "char::is_whitespace = Unicode White_Space as listed in Model/Doc.lean isWs",
                        "the lexer's comment tokens are taken as the definition of `the comments of a text` (oracle uses the real token producer on input and output)"]
    return ctx.finish(res, trusted=common.TRUSTED_COMMON + [
        "hand-written models Model/Doc.lean (all of prettier.rs), Model/CommentQueue.lean (peek/consume, create_comment_reference, comment prepending), Model/Imports.lean (import grouping/merging/sorting and import_to_document); Model/CommentText.lean (post_process_block_comment + the printer's continuation line), Model/Attach.lean (outer vs leftmost attachment of preceding comments, keep_parenthesis_comments on the skeleton, normal form), Model/ExprDoc.lean (create_doc for identifiers/int literals/unary/binary/member access/calls/dotted chains/argument lists with comments); builder-C08's Model/Fmt.lean for the fragment corollaries",
        "hooks samlang_printer::verif_hooks (layout/expand/flatten/module_doc) and samlang_parser::verif_hooks_queue",
        "not modelled (oracle only): the per-production comment attachment of source_parser.rs and the per-construct document construction of source_printer.rs; for the latter the hypothesis Agree(commentKey) of layout_preserves_text is evaluated on the real documents at run time",
        "vlib/c09_contexts.json: token contexts of the open findings C09-F2/C09-F3 (reference enumeration on the unchanged tree)"])


def replay_payload(ctx, data, quiet=False):
    """quiet=True: corpus mode ({"protocol","source","width","expect": "ok"|<failure kind>,"finding": id}):
    a failure other than the expected one of an open finding is a violation. Returns 1 if it fails."""
    p = data.get("replay", data)
    proto = p.get("protocol")
    bad = 0
    if proto == "fmt":
        c = {"src": p["source"], "width": p.get("width", 100), "ctx4": p.get("context", "? ? ? ?"), "ctx2": "", "kind": "", "text": ""}
        judge([c])
        fail = c["fail"] if c["fail"] != "skip-unparseable" else None
        if not quiet:
            print("--- source\n" + c["src"] + "--- format(source)\n" + str(c.get("out")) + "--- format(format(source))\n" + str(c.get("out2", "(same)")))
            print("verdict:", c["fail"] or "ok", c.get("detail", ""))
        bad = int(fail is not None)
        if quiet and fail:
            finding = next((x for x in ctx.open_findings if x["id"] == p.get("finding")), None)
            if finding and p.get("expect") == fail:
                ctx.known(finding)
            else:
                ctx.violation(f"corpus case: formatter breaks C09 ({fail})", {"protocol": "fmt", "source": c["src"], "width": c["width"],
                              "failure": fail, "formatted": c.get("out"), "reformatted": c.get("out2"), "detail": c.get("detail")})
    elif proto in ("layout", "expand", "flatten") and (p.get("doc") or p.get("line")):
        line = p.get("line") or f"layout {p['width']} {p['doc']}"
        a, b = common.run_pair(PROP, [line])
        if not quiet:
            print(line); print("impl :", a[0], "\n" + (uh(a[0][2:]) if a[0].startswith("s:") else ""))
            print("model:", b[0], "\n" + (uh(b[0][2:]) if b[0].startswith("s:") else ""))
        bad = int(a != b)
        if quiet and bad:
            ctx.violation("corpus layout case: model and implementation differ", {"protocol": proto, "line": line, "impl": a, "model": b}, no_input=True)
    elif not quiet:
        print(json.dumps(data, indent=1))
        bad = 1
    return bad


def replay(ctx, path):
    common.build_harness(PROP); common.build_lean(["drv-c09"])
    return replay_payload(ctx, json.load(open(path)))


if __name__ == "__main__":
    import sys
    if len(sys.argv) > 1 and sys.argv[1] == "regen":
        regen_contexts()
