"""C03 - programs accepted by the checker never go wrong (compile time or run time).

Proof: lean/SamVerif/Props/C03.lean (compile gate; totality of the optimizer's compile-time
arithmetic; string constants as template literals; accepted `match` never reaches the fallback panic
= C07 composed with the model of `lower_matching_pattern`/`lower_match`, Model/MatchLower.lean).
Tie (every run): line protocols `gate`, `fold|merge|trip`, `str`, `match` - the real compiler (and
Node for the emitted code) against the Lean model, harness/src/bin/c03.rs vs lean/Driver/C03.lean.
Oracle (independent of the model): accepted mutants of tests/*.sam and std/*.sam, generated
well-typed programs (C06's generator) and generated multi-module programs with same-named classes
and cross-module swaps are compiled in-process by the real `compile_sources`, the emitted module is
validated by wasmparser (GC on) and instantiated + run under Node >= 22 together with the emitted
TypeScript; the way each run ends is classified against the endings the property allows."""
import json, os, re, glob
from . import common
from .common import hexs

PROP = "C03"

# ------------------------------------------------------------------ running the implementation

def run_impl(lines, timeout=3000):
    rc, out, err = common.run_exec(common.harness_bin(PROP), [], lines, timeout)
    if len(out) < len(lines):
        out = out + [f"<harness died rc={rc}: {err.strip()[-200:]}>"] * (len(lines) - len(out))
    return out


def run_model(lines, timeout=3000):
    rc, out, err = common.run_exec(common.driver_bin(PROP), [], lines, timeout)
    if len(out) < len(lines):
        out = out + [f"<driver died rc={rc}: {err.strip()[-200:]}>"] * (len(lines) - len(out))
    return out


def eval_programs(progs):
    out = run_impl(["prog " + json.dumps(p) for p in progs])
    res = []
    for o in out:
        try:
            res.append(json.loads(o))
        except Exception:
            res.append({"check": "harness-failure", "nerr": -1, "compile": "?", "msg": o})
    return res


# ------------------------------------------------------------------ the property, on one executed program

# `array.new` with a length the engine refuses (Vec.withCapacity / growth with a huge size): resource
# exhaustion, classed with call-stack exhaustion
RESOURCE_TRAPS = ("trap:requested new array is too large",)
ARITH_TRAPS = ("trap:divide by zero", "trap:remainder by zero", "trap:divide result unrepresentable",
               "trap:integer overflow", "trap:integer divide by zero")
VEC_PANICS = ("panic:Vec index out of bounds", "panic:pop from empty Vec")


def classify_end(end, backend):
    """None if the ending is one the property allows, else what went wrong."""
    if end in ("ok", "stack-overflow", "timeout", "skipped", "no-node") or end.startswith("no-node"):
        return None
    if end in VEC_PANICS or end in ARITH_TRAPS or end in RESOURCE_TRAPS:
        return None
    if end == "trap:unreachable" and backend == "wasm":
        return None      # the `unreachable` of a failing Vec.pop/get/set (libsam.wat) before fix 361669d
    if end.startswith("panic:"):
        if end[6:].strip() == "":
            return "pattern match that no arm handles (fallback Process.panic with the empty message)"
        return None      # a panic the program asked for (message is the program's / the std library's)
    if end.startswith("trap:"):
        return "engine-level fault: " + end[5:]
    if end.startswith("load-error:"):
        what = "module does not validate / instantiate" if backend == "wasm" else "emitted TypeScript is invalid or hit a type fault"
        return what + ": " + end[11:][:160]
    return "unexpected ending: " + end[:160]


def judge(ans):
    """The property on one program. Returns list of (kind, detail); [] = holds (or not accepted)."""
    bad = []
    if ans.get("check") == "panic":
        return []       # checker crash on some input: C05's property, not an *accepted* program
    if ans.get("check") != "done":
        return [("harness", str(ans.get("msg", ""))[:200])]
    nerr = ans.get("nerr", -1)
    comp = ans.get("compile")
    if nerr > 0:
        if comp == "ok":
            bad.append(("gate", "errors were reported but compile_sources still emitted code"))
        return bad
    # accepted
    if comp == "panic":
        return [("compile-panic", ans.get("msg", "")[:700])]
    if comp == "err":
        return [("gate", "no error reported by parser+checker, yet compile_sources returned Err: " + ans.get("msg", "")[:120])]
    v = ans.get("validate", "valid")
    if v != "valid":
        bad.append(("invalid-wasm", v[:200]))
    for backend in ("wasm", "ts"):
        r = ans.get(backend)
        if not r:
            continue
        why = classify_end(r.get("end", ""), backend)
        if why:
            bad.append((backend + "-run", why))
    return bad


# ------------------------------------------------------------------ known findings (own and other properties')

def all_open_findings():
    path = os.path.join(common.VERIF, "known_findings.json")
    try:
        return {f["id"]: f for f in json.load(open(path)).get("findings", []) if f.get("status") == "open"}
    except Exception:
        return {}


JS_RESERVED = ("default|new|delete|var|void|typeof|switch|case|with|yield|enum|export|in|do|for|while|try|catch|throw|"
               "instanceof|null|super|const|continue|break|finally|debugger")
RESERVED_BINDER = re.compile(r"(?:[(,]\s*(?:%s)\s*:)|(?:\blet\s+(?:%s)\b)" % (JS_RESERVED, JS_RESERVED))
_std_text = []


def std_text():
    if not _std_text:
        _std_text.append("\n".join(open(f, encoding="utf-8").read() for f in sorted(glob.glob(os.path.join(common.REPO, "std", "*.sam")))))
    return _std_text[0]


OCTAL = re.compile(r'\\0[0-9]')
STRLIT = re.compile(r'"(?:[^"\\\n]|\\.)*"')


def has_dup_object_field(text):
    for m in re.finditer(r"\{([^{}]*)\}", text):
        names = re.findall(r"(?:^|,)\s*([a-z][A-Za-z0-9]*)\s*(?:as\b|,|$)", m.group(1))
        if len(names) != len(set(names)) and " as " in m.group(1):
            return True
    return False


def overflow_finding(open_f):
    """the open finding (owned by C02/C05) that covers aborts of the optimizer's constant arithmetic"""
    for fid in ("C02-F3", "C02-F1", "C05-F2"):
        if fid in open_f:
            return fid
    return None


EMPTY_PANIC = re.compile(r'panic\s*(?:<[^>()]*>)?\s*\(\s*""\s*\)')


def match_known(open_f, sources, kind, detail):
    """Signature predicates over a failing accepted program. Returns a finding id or None
    ("ASKED" = not a failure: the program itself calls Process.panic with the empty message)."""
    text = "\n".join(sources.values())
    if kind in ("wasm-run", "ts-run") and "no arm handles" in detail and EMPTY_PANIC.search(mask_noncode_keep_strings(text)):
        return "ASKED"
    lits = STRLIT.findall(text)
    if kind == "compile-panic":
        if "any(placeholder=true)" in detail and "C03-F10" in open_f and re.search(r":\s*\([^)]*\)\s*->", text):
            return "C03-F10"
        if "overflow" in detail and overflow_finding(open_f):
            return overflow_finding(open_f)
    if kind == "ts-run":
        if any(("`" in l or "${" in l) for l in lits) and "C04-F3" in open_f:
            return "C04-F3"
    return None


_reported = set()


def known_once(ctx, finding, detail):
    if finding["id"] not in _reported:
        _reported.add(finding["id"])
        ctx.known(finding, detail)


def report(ctx, open_f, descr, prog, ans, stats, shrink=None):
    """Match failures of one accepted program against the known signatures, else VIOLATION."""
    fails = judge(ans)
    if not fails:
        return False
    unknown = []
    for kind, detail in fails:
        fid = match_known(open_f, prog["sources"], kind, detail)
        if fid == "ASKED":
            stats["asked_empty_panic"] = stats.get("asked_empty_panic", 0) + 1
            continue
        if fid:
            stats["known_hits"][fid] = stats["known_hits"].get(fid, 0) + 1
            known_once(ctx, open_f[fid], f"{descr}: {kind}: {detail}"[:240])
        else:
            unknown.append((kind, detail))
    if not unknown:
        return False
    stats["violations"] += 1
    if stats["violations"] > 4:
        return True
    small = shrink(prog) if shrink else prog
    a2 = eval_programs([small])[0] if small is not prog else ans
    ctx.violation(f"accepted program goes wrong ({descr}): " + "; ".join(f"{k}: {d}" for k, d in unknown)[:300],
                  {"protocol": "prog", "what": descr, "program": small, "answer": a2,
                   "failures": [list(x) for x in unknown]})
    return True


# ------------------------------------------------------------------ tie 1: compile-time arithmetic kernels

EXTREME = [0, 1, -1, 2, -2, 31, 32, 33, 40, 65536, 2147483647, -2147483648, 2147483646, -2147483647, 1073741824]
OPS = ["mul", "div", "mod", "add", "sub", "and", "or", "shl", "shr", "xor", "lt", "le", "gt", "ge", "eq", "ne"]
CMP = ["lt", "le", "gt", "ge", "eq", "ne"]


def gen_int(rng):
    k = rng.below(10)
    if k < 4:
        return rng.pick(EXTREME)
    if k < 7:
        return rng.range(-50, 50)
    return rng.range(-2147483648, 2147483647)


def gen_kernel_lines(rng, n):
    lines = []
    for _ in range(n):
        k = rng.below(10)
        if k < 5:
            lines.append(f"fold {rng.pick(OPS)} {gen_int(rng)} {gen_int(rng)}")
        elif k < 8:
            outer = rng.pick(["add", "mul"] + CMP + ["sub"])
            inner = rng.pick(["add", "add", "mul", "sub"])
            lines.append(f"merge {outer} {inner} {gen_int(rng)} {gen_int(rng)}")
        else:
            lines.append(f"trip {rng.pick(['lt', 'le', 'gt', 'ge'])} {gen_int(rng)} {gen_int(rng)} {gen_int(rng)}")
    return lines


def merge_panic_is_known(line):
    t = line.split()
    return t[0] == "merge" and t[1] in CMP and t[2] == "add"


def check_kernels(ctx, rng, n, stats, open_f):
    lines = gen_kernel_lines(rng, n)
    # steer the bulk away from the open finding (comparison merge with overflowing c2 - c1)
    steer = overflow_finding(open_f) is not None
    if steer:
        def overflow(l):
            t = l.split()
            return merge_panic_is_known(l) and not (-2147483648 <= int(t[4]) - int(t[3]) <= 2147483647)
        lines = [l for l in lines if not overflow(l)]
    lines.append("merge lt add 1 -2147483648")      # dedicated probe
    impl, model = run_impl(lines), run_model(lines)
    stats["kernel_lines"] = len(lines)
    for l, a, m in zip(lines, impl, model):
        op = l.split()[0]
        stats["hist"][op] = stats["hist"].get(op, 0) + 1
        if a == "panic":
            stats["kernel_panics"] += 1
            f = open_f.get(overflow_finding(open_f)) if merge_panic_is_known(l) else None
            if f:
                known_once(ctx, f, f"`{l}` aborts the dev-profile compiler")
                continue
            ctx.violation(f"compile-time arithmetic kernel aborts on 32-bit operands: `{l}` (model: {m})",
                          {"protocol": "kernel", "line": l, "impl": a, "model": m})
            if len(ctx.violations) > 3:
                return
        elif op != "merge" and a != m:
            # `merge` lines are not diffed: the constant merger's model is C02's (Lemmas/C03Opt.lean)
            ctx.violation(f"model/implementation disagreement on kernel line `{l}`: impl `{a}` model `{m}`",
                          {"protocol": "kernel", "line": l, "impl": a, "model": m,
                           "broken": "correspondence fold/trip (Model/OptKernel.lean vs samlang-optimization): fold_total / trip_total no longer speak about this code"},
                          no_input=True)
            return


# ------------------------------------------------------------------ tie 2: string literals in the emitted TypeScript

STR_ALPHA = ["a", "b", "Z", "0", "1", "7", " ", "$", "{", "}", "`", "'", "\\\\", "\\n", "\\t", "\\\"", "\\0",
             "\\r", "\\b", "\\f", "\\v", "é", "日", "${", "`", "x", "\\q", "\\1", "\\", "\r", "\t"]


def gen_raw(rng, avoid_octal):
    n = rng.range(0, 7)
    s = "".join(rng.pick(STR_ALPHA) for _ in range(n))
    if avoid_octal:
        s = re.sub(r"\\0(?=[0-9])", r"\\0 ", s)
    return s


def str_prog(raw):
    return {"sources": {"Main": 'class Main {\n  function main(): unit = Process.println("' + raw + '")\n}\n'},
            "entry": "Main", "std": False, "run": True, "ts": True, "timeout_ms": 8000}


def impl_str_answer(ans):
    if ans.get("check") != "done":
        return "checker-" + str(ans.get("check"))
    if ans.get("nerr", 0) > 0:
        return "rejected"
    if ans.get("compile") != "ok":
        return "compile-" + str(ans.get("compile"))
    end = ans.get("ts", {}).get("end", "?")
    if end.startswith("no-node"):
        return None
    return "closed" if end == "ok" else ("open" if end.startswith("load-error") else "ts-" + end)


def check_strings(ctx, rng, n, stats, open_f):
    steer = "C03-F4" in open_f
    raws = [gen_raw(rng, steer) for _ in range(n)]
    raws = [r for r in dict.fromkeys(raws) if "\n" not in r]
    raws += ["a\\01b", "\\0", "\\09\\n`${"]      # regression probes (former C03-F4: `\\0` before a digit)
    answers = eval_programs([str_prog(r) for r in raws])
    model = run_model(["str " + hexs(r) for r in raws])
    for r, a, m in zip(raws, answers, model):
        ia = impl_str_answer(a)
        stats["str_cases"] += 1
        stats["str_hist"][m] = stats["str_hist"].get(m, 0) + 1
        if ia is None:
            continue
        if ia == "open":
            ctx.violation(f'emitted TypeScript is not valid for the accepted string literal "{r}" (model: {m}): ' + a["ts"]["end"][:120],
                          {"protocol": "str", "raw": r, "program": str_prog(r), "impl": ia, "model": m, "answer": a})
        elif ia != m:
            ctx.violation(f'model/implementation disagreement on string literal "{r}": impl `{ia}` model `{m}`',
                          {"protocol": "str", "raw": r, "impl": ia, "model": m, "answer": a,
                           "broken": "correspondence str (Model/Backends.lean lexAccepts/tsDecode vs lexer + lir.rs): ts_literal_closed_* no longer speak about this code"},
                          no_input=True)
        else:
            # accepted + closed: the rest of the property on this program
            if ia == "closed":
                for k, d in judge(a):
                    if k != "ts-run" and not match_known(open_f, str_prog(r)["sources"], k, d):
                        ctx.violation(f'accepted program with string literal "{r}" goes wrong: {k}: {d}',
                                      {"protocol": "prog", "program": str_prog(r), "answer": a})
        if len(ctx.violations) > 3:
            return


# ------------------------------------------------------------------ tie 3: match lowering (real checker + compiler + engine vs runMatch)

class MatchGen:
    """Random monomorphic type tables, typed checked patterns and inhabitants."""

    def __init__(self, rng, allow_dup=False):
        self.rng = rng
        self.allow_dup = allow_dup
        self.defs = [("P",)]
        n = rng.range(2, 4)
        for t in range(1, n + 1):
            if rng.chance(3, 5) or t == 1:
                ptr_types = [u for u in range(1, t) if self.defs[u][0] in ("S", "E")]
                if ptr_types and rng.chance(1, 3):
                    # option-like: payload-free variants and exactly one variant with one pointer field
                    # (the layout with an unboxed variant)
                    vs = [[] for _ in range(rng.range(0, 2))]
                    vs.insert(rng.below(len(vs) + 1), [rng.pick(ptr_types)])
                    self.defs.append(("E", vs))
                    continue
                nv = rng.range(1, 4) if rng.chance(1, 3) else rng.range(2, 4)
                payload_first = rng.chance(2, 5) or nv == 1     # enums without a payload-free variant too
                vs = []
                for j in range(nv):
                    if j == 0:
                        k = rng.range(1, 2) if payload_first else 0
                    else:
                        k = rng.range(0, 2)
                    # variant 0 must be finitely inhabited: no self reference there
                    fields = [self.pick_ty(t, allow_self=(j > 0)) for _ in range(k)]
                    if fields == [t]:
                        # steer away from DESIGN P1 (C01's enum-layout defect: a single-field variant holding
                        # the enum itself is unboxed, `K1(K0)` and `K0` are the same run-time value)
                        fields = [t, 0]
                    vs.append(fields)
                self.defs.append(("E", vs))
            else:
                k = rng.range(1, 3)
                self.defs.append(("S", [self.pick_ty(t, allow_self=False) for _ in range(k)]))
        self.nid = 0
        self.int_ids = []

    def pick_ty(self, t, allow_self):
        hi = t if allow_self else t - 1
        return self.rng.pick([0, 0] + list(range(1, hi + 1)))

    # --- protocol encodings
    def enc_defs(self):
        out = ["T", str(len(self.defs))]
        for t, d in enumerate(self.defs):
            if d[0] == "P":
                out.append("P")
            elif d[0] == "E":
                out += ["E", str(t), str(len(d[1]))]
                for j, tys in enumerate(d[1]):
                    out += [str(j), str(len(tys))] + [str(x) for x in tys]
            else:
                out += ["S", str(len(d[1]))]
                for j, ty in enumerate(d[1]):
                    out += [str(j), str(ty)]
        return out

    def ty_name(self, t):
        return "int" if t == 0 else f"T{t}"

    def decls(self):
        out = []
        for t, d in enumerate(self.defs):
            if d[0] == "E":
                vs = ", ".join(f"K{j}" + (("(" + ", ".join(self.ty_name(x) for x in tys) + ")") if tys else "")
                               for j, tys in enumerate(d[1]))
                out.append(f"class T{t}({vs}) {{}}")
            elif d[0] == "S":
                fs = ", ".join(f"val f{j}: {self.ty_name(ty)}" for j, ty in enumerate(d[1]))
                out.append(f"class T{t}({fs}) {{}}")
        return "\n".join(out) + "\n"

    # --- patterns: returns (source text, protocol tokens)
    def pat(self, t, depth, binders=True, where="top"):
        rng = self.rng
        d = self.defs[t]
        k = rng.below(10)
        if depth <= 0 or d[0] == "P" or k < 3:
            if binders and rng.chance(1, 2):
                self.nid += 1
                name = self.nid if t == 0 else 1000 + self.nid      # int-typed binders are < 1000
                if t == 0:
                    self.int_ids.append(name)
                return f"x{name}", ["i", str(name)]
            return "_", ["w"]
        if k >= 8 and depth >= 1 and where in ("top", "varg"):
            alts = self.or_alts(t, depth, binders)
            if alts:
                return " | ".join(a[0] for a in alts), ["r", str(len(alts))] + [x for a in alts for x in a[1]]
        if d[0] == "E":
            j = rng.below(len(d[1]))
            tys = d[1][j]
            subs = [self.pat(x, depth - 1, binders, where="varg") for x in tys]
            src = f"K{j}" + (("(" + ", ".join(s[0] for s in subs) + ")") if tys else "")
            return src, ["v", str(t), str(j), str(len(tys))] + [x for s in subs for x in s[1]]
        # struct: object pattern with the fields in a random order
        order = rng.shuffle(list(range(len(d[1]))))
        if self.allow_dup and rng.chance(1, 2):
            order = order + [rng.pick(order)]
            order = rng.shuffle(order)
        subs = [self.pat(d[1][o], depth - 1, binders, where="obj") for o in order]
        src = "{ " + ", ".join(f"f{o} as {s[0]}" for o, s in zip(order, subs)) + " }"
        toks = ["o", str(len(d[1])), str(len(order))]
        for o, s in zip(order, subs):
            toks += [str(o)] + s[1]
        return src, toks

    def or_alts(self, t, depth, binders):
        """Alternatives of an or-pattern: without binders, or all binding the same int name `x`
        (each alternative a variant with an int field; `x` sits at the first int field, a later field
        may hold a refutable pattern, so an alternative can assign `x` and then fail)."""
        rng = self.rng
        d = self.defs[t]
        n = rng.range(2, 3)
        if binders and d[0] == "E" and rng.chance(2, 3):
            cands = [j for j, tys in enumerate(d[1]) if 0 in tys]
            if cands:
                self.nid += 1
                name = self.nid
                self.int_ids.append(name)
                alts = []
                for _ in range(n):
                    j = rng.pick(cands)
                    tys = d[1][j]
                    first = tys.index(0)
                    subs = []
                    for pos, ty in enumerate(tys):
                        if pos == first:
                            subs.append((f"x{name}", ["i", str(name)]))
                        else:
                            subs.append(self.pat(ty, depth - 1, binders=False, where="varg"))
                    alts.append((f"K{j}(" + ", ".join(x[0] for x in subs) + ")",
                                 ["v", str(t), str(j), str(len(tys))] + [y for x in subs for y in x[1]]))
                return alts
        return [self.pat(t, depth - 1, binders=False, where="or") for _ in range(n)]

    def val(self, t, depth):
        rng = self.rng
        d = self.defs[t]
        if d[0] == "P":
            n = rng.range(0, 9)
            return str(n), ["p", str(n)]
        if d[0] == "E":
            j = 0 if depth <= 0 else rng.below(len(d[1]))
            tys = d[1][j]
            subs = [self.val(x, depth - 1) for x in tys]
            return f"T{t}.K{j}(" + ", ".join(s[0] for s in subs) + ")", \
                ["c", str(t), str(j), str(len(tys))] + [x for s in subs for x in s[1]]
        subs = [self.val(x, depth - 1) for x in d[1]]
        return f"T{t}.init(" + ", ".join(s[0] for s in subs) + ")", ["s", str(len(subs))] + [x for s in subs for x in s[1]]

    def case(self):
        """One match: (program dict, protocol line, number of values)."""
        rng = self.rng
        t = rng.range(1, len(self.defs) - 1)
        narms = rng.range(1, 4)
        arms = []
        for _ in range(narms):
            self.int_ids = []
            a = self.pat(t, 2)
            arms.append((a[0], a[1], list(self.int_ids)))
        d = self.defs[t]
        if d[0] == "E" and rng.chance(1, 2):      # complete the variants
            arms = arms[:1] + [(f"K{j}" + ("(" + ", ".join("_" for _ in tys) + ")" if tys else ""),
                               ["v", str(t), str(j), str(len(tys))] + ["w"] * len(tys), []) for j, tys in enumerate(d[1])]
        elif rng.chance(7, 10):
            arms.append(("_", ["w"], []))
        vals = [self.val(t, 3) for _ in range(rng.range(3, 6))]
        body = "match x { " + ", ".join(
            f"{a[0]} -> {i * 1000}" + "".join(f" + x{n}" for n in dict.fromkeys(a[2])) for i, a in enumerate(arms)) + " }"
        main = "".join(f"    let _ = Process.println(Str.fromInt(Main.m({v[0]})));\n" for v in vals)
        src = self.decls() + f"class Main {{\n  function m(x: T{t}): int = {body}\n  function main(): unit = {{\n{main}  }}\n}}\n"
        line = ["match"] + self.enc_defs() + ["Y", str(t), "A", str(len(arms))] + [x for a in arms for x in a[1]] + \
               ["V", str(len(vals))] + [x for v in vals for x in v[1]]
        prog = {"sources": {"Main": src}, "entry": "Main", "std": False, "run": True, "ts": True, "timeout_ms": 8000}
        return prog, " ".join(line), len(vals)


def object_reorder_case(rng):
    """A struct of 2-3 enum fields matched by 2-3 arms whose object patterns list the fields in
    DIFFERENT orders with refutable sub-patterns and no catch-all; every combination of variants is
    run.  (Exhaustive in declaration order / written order are different questions: the family C07
    calls `object-reorder`.)"""
    g = MatchGen.__new__(MatchGen)
    g.rng = rng; g.allow_dup = False; g.nid = 0; g.int_ids = []
    g.defs = [("P",)]
    nen = rng.range(1, 2)
    for _ in range(nen):
        nv = rng.range(2, 3)
        g.defs.append(("E", [[] if (j == 0 or rng.chance(1, 2)) else [0] for j in range(nv)]))
    nf = rng.range(2, 3)
    g.defs.append(("S", [rng.range(1, nen) for _ in range(nf)]))
    st = len(g.defs) - 1
    fields = g.defs[st][1]

    def sub(ft, refutable):
        if not refutable:
            return "_", ["w"]
        j = rng.below(len(g.defs[ft][1]))
        tys = g.defs[ft][1][j]
        return (f"K{j}" + ("(" + ", ".join("_" for _ in tys) + ")" if tys else ""),
                ["v", str(ft), str(j), str(len(tys))] + ["w"] * len(tys))

    arms = []
    shape = rng.below(3)
    same_enum = all(f == fields[0] for f in fields)
    if shape < 2 and same_enum:
        # complementary arms: arm k refutes exactly one field with variant k of the enum, so that the
        # variants used cover the enum.  shape 0: always the SAME field (truly exhaustive, written at
        # different positions); shape 1: the FIRST WRITTEN field of each arm, which is a different
        # declared field from arm to arm (exhaustive only if rows were read in written order).
        ft = fields[0]
        nvs = len(g.defs[ft][1])
        target = rng.below(nf)
        for k in range(nvs):
            order = rng.shuffle(list(range(nf)))
            if shape == 1:
                first = (target + k) % nf
                order = [first] + [o for o in order if o != first]
            elif k % 2 == 1:
                order = [o for o in order if o != target] + [target]
            tys = g.defs[ft][1][k]
            refuted = order[0] if shape == 1 else target
            subs = []
            for o in order:
                if o == refuted:
                    subs.append((f"K{k}" + ("(" + ", ".join("_" for _ in tys) + ")" if tys else ""),
                                 ["v", str(ft), str(k), str(len(tys))] + ["w"] * len(tys)))
                else:
                    subs.append(("_", ["w"]))
            src = "{ " + ", ".join(f"f{o} as {x[0]}" for o, x in zip(order, subs)) + " }"
            toks = ["o", str(nf), str(nf)]
            for o, x in zip(order, subs):
                toks += [str(o)] + x[1]
            arms.append((src, toks, []))
    narms = 0 if arms else rng.range(2, 4)
    orders = []
    for a in range(narms):
        order = rng.shuffle(list(range(nf)))
        if a == 1 and order == orders[0]:
            order = order[::-1]
        orders.append(order)
        refut = [rng.chance(3, 5) for _ in range(nf)]
        if not any(refut):
            refut[rng.below(nf)] = True
        subs = [sub(fields[o], refut[k]) for k, o in enumerate(order)]
        src = "{ " + ", ".join(f"f{o} as {x[0]}" for o, x in zip(order, subs)) + " }"
        toks = ["o", str(nf), str(nf)]
        for o, x in zip(order, subs):
            toks += [str(o)] + x[1]
        arms.append((src, toks, []))
    # all combinations of variants (payload ints fixed)
    combos = [[]]
    for ft in fields:
        combos = [c + [j] for c in combos for j in range(len(g.defs[ft][1]))]
    vals = []
    for c in combos[:27]:
        parts = []
        toks = ["s", str(nf)]
        for ft, j in zip(fields, c):
            tys = g.defs[ft][1][j]
            parts.append(f"T{ft}.K{j}(" + ", ".join("5" for _ in tys) + ")")
            toks += ["c", str(ft), str(j), str(len(tys))] + [x for _ in tys for x in ("p", "5")]
        vals.append((f"T{st}.init(" + ", ".join(parts) + ")", toks))
    body = "match x { " + ", ".join(f"{a[0]} -> {i * 1000}" for i, a in enumerate(arms)) + " }"
    main = "".join(f"    let _ = Process.println(Str.fromInt(Main.m({v[0]})));\n" for v in vals)
    src = g.decls() + f"class Main {{\n  function m(x: T{st}): int = {body}\n  function main(): unit = {{\n{main}  }}\n}}\n"
    line = ["match"] + g.enc_defs() + ["Y", str(st), "A", str(len(arms))] + [x for a in arms for x in a[1]] + \
           ["V", str(len(vals))] + [x for v in vals for x in v[1]]
    prog = {"sources": {"Main": src}, "entry": "Main", "std": False, "run": True, "ts": True, "timeout_ms": 8000}
    return prog, " ".join(line), len(vals)


def impl_match_answer(ans, nvals):
    """(acc, ends list) from a real run, or (None, why)."""
    if ans.get("check") != "done":
        return None, "checker " + str(ans.get("check"))
    if ans.get("nerr", 0) > 0:
        txt = ans.get("errors", "")
        if "collides with a previously defined name" in txt:
            return "dup", []
        if "exhaustive" in txt.lower() and ans.get("nerr") == 1:
            return "0", []
        return None, "unexpected diagnostics: " + txt[:200]
    if ans.get("compile") != "ok":
        return None, "compile " + str(ans.get("compile")) + " " + str(ans.get("msg", ""))[:120]
    out = {}
    for b in ("wasm", "ts"):
        r = ans.get(b, {})
        if r.get("end", "").startswith("no-node"):
            return "1", None
        ends = []
        for l in r.get("lines", []):
            try:
                n = int(l)
                ends.append(f"a{n // 1000}:{n % 1000}")
            except ValueError:
                ends.append("?" + l)
        e = r.get("end", "")
        if e != "ok":
            ends.append("fb" if e.startswith("panic:") and e[6:].strip() == "" else "ft:" + e[:60])
        out[b] = ends
    if out["wasm"] != out["ts"]:
        return "1", ("TSDIFF", out["wasm"], out["ts"])
    return "1", out["wasm"]


def parse_model_match(m):
    d = dict(x.split("=", 1) for x in m.split() if "=" in x)
    ends = [] if d.get("ends", "-") == "-" else d["ends"].split(",")
    cut = []
    for e in ends:
        cut.append(e)
        if e in ("fb", "ft"):
            break
    return d, cut


def check_matches(ctx, rng, n, stats, open_f):
    cases = []
    for i in range(n):
        if i % 4 == 3:
            cases.append(object_reorder_case(rng.fork()))      # arms listing the fields in different orders
            continue
        g = MatchGen(rng.fork(), allow_dup=rng.chance(1, 8))
        cases.append(g.case())
    if True:   # regression probe: duplicate field (former C03-F3) must be rejected / untyped
        g = MatchGen(common.Rng(7), allow_dup=False)
        src = ("class T1(K0, K1(int)) {}\nclass T2(val f0: T1, val f1: int) {}\nclass Main {\n"
               "  function m(x: T2): int = match x { { f0 as K1(_), f0 as _, f1 as _ } -> 0 }\n"
               "  function main(): unit = {\n    let _ = Process.println(Str.fromInt(Main.m(T2.init(T1.K1(2), 40))));\n"
               "    let _ = Process.println(Str.fromInt(Main.m(T2.init(T1.K0(), 40))));\n  }\n}\n")
        line = "match T 3 P E 1 2 0 0 1 1 0 S 2 0 1 1 0 Y 2 A 1 o 2 3 0 v 1 1 1 w 0 w 1 w V 2 s 2 c 1 1 1 p 2 p 40 s 2 c 1 0 0 p 40"
        cases.append(({"sources": {"Main": src}, "entry": "Main", "std": False, "run": True, "ts": True}, line, 2))
    answers = eval_programs([c[0] for c in cases])
    model = run_model([c[1] for c in cases])
    for (prog, line, nv), a, m in zip(cases, answers, model):
        stats["match_cases"] += 1
        if "=" not in m:
            ctx.violation("match protocol line not understood by the model driver: " + m[:80], {"line": line, "broken": "match protocol"}, no_input=True)
            return
        d, mends = parse_model_match(m)
        acc, iends = impl_match_answer(a, nv)
        if a.get("check") == "done" and a.get("nerr", 1) == 0 and any(k in ("compile-panic", "invalid-wasm", "gate") for k, _ in judge(a)):
            # an accepted program on which the compiler itself goes wrong: the property fails (not the tie)
            if report(ctx, open_f, "generated match program", prog, a, stats, shrink=shrink_lines) and len(ctx.violations) > 3:
                return
            continue
        if acc == "dup" or (d.get("typed") == "0" and " o " in " " + line):
            # an object pattern naming a field twice: rejected by the checker (fix 76a01ae) <-> not a
            # typed checked pattern in the model (`nodupNat orders` inside `cpatTy`)
            stats["match_dup"] = stats.get("match_dup", 0) + 1
            if not (acc == "dup" and d.get("typed") == "0"):
                ctx.violation(f"duplicate-field object pattern: checker says {acc}, model typed={d.get('typed')}",
                              {"protocol": "match", "line": line, "program": prog, "answer": a, "model": m,
                               "broken": "correspondence match: cpatTy (nodup) vs check_matching_pattern"}, no_input=(acc != "1"))
                return
            continue
        if d.get("typed") != "1" or d.get("binds") != "1":
            ctx.violation("match generator produced an untyped checked pattern (generator/model bug)", {"line": line, "model": m, "program": prog, "broken": "match generator"}, no_input=True)
            return
        stats["match_acc"][d.get("acc", "?")] = stats["match_acc"].get(d.get("acc", "?"), 0) + 1
        if acc is None:
            ctx.violation("match tie: " + str(iends), {"protocol": "match", "line": line, "program": prog, "answer": a, "model": m,
                                                          "broken": "correspondence match (real checker/compiler/engine vs Model/MatchLower.lean)"}, no_input=True)
            stats["match_tie_breaks"] = stats.get("match_tie_breaks", 0) + 1
            if stats["match_tie_breaks"] >= 4 or len(ctx.violations) > 5:
                return
            continue
        if iends is None:
            continue
        if isinstance(iends, tuple):
            # the two back ends took different arms
            _, w_ends, t_ends = iends
            ts_faults = [e for e in t_ends + w_ends if e == "fb" or e.startswith("ft")]
            if acc == d.get("acc") and w_ends == mends and not ts_faults and "C18-F10" in open_f:
                # wasm = model; TypeScript takes the arm of a payload-free variant for an unboxed
                # single-field variant whose payload coerces (`[0] == 0`): C18-F10 (loose `==` tag test)
                known_once(ctx, open_f["C18-F10"], f"generated match: wasm/model {w_ends}, TypeScript {t_ends}")
                stats["known_hits"]["C18-F10"] = stats["known_hits"].get("C18-F10", 0) + 1
                continue
            ctx.violation(("accepted match goes wrong on one back end: " if ts_faults else "match: back ends disagree: ") + f"wasm {w_ends} ts {t_ends} (model {mends})",
                          {"protocol": "match", "line": line, "program": prog, "answer": a, "model": m},
                          no_input=not ts_faults)
            if len(ctx.violations) > 3:
                return
            continue
        went_wrong = [e for e in iends if e == "fb" or e.startswith("ft")]
        if acc == "1" and went_wrong:
            # the property itself fails on the real code
            ctx.violation("accepted match goes wrong on the real code: ends " + ",".join(iends) + " (model: " + ",".join(mends) + ")",
                          {"protocol": "match", "line": line, "program": prog, "answer": a, "model": m})
            if len(ctx.violations) > 3:
                return
            continue
        stats.setdefault("match_verdicts", {})
        vk = f"checker={acc},model={d.get('acc')}"
        stats["match_verdicts"][vk] = stats["match_verdicts"].get(vk, 0) + 1
        if acc == "1" and d.get("acc") == "0":
            # accepted although the model's exhaustiveness analysis (C07 on the declaration-order row)
            # finds an uncovered value: the property fails as soon as such a value exists; the model's
            # run of the lowered code names it (`fb`)
            witness = [i for i, e in enumerate(mends) if e == "fb"]
            ctx.violation("checker accepts a match that is not exhaustive (model verdict: non-exhaustive"
                          + (f"; value #{witness[0]} of the program falls through in the model" if witness else "") + f"): impl ends {iends}",
                          {"protocol": "match", "line": line, "program": prog, "answer": a, "model": m},
                          no_input=not witness)
            if len(ctx.violations) > 3:
                return
            continue
        if acc != d.get("acc") or (acc == "1" and iends != mends) or d.get("crash") == "1":
            ctx.violation(f"model/implementation disagreement on a match: impl acc={acc} ends={iends}; model {m}",
                          {"protocol": "match", "line": line, "program": prog, "answer": a, "model": m,
                           "broken": "correspondence match (Model/MatchLower.lean + C07 vs real checker/compiler/engine): exhaustive_no_fallback / lower_correct no longer speak about this code"},
                          no_input=True)
            # keep searching: a broken tie often comes with a concrete accepted-but-wrong program
            stats["match_tie_breaks"] = stats.get("match_tie_breaks", 0) + 1
            if stats["match_tie_breaks"] >= 4 or len(ctx.violations) > 5:
                return
            continue
        if acc == "1":
            stats["match_values"] += len(iends)
            for e in iends:
                k = e.split(":")[0]
                stats["match_arm_hist"][k] = stats["match_arm_hist"].get(k, 0) + 1
                if not e.endswith(":0"):
                    stats["match_bound_values"] = stats.get("match_bound_values", 0) + 1



# ------------------------------------------------------------------ tie 4: enum layout + LIR type erasure (real specialisation vs Model/EnumRepr.lean)

def layout_case(rng):
    g = MatchGen(rng)
    enums = [t for t, d in enumerate(g.defs) if d[0] == "E"]
    probes = "".join(f"  function probe{t}(x: T{t}): int = {t}\n" for t in enums)
    main = "".join(f"    let _ = Process.println(Str.fromInt(Main.probe{t}({g.val(t, 2)[0]})));\n" for t in enums)
    src = g.decls() + "class Main {\n" + probes + "  function main(): unit = {\n" + main + "  }\n}\n"
    return {"sources": {"Main": src}, "entry": "Main", "std": False}, "layout " + " ".join(g.enc_defs())


def check_layouts(ctx, rng, n, stats, open_f):
    cases = [layout_case(rng.fork()) for _ in range(n)]
    impl = run_impl(["layout " + json.dumps(c[0]) for c in cases])
    model = run_model([c[1] for c in cases])
    progs = []
    for (prog, line), a, m in zip(cases, impl, model):
        stats["layout_cases"] = stats.get("layout_cases", 0) + 1
        for part in m.split(" | ")[0].split(";"):
            for k in part.split("=")[-1].split(","):
                stats.setdefault("layout_hist", {})
                stats["layout_hist"][k[:1]] = stats["layout_hist"].get(k[:1], 0) + 1
        if a != m:
            ctx.violation(f"enum layout / type erasure: real specialisation + LIR lowering give `{a}`, model `{m}`",
                          {"protocol": "layout", "line": line, "program": prog, "impl": a, "model": m,
                           "broken": "correspondence layout (Model/EnumRepr.lean layoutOf/needsAny vs mir_generics_specialization.rs + lir_lowering.rs): destructure_never_traps / variant_fits_erased_type no longer speak about this code"},
                          no_input=True)
            return
        progs.append(dict(prog, run=True, ts=True, timeout_ms=8000))
    # the same programs, end to end: no value may fail to fit its erased type at run time
    for p, a in zip(progs, eval_programs(progs)):
        stats["gate_lines"].append((a.get("nerr", -1), a.get("compile")))
        if report(ctx, open_f, "generated enum-layout program (constructs and passes every enum)", p, a, stats, shrink=shrink_lines) and len(ctx.violations) > 3:
            return

# ------------------------------------------------------------------ oracle A: accepted mutants of tests/*.sam and std/*.sam

def load_repo_sources():
    out = {}
    for d, pre in (("tests", "tests."), ("std", "std.")):
        p = os.path.join(common.REPO, d)
        for f in sorted(os.listdir(p)) if os.path.isdir(p) else []:
            if f.endswith(".sam"):
                out[pre + f[:-4]] = open(os.path.join(p, f), encoding="utf-8").read()
    return out


def closure(srcs, names):
    seen, todo = {}, list(names)
    while todo:
        n = todo.pop()
        if n in seen or n not in srcs:
            continue
        seen[n] = srcs[n]
        todo += re.findall(r"from\s+((?:tests|std)\.[A-Za-z0-9_.]+)", srcs[n])
    return seen


def test_entries(srcs):
    """module -> exported class with a `run` function, from tests/AllTests.sam."""
    all_t = srcs.get("tests.AllTests", "")
    imp = dict((m.group(2), m.group(1)) for m in re.finditer(r"import\s*\{\s*([A-Za-z0-9_]+)\s*\}\s*from\s+(tests\.[A-Za-z0-9_]+)", all_t))
    used = set(re.findall(r"([A-Za-z0-9_]+)\.run\b", all_t))
    return {mod: cls for mod, cls in imp.items() if cls in used and mod in srcs}


def mask_noncode_keep_strings(text):
    """comments blanked, strings kept"""
    out, i, n = [], 0, len(text)
    while i < n:
        if text.startswith("//", i):
            j = text.find("\n", i); j = n if j < 0 else j
            i = j; continue
        if text.startswith("/*", i):
            j = text.find("*/", i + 2); j = n if j < 0 else j + 2
            i = j; continue
        if text[i] == '"':
            j = i + 1
            while j < n and text[j] != '"':
                j += 2 if text[j] == "\\" else 1
            j = min(n, j + 1)
            out.append(text[i:j]); i = j; continue
        out.append(text[i]); i += 1
    return "".join(out)


def mask_noncode(text):
    out = list(text)
    i, n = 0, len(text)
    while i < n:
        if text.startswith("//", i):
            j = text.find("\n", i); j = n if j < 0 else j
        elif text.startswith("/*", i):
            j = text.find("*/", i + 2); j = n if j < 0 else j + 2
        elif text[i] == '"':
            j = i + 1
            while j < n and text[j] != '"':
                j += 2 if text[j] == "\\" else 1
            j = min(n, j + 1)
        else:
            i += 1; continue
        for k in range(i, j):
            if out[k] != "\n":
                out[k] = " "
        i = j
    return "".join(out)


KEYWORDS = {"class", "interface", "function", "method", "val", "private", "let", "if", "else", "match", "import", "from",
            "true", "false", "this", "unit", "int", "bool", "Str", "as", "public", "return", "export", "then"}
ARITH = ["+", "-", "*", "/", "%"]
CMPS = ["<", "<=", ">", ">=", "==", "!="]
INTS = ["0", "1", "2", "7", "100", "1000000", "1073741824"]


def mutation_sites(text):
    """(kind, start, end, replacement-generator input) over code (not strings/comments)."""
    m = mask_noncode(text)
    sites = []
    idents = [(x.group(0), x.start(), x.end()) for x in re.finditer(r"(?<![A-Za-z0-9_])[A-Za-z_][A-Za-z0-9_]*", m)]
    lower = sorted(set(i for i, _, _ in idents if i[0].islower() and i not in KEYWORDS))
    upper = sorted(set(i for i, _, _ in idents if i[0].isupper() and i not in KEYWORDS))
    for name, s, e in idents:
        if name in KEYWORDS:
            if name in ("true", "false"):
                sites.append(("bool-flip", s, e, ["false" if name == "true" else "true"]))
            continue
        pool = lower if name[0].islower() else upper
        if len(pool) > 1:
            sites.append(("ident-swap", s, e, [p for p in pool if p != name]))
    for x in re.finditer(r"(?<![A-Za-z0-9_.])(0|[1-9][0-9]*)(?![A-Za-z0-9_.])", m):
        sites.append(("int-literal", x.start(), x.end(), [v for v in INTS if v != x.group(0)]))
        sites.append(("lambda-wrap", x.start(), x.end(), [f"(() -> {x.group(0)})()"]))
    for x in re.finditer(r" (\+|-|\*|/|%) ", m):
        sites.append(("arith-op", x.start(1), x.end(1), [o for o in ARITH if o != x.group(1)]))
    for x in re.finditer(r" (<=|>=|==|!=|<|>) ", m):
        sites.append(("cmp-op", x.start(1), x.end(1), [o for o in CMPS if o != x.group(1)]))
    for x in re.finditer(r"(&&|\|\|)", m):
        sites.append(("bool-op", x.start(), x.end(), ["||" if x.group(0) == "&&" else "&&"]))
    for x in re.finditer(r"\(([A-Za-z0-9_.]+), ([A-Za-z0-9_.]+)\)", m):
        sites.append(("arg-swap", x.start(), x.end(), [f"({x.group(2)}, {x.group(1)})"]))
    for x in re.finditer(r"\n[ \t]*([A-Z][A-Za-z0-9_]*(?:\([^()\n]*\))? -> [^\n]*,)(?=\n)", m):
        sites.append(("arm-drop", x.start(1), x.end(1), [""]))
    for x in re.finditer(r"\n([ \t]*let [^\n]*;)(?=\n)", m):
        sites.append(("stmt-drop", x.start(1), x.end(1), [""]))
    return sites


def check_mutants(ctx, rng, n, stats, open_f):
    srcs = load_repo_sources()
    entries = test_entries(srcs)
    if not entries:
        ctx.violation("tests/AllTests.sam no longer lists the sample modules (mutant oracle has no base)", {"broken": "sample discovery"}, no_input=True)
        return
    mods = sorted(entries)
    closures = {m: closure(srcs, [m]) for m in mods}

    def make_job(mod, target, kind, s, e, rep):
        cl = closures[mod]
        text = cl[target]
        mutated = dict(cl)
        mutated[target] = text[:s] + rep + text[e:]
        mutated["Drv"] = f"import {{ {entries[mod]} }} from {mod};\n\nclass Main {{\n  function main(): unit = {entries[mod]}.run()\n}}\n"
        line_no = text.count("\n", 0, s) + 1
        return (f"{kind} in {target}:{line_no} `{text[s:e]}` -> `{rep}` (entry {mod})", kind, target, mod,
                {"sources": mutated, "entry": "Drv", "std": True, "run": True, "ts": True, "timeout_ms": 10000})

    jobs = []
    if ctx.quick:
        tries = 0
        while len(jobs) < n and tries < n * 3:
            tries += 1
            mod = rng.pick(mods)
            cl = closures[mod]
            targets = [mod] * 3 + [k for k in cl if k.startswith("std.")]
            target = rng.pick(targets)
            sites = mutation_sites(cl[target])
            if not sites:
                continue
            kinds = sorted(set(x[0] for x in sites))
            k0 = rng.pick(kinds + ["ident-swap"])          # kind first, so rare operators are not drowned
            kind, s, e, reps = rng.pick([x for x in sites if x[0] == k0] or sites)
            jobs.append(make_job(mod, target, kind, s, e, rng.pick(reps)))
    else:
        # thorough: ENUMERATE every site of every non-identifier operator in every sample module and
        # every std module (all replacements for operator swaps, one drawn replacement for integer
        # literals), plus `n` sampled identifier swaps (19 674 sites x ~50 candidates each is not affordable)
        users = {}
        for m in mods:
            for k in closures[m]:
                if k.startswith("std."):
                    users.setdefault(k, []).append(m)
        ident = []
        for target in mods + sorted(users):
            entry_mods = [target] if target in entries else users[target]
            for kind, s, e, reps in mutation_sites(srcs[target]):
                mod = entry_mods[0] if len(entry_mods) == 1 else rng.pick(entry_mods)
                if kind == "ident-swap":
                    ident.append((mod, target, kind, s, e, reps))
                elif kind == "int-literal":
                    jobs.append(make_job(mod, target, kind, s, e, rng.pick(reps)))
                else:
                    for rep in reps:
                        jobs.append(make_job(mod, target, kind, s, e, rep))
        stats["enumerated_sites"] = len(jobs)
        for mod, target, kind, s, e, reps in rng.shuffle(ident)[:n]:
            jobs.append(make_job(mod, target, kind, s, e, rng.pick(reps)))
    # pass 1: accept decision only (cheap), pass 2: run the accepted ones
    answers = []
    for k in range(0, len(jobs), 2000):
        answers += eval_programs([dict(j[4], run=False) for j in jobs[k:k + 2000]])
    accepted = []
    for j, a in zip(jobs, answers):
        stats["mutants"] += 1
        stats["mut_hist"][j[1]] = stats["mut_hist"].get(j[1], 0) + 1
        stats["gate_lines"].append((a.get("nerr", -1), a.get("compile")))
        if a.get("check") == "done" and a.get("nerr", 1) == 0:
            accepted.append(j)
            stats["mut_acc_hist"][j[1]] = stats["mut_acc_hist"].get(j[1], 0) + 1
        elif judge(a):
            report(ctx, open_f, j[0], j[4], a, stats)
    stats["mutants_accepted"] += len(accepted)
    ans2 = []
    for k in range(0, len(accepted), 1000):
        ans2 += eval_programs([j[4] for j in accepted[k:k + 1000]])
    for j, a in zip(accepted, ans2):
        e = a.get("wasm", {}).get("end", "?")
        stats["end_hist"][e.split(":")[0]] = stats["end_hist"].get(e.split(":")[0], 0) + 1
        if len(stats["samples"]) < 4 and rng.chance(1, 10):
            stats["samples"].append({"mutant": j[0], "wasm_end": e, "ts_end": a.get("ts", {}).get("end"), "validate": a.get("validate")})
        if report(ctx, open_f, "accepted mutant: " + j[0], j[4], a, stats):
            if len(ctx.violations) > 3:
                return


# ------------------------------------------------------------------ oracle B: generated well-typed programs (C06's generator)

def check_generated(ctx, rng, n, stats, open_f):
    from . import c06
    progs = []
    for _ in range(n):
        g = c06.ProgGen(rng.fork())
        tree = g.program()
        progs.append({"sources": {m: c06.render(nodes) for m, nodes in tree.items()}, "entry": g.mainname,
                      "std": False, "run": True, "ts": True, "timeout_ms": 8000})
    for p, a in zip(progs, eval_programs(progs)):
        stats["generated"] += 1
        stats["gate_lines"].append((a.get("nerr", -1), a.get("compile")))
        if a.get("check") == "done" and a.get("nerr", 1) == 0:
            stats["generated_accepted"] += 1
            report(ctx, open_f, "generated well-typed program", p, a, stats)


# ------------------------------------------------------------------ oracle C: same-named classes in different modules, cross-module swaps

def gen_lib(rng, modname, api, flavour):
    """A library module defining Point / Shape / Wrap<T> with module-specific layouts and an API class."""
    if flavour == 0:
        point = "class Point(val x: int, val y: int) {\n  method sum(): int = this.x + this.y\n}\n"
        mk = "Point.init(3, 4)"
        shape = "class Shape(Circle(int), Sq(Point)) {\n  method area(): int = match this { Circle(r) -> r * r * 3, Sq(p) -> p.sum() }\n}\n"
        mks = rng.pick(["Shape.Circle(2)", "Shape.Sq(Point.init(1, 2))"])
    elif flavour == 1:
        point = "class Point(val label: Str) {\n  method sum(): int = 7\n  method name(): Str = this.label\n}\n"
        mk = 'Point.init("p")'
        shape = "class Shape(Dot, Line(int, int), Named(Str)) {\n  method area(): int = match this { Dot -> 0, Line(a, b) -> a + b, Named(_) -> 1 }\n}\n"
        mks = rng.pick(["Shape.Dot()", "Shape.Line(1, 2)", 'Shape.Named("n")'])
    else:
        point = "class Point(Origin, At(int, int)) {\n  method sum(): int = match this { Origin -> 0, At(a, b) -> a + b }\n}\n"
        mk = rng.pick(["Point.Origin()", "Point.At(5, 6)"])
        shape = "class Shape(val sides: int, val p: Point) {\n  method area(): int = this.sides + this.p.sum()\n}\n"
        mks = f"Shape.init(4, {mk})"
    body = (
        "import { Option } from std.option;\n\n" + point + shape +
        "class Wrap<T>(val v: T) {\n  method get(): T = this.v\n}\n"
        f"class {api} {{\n"
        f"  function mkPoint(): Point = {mk}\n"
        "  function usePoint(p: Point): int = p.sum()\n"
        f"  function mkShape(): Shape = {mks}\n"
        "  function useShape(s: Shape): int = s.area()\n"
        f"  function mkOpt(): Option<Point> = Option.Some({mk})\n"
        "  function useOpt(o: Option<Point>): int = match o { Some(p) -> p.sum(), None -> 0 - 1 }\n"
        f"  function mkWrap(): Wrap<Point> = Wrap.init({mk})\n"
        "  function useWrap(w: Wrap<Point>): int = w.get().sum()\n"
        "  function mkFn(): (Point) -> int = (p: Point) -> p.sum()\n"
        "  function applyFn(f: (Point) -> int): int = f(" + mk + ")\n"
        "}\n")
    return body


KINDS = [("mkPoint", "usePoint"), ("mkShape", "useShape"), ("mkOpt", "useOpt"), ("mkWrap", "useWrap"), ("mkFn", "applyFn")]


def gen_multimodule(rng):
    fl = rng.shuffle([0, 1, 2])[:2]
    mods = [("geo.Shapes", "GeoApi", fl[0]), ("ui.Widgets", "UiApi", fl[1])]
    srcs = {m: gen_lib(rng, m, api, f) for m, api, f in mods}
    imp_from = rng.below(2)      # Main sees `Point`/`Shape` of this module by name
    stmts = []
    for _ in range(rng.range(3, 6)):
        k = rng.pick(KINDS)
        mi = rng.below(2)
        stmts.append([k, mi, mi, rng.below(3)])        # kind, producer module, consumer module, style
    def render(stmts):
        lines = []
        for i, (k, pm, cm, style) in enumerate(stmts):
            prod = f"{mods[pm][1]}.{k[0]}()"
            cons = f"{mods[cm][1]}.{k[1]}"
            ann = {"mkPoint": "Point", "mkShape": "Shape", "mkOpt": "Option<Point>", "mkWrap": None, "mkFn": "(Point) -> int"}[k[0]]
            if style == 1 and ann and pm == imp_from:
                lines.append(f"    let v{i}: {ann} = {prod};\n    let _ = Process.println(Str.fromInt({cons}(v{i})));")
            elif style == 2:
                lines.append(f"    let v{i} = if b {{ {prod} }} else {{ {prod} }};\n    let _ = Process.println(Str.fromInt({cons}(v{i})));")
            else:
                lines.append(f"    let _ = Process.println(Str.fromInt({cons}({prod})));")
        return ("import { Option } from std.option;\n"
                f"import {{ Point, Shape, {mods[imp_from][1]} }} from {mods[imp_from][0]};\n"
                f"import {{ {mods[1 - imp_from][1]} }} from {mods[1 - imp_from][0]};\n\n"
                "class Main {\n  function run(b: bool): unit = {\n" + "\n".join(lines) + "\n  }\n  function main(): unit = Main.run(true)\n}\n")
    base = dict(srcs); base["Main"] = render(stmts)
    mutants = []
    for i in range(len(stmts)):
        for side in (1, 2):
            st = [list(s) for s in stmts]
            st[i][side] = 1 - st[i][side]
            m = dict(srcs); m["Main"] = render(st)
            mutants.append((f"cross-module swap: {stmts[i][0][0]}/{stmts[i][0][1]} statement {i} {'producer' if side == 1 else 'consumer'} taken from the other module", m))
    # annotation swap: the annotated name refers to the other module's class
    st = [list(s) for s in stmts]
    for s in st:
        s[3] = 1
        s[1] = s[2] = 1 - imp_from
    m = dict(srcs); m["Main"] = render(st).replace(f"import {{ Point, Shape, {mods[imp_from][1]} }} from {mods[imp_from][0]};",
                                                    f"import {{ Point, Shape, {mods[imp_from][1]} }} from {mods[imp_from][0]};")
    # force annotations although the producer is the *other* module
    m["Main"] = re.sub(r"let _ = Process\.println\(Str\.fromInt\((\w+)\.(usePoint|useShape)\((\w+)\.(mkPoint|mkShape)\(\)\)\)\);",
                       lambda x: f"let w: {'Point' if x.group(4) == 'mkPoint' else 'Shape'} = {x.group(3)}.{x.group(4)}();\n    let _ = Process.println(Str.fromInt({x.group(1)}.{x.group(2)}(w)));",
                       m["Main"], count=1)
    mutants.append(("annotation names the same-named class of the other module", m))
    return base, mutants


def check_multimodule(ctx, rng, n, stats, open_f):
    bases, muts = [], []
    for _ in range(n):
        b, ms = gen_multimodule(rng.fork())
        bases.append(b)
        for d, m in rng.shuffle(ms)[:4]:
            muts.append((d, m))
    mk = lambda s: {"sources": s, "entry": "Main", "std": True, "run": True, "ts": True, "timeout_ms": 8000}
    for b, a in zip(bases, eval_programs([mk(b) for b in bases])):
        stats["mm_bases"] += 1
        stats["gate_lines"].append((a.get("nerr", -1), a.get("compile")))
        if a.get("check") != "done" or a.get("nerr", 1) != 0 or a.get("compile") != "ok":
            ctx.violation("base program of the multi-module oracle is not accepted (generator and front end disagree)",
                          {"program": mk(b), "answer": a, "broken": "multi-module oracle base program"}, no_input=True)
            return
        report(ctx, open_f, "generated multi-module program (same-named classes)", mk(b), a, stats)
    for (d, m), a in zip(muts, eval_programs([mk(m) for _, m in muts])):
        stats["mm_mutants"] += 1
        stats["gate_lines"].append((a.get("nerr", -1), a.get("compile")))
        if a.get("check") == "done" and a.get("nerr", 1) == 0:
            stats["mm_mutants_accepted"] += 1
            if report(ctx, open_f, d, mk(m), a, stats) and len(ctx.violations) > 3:
                return



# ------------------------------------------------------------------ oracle E: nested loops (tail-recursive functions calling tail-recursive functions)

def gen_loops(rng):
    """Two to four self-tail-recursive functions (each becomes a `While`), where an outer one calls an
    inner one (inlined: a loop nested in the loop body) BEFORE its own exit test, after it, in both
    branches, inside a match arm, or twice; small bounds so that every run terminates."""
    c = rng.range(1, 3)
    fns = []
    inner_kind = rng.below(3)
    if inner_kind == 0:
        fns.append(f"  function inner(n: int, acc: int): int =\n    if n <= 0 {{ acc }} else {{ Main.inner(n - 1, acc + n * {c}) }}\n")
    elif inner_kind == 1:
        fns.append(f"  function inner(n: int, acc: int): int =\n    if n > 0 {{ Main.inner(n - {c}, acc + 1) }} else {{ acc }}\n")
    else:
        fns.append("  function inner(n: int, acc: int): int = {\n    let m = n % 5;\n    if n <= 0 { acc + m } else { Main.inner(n / 2, acc + m) }\n  }\n")
    lim = rng.range(5, 60)
    style = rng.below(6)
    if style == 0:      # call before the exit test
        fns.append("  function outer(i: int, limit: int): int = {\n    let t = Main.inner(i, 0);\n"
                   "    if t > limit || i > 40 { i } else { Main.outer(i + 1, limit) }\n  }\n")
    elif style == 1:    # call after the exit test, in the continuing branch
        fns.append("  function outer(i: int, limit: int): int =\n    if i > 40 { i } else {\n      let t = Main.inner(i, 1);\n"
                   "      if t > limit { t } else { Main.outer(i + 2, limit) }\n    }\n")
    elif style == 2:    # two inner loops, before and inside the branch
        fns.append("  function outer(i: int, limit: int): int = {\n    let a = Main.inner(i, 0);\n    let b = Main.inner(a % 7, i);\n"
                   "    if a + b > limit || i > 30 { a + b } else { Main.outer(i + 1 + Main.inner(2, 0) % 2, limit) }\n  }\n")
    elif style == 3:    # inner loop in a match arm of the loop body
        fns.append("  function outer(i: int, limit: int): int = {\n    let o = if i % 2 == 0 { Opt.Yes(i) } else { Opt.No() };\n"
                   "    let t = match o { Yes(v) -> Main.inner(v, 0), No -> Main.inner(3, i) };\n"
                   "    if t > limit || i > 40 { t } else { Main.outer(i + 1, limit) }\n  }\n")
    elif style == 4:    # accumulating outer loop with the inner call in the recursive argument
        fns.append("  function outer(i: int, limit: int): int =\n    if i > limit { i } else { Main.outer(i + 1 + Main.inner(i % 4, 0), limit) }\n")
    else:               # exit value is itself an inner loop
        fns.append("  function outer(i: int, limit: int): int = {\n    let t = Main.inner(i % 6, i);\n"
                   "    if i > 20 { Main.inner(t % 9, 0) } else { Main.outer(i + 1 + t % 2, limit) }\n  }\n")
    calls = [f"Main.outer({rng.range(0, 5)}, {lim})"]
    if rng.chance(1, 2):    # a third level: a loop around `outer`
        fns.append("  function top(k: int, s: int): int = {\n    let r = Main.outer(k, " + str(lim) + ");\n"
                   "    if k >= 4 { s + r } else { Main.top(k + 1, s + r % 11) }\n  }\n")
        calls.append(f"Main.top({rng.range(0, 3)}, 0)")
    if rng.chance(1, 3):    # mutual position: loop after loop in the same body (siblings, not nested)
        fns.append("  function twice(i: int): int = {\n    let a = Main.inner(i, 0);\n    let b = Main.outer(a % 3, " + str(lim) + ");\n"
                   "    if i > 6 { a + b } else { Main.twice(i + 1) }\n  }\n")
        calls.append(f"Main.twice({rng.range(0, 3)})")
    main = "".join(f"    let _ = Process.println(Str.fromInt({c}));\n" for c in calls)
    src = "class Opt(No, Yes(int)) {}\nclass Main {\n" + "".join(fns) + "  function main(): unit = {\n" + main + "  }\n}\n"
    return {"sources": {"Main": src}, "entry": "Main", "std": False, "run": True, "ts": True, "timeout_ms": 8000}


def gen_loop_closures(rng):
    """A counted tail-recursive loop that keeps a derived value (`i * c`) and calls closures in its
    body: 0-4 calls of a lambda parameter per iteration, lambdas capturing run-time values, a function
    reference as a value, call results that are not used, output inside the loop (so that the loop
    survives the optimiser's last round together with its temporaries)."""
    c = rng.range(2, 5)
    ncalls = rng.range(0, 4)
    arg = rng.pick([f"i * {c}", f"i * {c} + 1", f"(i + 1) * {c}"])
    if ncalls == 0:
        step = f"acc + i * {c}"
    else:
        step = "acc" + "".join(f" + f({arg}{' + ' + str(k) if k else ''})" for k in range(ncalls))
    noise = rng.pick(["", "      let _ = f(i);\n", "      let _ = g(acc);\n", "      let _ = Main.helper(i);\n"])
    show = rng.pick(["      let _ = Process.println(Str.fromInt(acc));\n", "", "      let _ = Process.println(Str.fromInt(i * " + str(c) + "));\n"])
    second = rng.chance(1, 2)
    gparam = ", g: (int) -> int" if second or "g(acc)" in noise else ""
    garg = ", g" if gparam else ""
    walk = (f"  function walk(f: (int) -> int{gparam}, i: int, acc: int): int =\n    if i >= {rng.range(3, 12)} {{\n      acc\n    }} else {{\n"
            + show + noise + f"      Main.walk(f{garg}, i + 1, {step}{' + g(i)' if second and gparam else ''})\n    }}\n")
    lam = rng.pick(["(x0) -> x0 * 2 + k", "(x0) -> x0 + k * start", "(x0) -> Main.helper(x0) + k", "Main.helper"])
    lam2 = rng.pick(["(y0) -> y0 - k", "Main.helper", "(y0) -> if y0 > k { y0 } else { k }"])
    call = f"Main.walk({lam}{', ' + lam2 if gparam else ''}, start, 0)"
    extra = ""
    if rng.chance(1, 2):   # the loop nested in another counted loop
        extra = (f"  function outer(n: int, s: int, k: int, start: int): int =\n    if n >= 3 {{ s }} else {{ Main.outer(n + 1, s + {call}, k, start + 1) }}\n")
        final = "Main.outer(0, 0, k, start)"
    else:
        final = call
    src = ("class Main {\n  function helper(x: int): int = x * 3 + 1\n" + walk + extra +
           "  function main(): unit = {\n    let start = \"0\".toInt();\n    let k = \"7\".toInt();\n"
           f"    let _ = Process.println(Str.fromInt({final}));\n    Process.println(\"done\")\n  }}\n}}\n")
    return {"sources": {"Main": src}, "entry": "Main", "std": False, "run": True, "ts": True, "timeout_ms": 8000}


def check_loops(ctx, rng, n, stats, open_f):
    progs = [gen_loops(rng.fork()) if i % 2 == 0 else gen_loop_closures(rng.fork()) for i in range(n)]
    for p, a in zip(progs, eval_programs(progs)):
        stats["loop_programs"] = stats.get("loop_programs", 0) + 1
        stats["gate_lines"].append((a.get("nerr", -1), a.get("compile")))
        if a.get("check") != "done" or a.get("nerr", 1) != 0:
            ctx.violation("nested-loop generator produced a program the checker does not accept (generator and front end disagree)",
                          {"program": p, "answer": a, "broken": "nested-loop oracle base program"}, no_input=True)
            return
        e = a.get("wasm", {}).get("end", "?").split(":")[0]
        stats["loop_end_hist"] = stats.get("loop_end_hist", {})
        stats["loop_end_hist"][e] = stats["loop_end_hist"].get(e, 0) + 1
        if report(ctx, open_f, "generated nested-loop program (tail-recursive function calling a tail-recursive function)", p, a, stats, shrink=shrink_lines) and len(ctx.violations) > 3:
            return


# ------------------------------------------------------------------ oracle F: member references in value position

BUILTIN_REFS = [   # (expression denoting the member, how a value `f` of it is used, type annotation)
    ("Process.println", 'f("a")', "(Str) -> unit"),
    ("Process.panic<int>", 'Process.println("k")', "(Str) -> int"),
    ("Str.fromInt", "Process.println(f(3))", "(int) -> Str"),
    ('"12".toInt', "Process.println(Str.fromInt(f()))", "() -> int"),
    ("Vec.empty<int>", "Process.println(Str.fromInt(f().length()))", "() -> Vec<int>"),
    ("Vec.of<int>", "Process.println(Str.fromInt(f(4).length()))", "(int) -> Vec<int>"),
    ("Vec.withCapacity<int>", "Process.println(Str.fromInt(f(4).length()))", "(int) -> Vec<int>"),
    ("v.length", "Process.println(Str.fromInt(f()))", "() -> int"),
    ("v.capacity", "Process.println(Str.fromInt(f()))", "() -> int"),
    ("v.reserve", "Process.println(Str.fromInt(f(8)))", None),
    ("v.push", "Process.println(Str.fromInt(f(2)))", None),
    ("v.pop", "Process.println(Str.fromInt(f()))", "() -> int"),
    ("v.get", "Process.println(Str.fromInt(f(0)))", "(int) -> int"),
    ("v.set", "Process.println(Str.fromInt(f(0, 5)))", None),
    ("v.eq", "Process.println(if f(v) { \"t\" } else { \"f\" })", None),
    # members of user classes, constructors and std members as values must keep working
    ("Main.twice", "Process.println(Str.fromInt(f(4)))", "(int) -> int"),
    ("Bx.init", "Process.println(Str.fromInt(f(4).get()))", "(int) -> Bx"),
    ("Opt.Yes", "Process.println(Str.fromInt(f(4).code()))", "(int) -> Opt"),
    ("Bx.init(7).get", "Process.println(Str.fromInt(f()))", "() -> int"),
]


def gen_member_refs(rng):
    progs = []
    pre = ("class Bx(val c: int) {\n  method get(): int = this.c\n}\n"
           "class Opt(No, Yes(int)) {\n  method code(): int = match this { No -> 0, Yes(n) -> n }\n}\n")
    for ref, use, ann in BUILTIN_REFS:
        for style in range(4):
            if style == 0:
                body = f"    let f = {ref};\n    let _ = {use};"
            elif style == 1:
                if not ann:
                    continue
                body = f"    let f: {ann} = {ref};\n    let _ = {use};"
            elif style == 2:      # passed as an argument, used by a function that is not inlined away
                if not ann:
                    continue
                body = f"    let _ = Main.keep({ref});"
            else:                 # returned from an if, so that no pass can resolve the callee statically
                body = f"    let f = if b {{ {ref} }} else {{ {ref} }};\n    let _ = {use};"
            keep = f"  function keep(f: {ann}): unit = {{ let _ = {use}; }}\n" if (ann and style == 2) else ""
            src = (pre + "class Main {\n  function twice(x: int): int = x * 2\n" + keep +
                   "  function run(b: bool): unit = {\n    let v = Vec.of(1);\n" + body + "\n  }\n"
                   "  function main(): unit = Main.run(true)\n}\n")
            progs.append((f"member reference `{ref}` in value position (style {style})",
                          {"sources": {"Main": src}, "entry": "Main", "std": False, "run": True, "ts": True, "timeout_ms": 8000}))
    return progs


def check_member_refs(ctx, rng, stats, open_f):
    progs = gen_member_refs(rng)
    for (d, p), a in zip(progs, eval_programs([p for _, p in progs])):
        stats["member_refs"] = stats.get("member_refs", 0) + 1
        stats["gate_lines"].append((a.get("nerr", -1), a.get("compile")))
        if a.get("check") == "done" and a.get("nerr", 1) == 0:
            stats["member_refs_accepted"] = stats.get("member_refs_accepted", 0) + 1
            if report(ctx, open_f, d, p, a, stats) and len(ctx.violations) > 3:
                return
    if stats.get("member_refs_accepted", 0) == 0:
        ctx.violation("member-reference stream: not even references to user functions / constructors are accepted (generator broken)",
                      {"broken": "member-reference stream"}, no_input=True)


# ------------------------------------------------------------------ tie 5 / oracle G: bounds of type arguments (deterministic, seed-independent)

BOUND_PRELUDE = ("interface HasArea {\n  method area(): int\n}\n"
                 "class Sq(val s: int) : HasArea {\n  method area(): int = this.s * this.s\n}\n"
                 "class Blob(val name: Str) {}\n")


def bound_programs(max_n=4):
    """For functions, methods and classes with 1..4 type parameters, every non-empty subset bounded by
    `HasArea`: one valid control, one program per bounded position whose type argument (`Blob`) does not
    satisfy the bound (explicit type arguments and inferred), and one violating every bounded position.
    Each item: (description, bounded flags, satisfied flags, program)."""
    out = []
    for n in range(1, max_n + 1):
        for mask in range(1, 1 << n):
            bounded = [(mask >> i) & 1 == 1 for i in range(n)]
            tps = ", ".join(f"P{i}: HasArea" if bounded[i] else f"P{i}" for i in range(n))
            params = ", ".join(f"a{i}: P{i}" for i in range(n))
            body = " + ".join([f"a{i}.area()" for i in range(n) if bounded[i]])
            cbody = " + ".join([f"this.a{i}.area()" for i in range(n) if bounded[i]])
            viols = [[]] + [[i] for i in range(n) if bounded[i]]
            allb = [i for i in range(n) if bounded[i]]
            if len(allb) > 1:
                viols.append(allb)
            for kind in ("function", "method", "class"):
                for viol in viols:
                    for explicit in (False, True):
                        args, targs = [], []
                        for i in range(n):
                            if i in viol:
                                args.append('Blob.init("b")'); targs.append("Blob")
                            elif bounded[i]:
                                args.append(f"Sq.init({i + 2})"); targs.append("Sq")
                            else:
                                args.append(str(i + 1) if i % 2 == 0 else '"s"'); targs.append("int" if i % 2 == 0 else "Str")
                        ta = ("<" + ", ".join(targs) + ">") if explicit else ""
                        if kind == "function":
                            decl = f"class Main {{\n  function <{tps}> f({params}): int = {body}\n"
                            call = f"Main.f{ta}({', '.join(args)})"
                        elif kind == "method":
                            decl = f"class Host(val h: int) {{\n  method <{tps}> m({params}): int = this.h + {body}\n}}\nclass Main {{\n"
                            call = f"Host.init(0).m{ta}({', '.join(args)})"
                        else:
                            fields = ", ".join(f"val a{i}: P{i}" for i in range(n))
                            decl = f"class Bx<{tps}>({fields}) {{\n  method total(): int = {cbody}\n}}\nclass Main {{\n"
                            call = f"Bx.init{ta}({', '.join(args)}).total()"
                        src = BOUND_PRELUDE + decl + f"  function main(): unit = Process.println(Str.fromInt({call}))\n}}\n"
                        flags = "".join("1" if b else "0" for b in bounded)
                        sat = "".join("0" if i in viol else "1" for i in range(n))
                        out.append((f"{kind} with <{tps}>, {'explicit' if explicit else 'inferred'} type arguments, violating positions {viol}",
                                    flags, sat, viol,
                                    {"sources": {"Main": src}, "entry": "Main", "std": False, "run": True, "ts": True, "timeout_ms": 8000}))
    return out


def check_bounds(ctx, stats, open_f):
    items = bound_programs(3 if ctx.quick else 4)      # 1..3 type parameters every run, 4 in thorough
    answers = eval_programs([it[4] for it in items])
    model = run_model([f"bound {it[1]} {it[2]}" for it in items])
    for (d, flags, sat, viol, prog), a, m in zip(items, answers, model):
        stats["bound_programs"] = stats.get("bound_programs", 0) + 1
        stats["gate_lines"].append((a.get("nerr", -1), a.get("compile")))
        want = int(m.split()[0].split("=")[1]) if m.startswith("errors=") else -1
        nerr = a.get("nerr", -1)
        if a.get("check") != "done":
            ctx.violation(f"bounds: checker did not finish on {d}: {a.get('errors', '')[:120]}", {"program": prog, "answer": a, "broken": "bounds stream"}, no_input=True)
            return
        if nerr == 0:
            stats["bound_accepted"] = stats.get("bound_accepted", 0) + 1
            wrong = report(ctx, open_f, "type-argument bounds: " + d, prog, a, stats)
            if want > 0 and not wrong:
                # accepted although a bound is violated (model: rejected) and the run happened to end well
                ctx.violation(f"checker accepts a call whose type argument violates its bound ({d}); model reports {m}",
                              {"protocol": "bound", "line": f"bound {flags} {sat}", "program": prog, "answer": a, "model": m,
                               "broken": "correspondence bound (Model/BoundCheck.lean vs validate_type_arguments)"}, no_input=True)
            if len(ctx.violations) > 3:
                return
        elif want == 0:
            ctx.violation(f"bounds: valid control program rejected ({d}): {a.get('errors', '')[:160]}",
                          {"program": prog, "answer": a, "model": m, "broken": "bounds stream control"}, no_input=True)
            return
        elif nerr != want:
            ctx.violation(f"bounds: {d}: checker reports {nerr} error(s), model {m}",
                          {"protocol": "bound", "line": f"bound {flags} {sat}", "program": prog, "answer": a, "model": m,
                           "broken": "correspondence bound (Model/BoundCheck.lean vs validate_type_arguments): bounds_checked_everywhere no longer speaks about this code"},
                          no_input=True)
            return


# ------------------------------------------------------------------ oracle H: one program per reject gate of the checker + representation controls (deterministic)

def check_gates(ctx, stats, open_f):
    from . import c03_gates as G
    items = []
    for k, src in G.REJECT.items():
        items.append(("reject", k, src, False, None))
    for k, src in G.REJECT_STD.items():
        items.append(("reject", k, src, True, None))
    accept = dict(G.ACCEPT)
    if not ctx.quick:
        accept.update(G.permutation_recursion_programs(full=True))     # the whole type x tail/non-tail product
    for k, (src, exp) in accept.items():
        items.append(("accept", k, src, True, exp))
    for fid, src in G.KNOWN_PROBES.items():
        if fid in open_f:
            items.append(("probe:" + fid, fid, src, False, None))
    progs = [{"sources": {"Main": src}, "entry": "Main", "std": std, "run": True, "ts": True, "timeout_ms": 8000}
             for _, _, src, std, _ in items]
    for (kind, k, src, std, exp), p, a in zip(items, progs, eval_programs(progs)):
        stats["gate_programs"] = stats.get("gate_programs", 0) + 1
        stats["gate_lines"].append((a.get("nerr", -1), a.get("compile")))
        if a.get("check") != "done":
            ctx.violation(f"gate `{k}`: the checker did not finish: {a.get('errors', '')[:120]}", {"program": p, "answer": a, "broken": "gate family"}, no_input=True)
            continue
        if kind.startswith("probe:"):
            fails = judge(a) if a.get("nerr", 1) == 0 else []
            if fails:
                known_once(ctx, open_f[k], "; ".join(f"{x}: {y}" for x, y in fails)[:200])
                stats["known_hits"][k] = stats["known_hits"].get(k, 0) + 1
            continue
        if kind == "reject":
            frag = G.FRAGMENT.get(k, "")
            if a.get("nerr", 0) == 0:
                # the rule no longer rejects: what happens to the accepted program?
                wrong = report(ctx, open_f, f"program violating the static rule `{k}` is accepted", p, a, stats)
                if not wrong:
                    ctx.violation(f"the checker accepts a program violating the static rule `{k}` (it compiled and ran: {a.get('wasm', {}).get('end')})",
                                  {"program": p, "answer": a, "broken": f"reject gate `{k}`"}, no_input=True)
            elif frag and frag not in a.get("errors", "") and frag not in a.get("msg", ""):
                ctx.violation(f"gate `{k}`: rejected, but not by its own rule (expected a diagnostic containing `{frag}`): {a.get('errors', '')[:200]}",
                              {"program": p, "answer": a, "broken": f"reject gate `{k}`"}, no_input=True)
        else:
            stats["gate_accepted"] = stats.get("gate_accepted", 0) + 1
            if a.get("nerr", 1) != 0:
                ctx.violation(f"control program `{k}` is rejected: {a.get('errors', '')[:200]}", {"program": p, "answer": a, "broken": "gate family control"}, no_input=True)
                continue
            if report(ctx, open_f, f"control program `{k}`", p, a, stats):
                continue
            for b in ("wasm", "ts"):
                r = a.get(b) or {}
                if not r.get("end", "").startswith("no-node") and r.get("lines") != exp:
                    ctx.violation(f"control program `{k}`: {b} prints {r.get('lines')} (expected {exp})", {"program": p, "answer": a})
        if len(ctx.violations) > 5:
            return

# ------------------------------------------------------------------ gate tie

def check_gate(ctx, stats):
    """compile_sources' decision against the model, on everything evaluated in this run + probes."""
    probes = [({"sources": {"Main": "class Main {\n  function main(): unit = Process.println(\"a\")\n}\n"}, "entry": "Other", "std": False, "run": False}, 0),
              ({"sources": {"Main": "class Main {\n  function main(): unit = Process.println(1)\n}\n"}, "entry": "Other", "std": False, "run": False}, 0),
              ({"sources": {"Main": "class Main {\n  function main(): unit = Process.println(1)\n}\n"}, "entry": "Main", "std": False, "run": False}, 1),
              ({"sources": {"Main": "class Main {\n  function main(): unit = Process.println(\"a\")\n}\n"}, "entry": "Main", "std": False, "run": False}, 1),
              ({"sources": {"Main": "class Main {\n  function main(: unit = 3\n}\n"}, "entry": "Main", "std": False, "run": False}, 1)]
    lines, impl = [], []
    for (p, present), a in zip(probes, eval_programs_entry(probes)):
        lines.append(f"gate {present} 0 {max(a.get('nerr', 0), 0)}")
        impl.append(gate_class(a))
    for nerr, comp in stats["gate_lines"]:
        if nerr < 0:
            continue
        lines.append(f"gate 1 0 {nerr}")
        impl.append({"ok": "lowered", "panic": "lowered", "err": "rejected"}.get(comp, str(comp)))
    model = run_model(lines)
    stats["gate_checked"] = len(lines)
    for l, a, m in zip(lines, impl, model):
        if a != m:
            ctx.violation(f"compile gate: `{l}`: compile_sources behaved as `{a}`, model says `{m}`",
                          {"protocol": "gate", "line": l, "impl": a, "model": m,
                           "broken": "correspondence gate (Model/CompileGate.lean vs samlang-compiler lib.rs): compile_gate no longer speaks about this code"},
                          no_input=(a != "lowered"))
            return


def eval_programs_entry(probes):
    # the harness' compile_program expects the entry among the sources; a missing entry is exercised
    # through the real compile_sources by the exec oracle's own protocol -> emulate with catch: the
    # harness answers compile=panic("entry module must be among the sources") for those
    return eval_programs([p for p, _ in probes])


def gate_class(a):
    comp = a.get("compile")
    if comp == "panic" and "entry module must be among the sources" in a.get("msg", ""):
        return "invalid-entry"      # harness refuses before calling compile_sources; see note in report
    if comp == "err" and a.get("msg", "").startswith("Invalid entry point"):
        return "invalid-entry"
    return {"ok": "lowered", "panic": "lowered", "err": "rejected"}.get(comp, str(comp))


# ------------------------------------------------------------------ corpus

def run_corpus(ctx, stats, open_f):
    cdir = os.path.join(common.VERIF, "corpus", PROP)
    files = sorted(glob.glob(os.path.join(cdir, "*.json")))
    progs = []
    for f in files:
        d = json.load(open(f))
        progs.append((os.path.basename(f), d))
    answers = eval_programs([d["program"] for _, d in progs])
    for (name, d), a in zip(progs, answers):
        stats["corpus"] += 1
        exp = d.get("expect", "holds")
        fails = judge(a)
        if exp == "holds":
            if a.get("nerr", 1) == 0:
                report(ctx, open_f, "corpus/" + name, d["program"], a, stats)
                want = d.get("wasm_lines")
                if want is not None and a.get("wasm", {}).get("lines") != want and not a.get("wasm", {}).get("end", "").startswith("no-node"):
                    ctx.violation(f"regression input corpus/{name}: output {a.get('wasm', {}).get('lines')} expected {want}",
                                  {"program": d["program"], "answer": a})
        elif exp == "rejected":
            # a regression input the checker must reject (a fixed accept-too-much defect)
            if a.get("check") != "done" or a.get("nerr", 0) <= 0 or a.get("compile") == "ok":
                ctx.violation(f"regression input corpus/{name} must be rejected by the checker but was accepted",
                              {"program": d["program"], "answer": a})
        elif exp.startswith("known:"):
            fid = exp[6:]
            if fails and fid in open_f:
                known_once(ctx, open_f[fid], f"corpus/{name}: " + "; ".join(f"{k}: {x}" for k, x in fails)[:200])
                stats["known_hits"][fid] = stats["known_hits"].get(fid, 0) + 1
            elif fails:
                report(ctx, open_f, "corpus/" + name, d["program"], a, stats)


# ------------------------------------------------------------------ shrinking

def shrink_lines(prog):
    """ddmin over the lines of the largest non-std module while the program stays accepted and wrong."""
    srcs = prog["sources"]
    target = max((k for k in srcs if not k.startswith("std.")), key=lambda k: len(srcs[k]), default=None)
    if target is None:
        return prog
    lines = srcs[target].split("\n")
    budget = [0]
    def fails(cand):
        budget[0] += 1
        if budget[0] > 60:
            return False
        p = dict(prog); p["sources"] = dict(srcs); p["sources"][target] = "\n".join(cand)
        a = eval_programs([p])[0]
        return a.get("nerr", 1) == 0 and bool(judge(a))
    small = common.ddmin(lines, fails, max_tests=60)
    p = dict(prog); p["sources"] = dict(srcs); p["sources"][target] = "\n".join(small)
    return p


# ------------------------------------------------------------------ entry points

def new_stats():
    return {"hist": {}, "kernel_lines": 0, "kernel_panics": 0, "str_cases": 0, "str_hist": {}, "match_cases": 0,
            "match_acc": {}, "match_values": 0, "match_arm_hist": {}, "mutants": 0, "mutants_accepted": 0,
            "mut_hist": {}, "mut_acc_hist": {}, "end_hist": {}, "generated": 0, "generated_accepted": 0,
            "mm_bases": 0, "mm_mutants": 0, "mm_mutants_accepted": 0, "gate_lines": [], "gate_checked": 0,
            "corpus": 0, "enumerated_sites": 0, "known_hits": {}, "violations": 0, "samples": []}


def run(ctx):
    stats = new_stats()
    open_f = all_open_findings()

    def search():
        # a proof obligation broke: look for a concrete failing input with the implementation-side oracle
        try:
            common.build_harness(PROP)
        except common.BuildError:
            return False
        before = len(ctx.violations)
        r = common.Rng(ctx.seed + 77)
        check_kernels(ctx, r, 3000, stats, open_f)
        check_strings(ctx, r, 60, stats, open_f)
        check_multimodule(ctx, r, 6, stats, open_f)
        check_loops(ctx, r, 30, stats, open_f)
        return any(not v[1] for v in ctx.violations[before:])

    res = common.proof_gate(ctx, search)
    if not os.path.exists(common.harness_bin(PROP)):
        return ctx.finish(res, trusted=common.TRUSTED_COMMON)
    rng = ctx.rng
    steps = [
        ("corpus", lambda: run_corpus(ctx, stats, open_f)),
        ("kernels", lambda: check_kernels(ctx, rng.fork(), ctx.scale(2000, 60000), stats, open_f)),
        ("strings", lambda: check_strings(ctx, rng.fork(), ctx.scale(70, 1500), stats, open_f)),
        ("layouts", lambda: check_layouts(ctx, rng.fork(), ctx.scale(40, 1500), stats, open_f)),
        ("matches", lambda: check_matches(ctx, rng.fork(), ctx.scale(100, 4000), stats, open_f)),
        ("multimodule", lambda: check_multimodule(ctx, rng.fork(), ctx.scale(8, 250), stats, open_f)),
        ("gates", lambda: check_gates(ctx, stats, open_f)),
        ("bounds", lambda: check_bounds(ctx, stats, open_f)),
        ("member-refs", lambda: check_member_refs(ctx, rng.fork(), stats, open_f)),
        ("loops", lambda: check_loops(ctx, rng.fork(), ctx.scale(40, 1200), stats, open_f)),
        ("generated", lambda: check_generated(ctx, rng.fork(), ctx.scale(24, 600), stats, open_f)),
        ("mutants", lambda: check_mutants(ctx, rng.fork(), ctx.scale(160, 6000), stats, open_f)),
        ("gate", lambda: check_gate(ctx, stats)),
    ]
    for name, f in steps:
        if len(ctx.violations) > 3:
            break
        f()
    evaluations = (stats.get("layout_cases", 0) + stats["kernel_lines"] + stats["str_cases"] + stats["match_cases"] + stats["mutants"] +
                   stats["generated"] + stats["mm_bases"] + stats["mm_mutants"] + stats["corpus"] + stats.get("loop_programs", 0) + stats.get("member_refs", 0) + stats.get("bound_programs", 0) + stats.get("gate_programs", 0))
    nontrivial = (stats.get("gate_accepted", 0) + stats.get("bound_accepted", 0) + stats.get("member_refs_accepted", 0) + stats.get("loop_programs", 0) + stats["mutants_accepted"] + stats["generated_accepted"] + stats["mm_bases"] + stats["mm_mutants_accepted"] +
                  stats["match_acc"].get("1", 0) + stats["str_hist"].get("closed", 0))
    gl = stats.pop("gate_lines")
    ctx.cov.update({
        "evaluations": evaluations, "distinct_nontrivial": nontrivial,
        "rule": "evaluations = kernel lines + string-literal programs + generated matches + sample/std mutants + generated programs + nested-loop programs + multi-module bases and cross-module mutants + corpus; non-trivial = programs the real checker ACCEPTED that were then compiled in-process, validated by wasmparser and executed on both back ends under Node (accepted mutants, generated programs, accepted matches, closed string literals)",
        "samples": stats.pop("samples"), "traces_validated_against_impl": stats.get("layout_cases", 0) + stats["kernel_lines"] + stats["str_cases"] + stats["match_cases"] + len(gl),
        "stats": stats,
        "pending": ["type soundness of the checker and well-typedness of the whole wasm lowering are not proved (oracle only); proved kernels: compile gate, pattern lowering + bindings, enum representation/destructuring casts, bounds validation, cast insertion for erased context parameters, use-collector liveness corollaries",
                    "Model/EnumRepr.lean layoutOf is the closed form of the variant loop (tied by the layout stream), not a statement-by-statement mirror",
                    "Model/CastInsert.lean is tied through wasmparser validation of the 38 method-as-value controls (no line protocol of its own); dynamic safety of the inserted ref.cast (the receiver really has the class type) is not stated",
                    "liveness: corollaries on C02's DCE use-collector model; the separate collectors of unused_name_elimination.rs / lir_unused_name_elimination.rs (global strings, function names, types) have no model of their own - covered by the sole-reference family",
                    "freshness of field-access temporaries / variable_cx scoping of lower_matching_pattern",
                    "C03-F10 open (golden test pins the acceptance)",
                    "identifier-swap mutation sites are sampled (6000 of 19.7k per thorough run)"]})
    ctx.assumptions += ["Node >= 22 and wasmparser 0.252 (all proposals on) as validation/execution oracles",
                        "match tie: checker-resolved tag_order/field_order are computed by the generator the way main_checker.rs does (index of the name)"]
    return ctx.finish(res, trusted=common.TRUSTED_COMMON + [
        "hand-written models Model/CompileGate.lean, Model/MatchLower.lean (tree-shaped HIR fragment, temporaries unnamed); imported models Model/Useful.lean (C07), Model/OptKernel.lean (C02), Model/Backends.lean (C04)",
        "execution oracle: Node >= 22 (V8) instantiates and runs the emitted wasm and the type-stripped TS; wasmparser validates the bytes",
        "mutation operators and program generators decide coverage, not soundness"])


def replay(ctx, path):
    common.build_harness(PROP); common.build_lean(["drv-c03"])
    data = json.load(open(path))
    r = data.get("replay", data)
    if "program" in r:
        a = eval_programs([r["program"]])[0]
        print(json.dumps(a, indent=1)[:3000])
        fails = judge(a) if a.get("nerr", 1) == 0 else []
        for k, d in fails:
            print(f"GOES-WRONG {k}: {d}")
        if r.get("protocol") == "match" and "line" in r:
            print("model:", run_model([r["line"]])[0])
        return 1 if fails else 0
    if "line" in r:
        a, m = run_impl([r["line"]])[0], run_model([r["line"]])[0]
        print(f"{r['line']}\n impl={a}\n model={m}")
        return 1 if (a != m or a == "panic") else 0
    if "raw" in r:
        a = eval_programs([str_prog(r["raw"])])[0]
        print(impl_str_answer(a), run_model(["str " + hexs(r["raw"])])[0])
        return 1 if impl_str_answer(a) == "open" else 0
    print(json.dumps(data, indent=1)[:3000])
    return 1
