"""C05 — any input text yields a result or diagnostics, never a crash or a hang.

Proof: lean/SamVerif/Props/C05.lean over the scanner model Model/Lexer.lean (+ parser progress
skeletons Model/ParserLoops.lean).  Tie, re-checked on every run:
  * translators extract/c05_keywords.py (token tables -> Generated/Keywords.lean) and
    extract/c05_parser_loops.py (which recovery arms consume a token -> Generated/ParserLoops.lean),
  * protocol `lex`: the real TokenProducer (hook H6, harness/src/bin/c05.rs) and the Lean model
    (Driver/C05.lean) tokenise the same texts; kinds, texts, spans, syntax errors and panics must be
    equal.
Direct implementation-side oracle (no model involved):
  * on every `lex` answer: no panic, at most one token per byte, every `error` token and every
    integer above 2^31 has its syntax error,
  * protocol `full`: parse -> print -> type check -> text + IDE diagnostics -> compile_sources on one
    or several modules under catch_unwind, 64 MiB stacks and a watchdog: must end `ok`.
"""
import json, os, re, subprocess, sys, glob, threading
from . import common
from .common import hexs, unhex

PROP = "C05"
EMPTY_DOC = "/**/"
TWO31 = 2147483648

# ----------------------------------------------------------------------------------------------
# vocabulary (the token tables come from the translator's output, so a changed table changes the
# soup as well)

def load_vocab():
    path = os.path.join(common.LEAN, "SamVerif", "Generated", "Keywords.lean")
    kws, ops, cur = [], [], None
    for line in open(path, encoding="utf-8"):
        if line.startswith("def keywords"):
            cur = kws
        elif line.startswith("def operators"):
            cur = ops
        m = re.match(r"\s*\(\[([0-9, ]*)\], \[", line)
        if m and cur is not None:
            cur.append(bytes(int(x) for x in m.group(1).split(",") if x.strip()).decode())
    return kws, ops


UNI_WS = ["\u00a0", "\u0085", "\u1680", "\u2000", "\u2003", "\u200a", "\u2028", "\u2029", "\u202f", "\u205f", "\u3000"]
NON_ASCII = ["\u00e9", "\u00df", "\u65e5", "\u672c", "\U0001d538", "\U0001f600", "\u0301", "\u07ff", "\u0800", "\uffff",
             "\U00010000", "\u200b", "\ufeff", "\u0084", "\u2027", "\u200b", "\u3001"]
ODD_ASCII = ["\x00", "\x0b", "\x0c", "\x7f", "\x1b", "@", "#", "$", "^", "~", "`", "'", "\\", "&"]
INTS = ["0", "1", "7", "42", "007", "2147483647", "2147483648", "2147483649", "4294967296", "9223372036854775807",
        "9223372036854775808", "99999999999999999999", "-2147483648", "- 2147483648", "-/*c*/2147483648"]
WS = [" ", " ", " ", "\n", "\t", "\r\n", "\r", "\x0c", "  ", "\n\n"]


def gen_string_lit(rng):
    parts = ['"']
    for _ in range(rng.below(8)):
        parts.append(rng.weighted([("a", 6), (" ", 2), ("\\n", 2), ("\\\"", 3), ("\\\\", 3), ("\\q", 1), ("\\", 1),
                                   (rng.pick(NON_ASCII), 2), ("/*", 1), ("//", 1), ("\\t", 1), ("\\é", 1), ("'", 1)]))
    parts.append(rng.weighted([('"', 8), ("", 1), ("\n", 1), ('\\"', 1)]))
    return "".join(parts)


def gen_comment(rng):
    k = rng.below(10)
    body = "".join(rng.weighted([("a", 5), (" ", 4), ("*", 3), ("\n", 2), (" * ", 2), ("\t", 1), ("\r\n", 1), ("/", 2),
                                 (rng.pick(UNI_WS), 2), (rng.pick(NON_ASCII), 2), ("\"", 1), ("**", 1)])
                   for _ in range(rng.below(9)))
    if k < 3:
        return "//" + body.replace("\n", " ") + rng.pick(["\n", "\r\n", ""])
    if k < 6:
        return "/*" + body.replace("*/", "* /") + rng.pick(["*/", "*/", "*/", "", "*"])
    if k < 9:
        return "/**" + body.replace("*/", "* /") + rng.pick(["*/", "*/", "*/", "", "/"])
    return rng.pick(["/***/", "/** */", "/* */", "/*/", "/**", "/*", "/*\n*/", "/**\n*/", "/****/", "//", "///", "/* /**/ x"])


def gen_soup(rng, vocab, n):
    kws, ops = vocab
    out = []
    for _ in range(n):
        k = rng.weighted([("kw", 10), ("op", 22), ("id", 14), ("int", 8), ("str", 8), ("com", 9), ("ws", 22),
                          ("uni", 3), ("odd", 4), ("glue", 4)])
        if k == "kw":
            out.append(rng.pick(kws) + rng.pick(["", "", "", " ", "x", "1", "_"]))
        elif k == "op":
            out.append(rng.pick(ops))
        elif k == "id":
            out.append(rng.pick(["a", "b1", "Foo", "X", "fooBar9", "int1", "classy", "Str", "main", "zZ"]))
        elif k == "int":
            out.append(rng.pick(INTS))
        elif k == "str":
            out.append(gen_string_lit(rng))
        elif k == "com":
            out.append(gen_comment(rng))
        elif k == "ws":
            out.append(rng.pick(WS))
        elif k == "uni":
            out.append(rng.pick(UNI_WS + NON_ASCII))
        elif k == "odd":
            out.append(rng.pick(ODD_ASCII))
        else:
            out.append(rng.pick(["&&", "&", "||", "|", "...", "..", "->", "-", "::", ":", "<=", ">=", "==", "!=", "=", "!",
                                 "(a,)", "(a, b)", "(a)", "()", "(a,) ->", "(" + ", ".join(["a"] * rng.pick([16, 17])) + ")"]))
    return "".join(out)


def gen_random_text(rng, n):
    """random scalar values (valid UTF-8 by construction), ASCII punctuation heavy"""
    out = []
    for _ in range(n):
        k = rng.below(20)
        if k < 9:
            out.append(chr(rng.range(32, 126)))
        elif k < 12:
            out.append(rng.pick('"/*\\\n -&|.'))
        elif k < 14:
            out.append(chr(rng.range(0, 31)))
        elif k < 16:
            out.append(chr(rng.range(0x80, 0x7ff)))
        elif k < 18:
            c = rng.range(0x800, 0xffff)
            out.append(chr(c) if not (0xd800 <= c <= 0xdfff) else "\u3000")
        elif k < 19:
            out.append(chr(rng.range(0x10000, 0x10ffff)))
        else:
            out.append(rng.pick(UNI_WS))
    return "".join(out)


TOKEN_RE = re.compile(r'"(?:[^"\\\n]|\\.)*"|//[^\n]*|/\*.*?\*/|[A-Za-z][A-Za-z0-9]*|[0-9]+|\s+|->|::|<=|>=|==|!=|&&|\|\||\.\.\.|.', re.S)


def mutate(rng, text, vocab):
    kws, ops = vocab
    toks = TOKEN_RE.findall(text)
    if not toks:
        toks = [""]
    for _ in range(rng.range(1, 4)):
        k = rng.below(12)
        i = rng.below(len(toks))
        if k == 0:
            del toks[i]
        elif k == 1:
            toks.insert(i, toks[i])
        elif k == 2:
            j = rng.below(len(toks)); toks[i], toks[j] = toks[j], toks[i]
        elif k == 3:
            toks[i] = rng.pick(kws + ops)
        elif k == 4:
            toks.insert(i, rng.pick(ops + ["(", ")", "{", "}", "[", "]", ",", ";", '"', "/*", "*/", "//", "\\"]))
        elif k == 5:
            toks = toks[:i]                      # truncation
        elif k == 6:
            j = min(len(toks), i + rng.range(1, 12)); del toks[i:j]
        elif k == 7:
            toks[i] = rng.pick(INTS + NON_ASCII + UNI_WS + ODD_ASCII)
        elif k == 8:                             # character-level: drop / double / replace one char
            t = toks[i]
            if t:
                c = rng.below(len(t))
                toks[i] = t[:c] + rng.pick(["", t[c] * 2, rng.pick(NON_ASCII), "\n"]) + t[c + 1:]
        elif k == 9:
            toks[i] = gen_string_lit(rng)
        elif k == 10:
            toks[i] = gen_comment(rng)
        else:
            toks.insert(i, rng.pick(["if", "else", "match", "->", "let", "val", "class", "function", "<", ">", "="]))
        if not toks:
            toks = [""]
    return "".join(toks)


def wrap_expr(e):
    return "class Main { function main(): unit = { let _ = " + e + "; } }"


def gen_deep(rng, depth):
    d = rng.range(max(1, depth // 4), depth)
    k = rng.below(16)
    forms = [
        lambda: wrap_expr("(" * d + "1" + ")" * d),
        lambda: wrap_expr("!" * d + "true"),
        lambda: wrap_expr("-" * d + "1"),
        lambda: wrap_expr("f(" * min(d, 150) + "1" + ")" * min(d, 150)),
        lambda: wrap_expr("{ let a = " * d + "1" + "; }" * d),
        lambda: wrap_expr("if true then 1 else " * min(d, 300) + "1"),
        lambda: wrap_expr("1" + "+1" * d),
        lambda: wrap_expr("a" + ".b" * d),
        lambda: wrap_expr("() -> " * d + "1"),
        lambda: wrap_expr("(" * d + "1, 2" + ")" * d),
        lambda: "class Main { function main(a: " + "List<" * min(d, 300) + "int" + ">" * min(d, 300) + "): unit = {} }",
        lambda: "class Main { function main(a: " + "() -> " * d + "int): unit = {} }",
        lambda: wrap_expr("(" * d),
        lambda: "class Main { function main(): unit = " + "{" * d,
        lambda: wrap_expr("match (x) { A(_) -> " * min(d, 300) + "1" + " }" * min(d, 300)),
        lambda: wrap_expr('"a"' + '::"a"' * d),
    ]
    return forms[k]()


ARITIES = [0, 1, 2, 3, 15, 16, 17, 18, 33]


def gen_arity(rng):
    """tuple-capable positions x arities 0,1,2,16,17,.. x element shapes x trailing comma"""
    n = rng.pick(ARITIES)
    tc = rng.pick(["", "", ",", ", "])
    kind = rng.below(5)
    elems = {0: ["a"] * n, 1: [f"a{i}" for i in range(n)], 2: ["1"] * n, 3: ["a + 1"] * n, 4: ["a.b", "f(a)", "(a, a)", "a"][:1] * n}[kind]
    lst = ", ".join(elems) + (tc if n else "")
    wrap = lambda e: "class Main { function main(): unit = { let a = 1; let u = " + e + "; } }"
    pos = rng.below(12)
    if pos == 0:
        return wrap("(" + lst + ")")
    if pos == 1:
        return wrap("(" + lst + ") -> 1")
    if pos == 2:
        return wrap("f(" + lst + ")")
    if pos == 3:
        return wrap("1; let (" + ", ".join(["x"] * n if kind == 0 else [f"x{i}" for i in range(n)]) + (tc if n else "") + ") = a")
    if pos == 4:
        return wrap("match a { A(" + ", ".join(["_"] * n) + (tc if n else "") + ") -> 1 }")
    if pos == 5:
        return "class Main { function f(x: (" + ", ".join(["int"] * n) + (tc if n else "") + ") -> int): unit = {} }"
    if pos == 6:
        return "class Main { function f(x: List<" + ", ".join(["int"] * n) + (tc if n else "") + ">): unit = {} }"
    if pos == 7:
        return "class Main { function f(" + ", ".join(f"a{i}: int" for i in range(n)) + (tc if n else "") + "): unit = {} }"
    if pos == 8:
        return "class Main(" + ", ".join(f"val a{i}: int" for i in range(n)) + (tc if n else "") + ") { }"
    if pos == 9:
        return "class Main(A(" + ", ".join(["int"] * n) + (tc if n else "") + "), B) { }"
    if pos == 10:
        return "class Main<" + ", ".join(f"T{i}" for i in range(n)) + (tc if n else "") + "> { function <" + ", ".join(f"R{i}" for i in range(n)) + "> f(): unit = {} }"
    return wrap("((" + lst + "), (" + lst + "))" + rng.pick(["", ".a", "(1)"]))


def avoid_open_signatures(text):
    """bulk streams stay away from open findings' signatures. C05-F1 (`/**/`) is fixed, so nothing
    is filtered any more; C05-F2 needs a well-typed program and is matched by its signature."""
    return text


# ----------------------------------------------------------------------------------------------
# protocol `lex`

def canon_impl(ans):
    return re.sub(r" P [0-9a-f-]+$", " P", ans)


def parse_lex(ans):
    """-> (tokens [(kind, text bytes, (l0,c0,l1,c1))], errors [(span, code)], panicked)"""
    m = re.match(r"T (\S+) E (\S+)( P.*)?$", ans)
    if not m:
        return None
    toks = []
    if m.group(1) != "-":
        for t in m.group(1).split(";"):
            k, r = t.split(":", 1)
            h, span = r.split("@")
            a, b = span.split("-")
            toks.append((k, unhex(h), tuple(int(x) for x in a.split(".") + b.split("."))))
    errs = []
    if m.group(2) != "-":
        for e in m.group(2).split(","):
            span, code = e.split(":")
            a, b = span.split("-")
            errs.append((tuple(int(x) for x in a.split(".") + b.split(".")), code))
    return toks, errs, bool(m.group(3))


def lex_oracle(text_bytes, ans):
    """Implementation-side check of C05 on one `lex` answer; returns a list of messages."""
    p = parse_lex(ans)
    if p is None:
        return [f"harness answer unreadable: {ans[:80]}"]
    toks, errs, panicked = p
    bad = []
    if panicked:
        m = re.search(r" P ([0-9a-f-]+)$", ans)
        bad.append("lexer panicked: " + (unhex(m.group(1)).decode("utf-8", "replace") if m else "?"))
    if len(toks) > len(text_bytes):
        bad.append(f"{len(toks)} tokens from {len(text_bytes)} bytes")
    es = set(errs)
    for k, t, span in toks:
        if k == "error" and (span, "tok") not in es:
            bad.append(f"error token at {span} without an 'Invalid token.' diagnostic")
        if k == "int" and t.isdigit() and int(t) >= TWO31 and (span, "int") not in es:
            bad.append(f"integer literal {t.decode()} at {span} without a 'Not a 32-bit integer.' diagnostic")
    return bad


def is_f1(text):
    return EMPTY_DOC.encode() in (text if isinstance(text, bytes) else text.encode())


def run_lex(texts):
    lines = ["lex " + hexs(t.encode() if isinstance(t, str) else t) for t in texts]
    impl, model = common.run_pair(PROP, lines)
    return lines, impl, model


def shrink_text(text, fails, budget=300):
    """delta debugging on lines, then on tokens, then on characters (each keeps valid UTF-8)"""
    cur = text
    if cur.count("\n") > 3:
        parts = cur.split("\n")
        cur = "\n".join(common.ddmin(parts, lambda c: fails("\n".join(c)), max_tests=budget * 2 // 3))
    toks = TOKEN_RE.findall(cur)
    if len(toks) > 1:
        cur = "".join(common.ddmin(toks, lambda c: fails("".join(c)), max_tests=budget))
    if len(cur) <= 400:
        cur = "".join(common.ddmin(list(cur), lambda c: fails("".join(c)), max_tests=budget))
    return cur


def check_lex_batch(ctx, texts, label, stats):
    lines, impl, model = run_lex(texts)
    f1 = next((f for f in ctx.open_findings if f["id"] == "C05-F1"), None)
    for i, t in enumerate(texts):
        tb = t.encode() if isinstance(t, str) else t
        a = impl[i] if i < len(impl) else "<missing>"
        b = model[i] if i < len(model) else "<missing>"
        orc = lex_oracle(tb, a) if not a.startswith("<") else [a]
        diff = canon_impl(a) != b
        if not orc and not diff:
            p = parse_lex(a)
            if p:
                for k, _, _ in p[0]:
                    stats["kinds"][k] = stats["kinds"].get(k, 0) + 1
                for _, c in p[1]:
                    stats["errs"][c] = stats["errs"].get(c, 0) + 1
            continue
        if stats["reported"] >= 3:
            continue
        ts = t if isinstance(t, str) else t.decode("utf-8", "replace")

        def fails_orc(c):
            if f1 and is_f1(c):
                return False
            _, i2, _ = run_lex([c])
            return bool(lex_oracle(c.encode(), i2[0]))

        def fails_diff(c):
            _, i2, m2 = run_lex([c])
            return canon_impl(i2[0]) != m2[0]

        if orc:
            if f1 and is_f1(tb) and not fails_orc(ts.replace(EMPTY_DOC, "/** */")):
                ctx.known(f1)
                continue
            small = shrink_text(ts, fails_orc) if fails_orc(ts) else ts
            if small in stats.setdefault("seen", set()):
                continue
            stats["seen"].add(small)
            _, i2, m2 = run_lex([small])
            stats["reported"] += 1
            ctx.violation("the lexer breaks C05 on this text: " + "; ".join(lex_oracle(small.encode(), i2[0]) or orc)[:300],
                          {"protocol": "lex", "label": label, "text": small, "hex": hexs(small.encode()),
                           "impl": i2[0], "model": m2[0]})
        else:
            small = shrink_text(ts, fails_diff)
            _, i2, m2 = run_lex([small])
            # search: does the implementation break the property itself near the disagreement?
            cands = [small, small + "\n", small + " x", ts]
            full = run_full([("Main", c) for c in cands])
            hit = next((c for c, r in zip(cands, full) if not r.startswith("ok ")), None)
            stats["reported"] += 1
            if hit is not None and not (f1 and is_f1(hit)):
                ctx.violation("pipeline breaks C05 on a text found while shrinking a lexer/model disagreement",
                              {"protocol": "full", "modules": [["Main", hit]], "impl": full[cands.index(hit)]})
            else:
                ctx.violation("model/implementation disagreement on protocol lex; no property-level failure found on the shrunk text",
                              {"protocol": "lex", "label": label, "text": small, "hex": hexs(small.encode()),
                               "impl": i2[0], "model": m2[0],
                               "broken": "correspondence `lex` (Model/Lexer.lean vs crates/samlang-parser/src/lexer.rs): the theorems of Props/C05.lean no longer speak about this code"},
                              no_input=True)


# ----------------------------------------------------------------------------------------------
# protocol `full`



def run_full(cases, timeout_ms=20000, workers=4, env_extra=None):
    """cases: list of [(module name, text), ...] or (name, text). Returns answers; a harness death
    (stack overflow / abort) is reported as `crash ...` for the case being processed."""
    norm = [c if isinstance(c, list) else [c] for c in cases]
    lines = ["full " + " ".join(f"{n} {hexs(t.encode())}" for n, t in c) for c in norm]
    answers = [None] * len(lines)

    def work(idx):
        pos = 0
        deaths = 0
        while pos < len(idx):
            if deaths >= 3:          # do not grind through a batch in which the harness keeps dying
                for i in idx[pos:]:
                    answers[i] = "skipped"
                break
            chunk = idx[pos:]
            p = subprocess.run([common.harness_bin(PROP)], input=("\n".join(lines[i] for i in chunk) + "\n").encode(),
                               stdout=subprocess.PIPE, stderr=subprocess.PIPE,
                               env=dict(os.environ, C05_TIMEOUT_MS=str(timeout_ms), **(env_extra or {})))
            out = [l for l in p.stdout.decode("utf-8", "replace").split("\n") if l]
            for k, a in enumerate(out[:len(chunk)]):
                answers[chunk[k]] = a
            if len(out) >= len(chunk):
                break
            deaths += 1
            if out and out[-1].startswith("timeout@"):
                pos += len(out)          # the harness leaves after reporting a timeout
                continue
            # the process died while working on chunk[len(out)]
            answers[chunk[len(out)]] = f"crash rc={p.returncode} {p.stderr.decode('utf-8', 'replace').strip()[-160:]}"
            pos += len(out) + 1

    parts = [list(range(w, len(lines), workers)) for w in range(workers)]
    threads = [threading.Thread(target=work, args=(p,)) for p in parts if p]
    for t in threads:
        t.start()
    for t in threads:
        t.join()
    return [a or "crash no-answer" for a in answers]


def describe_full(ans):
    m = re.match(r"(panic@\w+) ([0-9a-f-]+)$", ans)
    if m:
        return m.group(1) + ": " + unhex(m.group(2)).decode("utf-8", "replace")[:200]
    return ans[:200]


def full_signature(ctx, mods, ans):
    """known-finding matching for a failing `full` case"""
    text = "\n".join(t for _, t in mods)
    d = describe_full(ans)
    for f in ctx.open_findings:
        pass   # no open C05 finding has a signature any more (F1, F2, F3 are fixed: regressions are VIOLATIONs)
    return None


def check_full_batch(ctx, cases, label, stats, timeout_ms=20000, env_extra=None):
    answers = run_full(cases, timeout_ms, env_extra=env_extra)
    for c, a in zip(cases, answers):
        mods = c if isinstance(c, list) else [c]
        stats["full"][a.split(" ")[0]] = stats["full"].get(a.split(" ")[0], 0) + 1
        if a == "skipped":
            continue
        if a.startswith("ok "):
            m = re.search(r"syn=(\d+) errs=(\d+) printed=(\d) compiled=(\w+)", a)
            if m:
                key = ("syntax-error" if int(m.group(1)) else "type-error" if int(m.group(2)) else "compiled")
                stats["outcome"][key] = stats["outcome"].get(key, 0) + 1
            continue
        f = full_signature(ctx, mods, a)
        if f:
            ctx.known(f)
            continue
        if stats["reported"] >= 3:
            continue
        stats["reported"] += 1
        # shrink the first module's text (keeping the others) while the same class of failure remains
        cls = a.split(" ")[0]
        name0, text0 = mods[0]

        hang = cls.startswith("timeout")

        def fails(t):
            r = run_full([[(name0, t)] + list(mods[1:])], 1500 if hang else timeout_ms, workers=1, env_extra=env_extra)[0]
            return r.split(" ")[0] == cls and not full_signature(ctx, [(name0, t)] + list(mods[1:]), r)

        small = text0
        if len(text0) <= 60000:
            small = shrink_text(text0, fails, budget=40 if hang else 300)
        final = [[name0, small]] + [list(m) for m in mods[1:]]
        r = run_full([[tuple(m) for m in final]], timeout_ms, workers=1, env_extra=env_extra)[0]
        ctx.violation("the pipeline breaks C05 (crash/hang instead of result-or-diagnostics): " + describe_full(r),
                      {"protocol": "full", "label": label, "modules": final, "impl": r, "impl_decoded": describe_full(r),
                       "env": env_extra or {}})


# ----------------------------------------------------------------------------------------------

# ----------------------------------------------------------------------------------------------
# entry-point decision table (deterministic): what counts as a program entry point, each dimension varied one at a
# time + a few pairs; bodies of generic variants use every in-scope type parameter in a lambda parameter, a generic
# call and a local annotation.  Every module in turn is the entry point.  Expected column = Model/EntryPoint.lean
# (`moduleHasEntry`, asked through the driver) from the row's declaration facts.

def entry_table():
    P = 'Process.println("x")'
    IMP = "import { Option } from std.option\n"
    BOX = "class Box<A>(val a: A) { function <A> make(a: A): Box<A> = Box.init(a) }\n"

    def gbody(vs):
        v0 = vs[0]
        params = ", ".join(f"x{i}: {v}" for i, v in enumerate(vs))
        locs = " ".join(f"let o{i}: Option<{v}> = Option.None<{v}>(); let _ = o{i};" for i, v in enumerate(vs))
        return "{ let f = (" + params + f") -> x0; {locs} let b = Box.make(f); let _ = b; " + P + " }"
    # spec of a module = list of classes "isMainType:nClassTparams:member,member" with members "<isMainName><isMethod><nParams><nTparams>"
    rows = [
        ("canonical", {"Main": (f"class Main {{ function main(): unit = {P} }}", "1:0:1000")}),
        ("class-name-other", {"Main": (f"class Main2 {{ function main(): unit = {P} }}", "0:0:1000")}),
        ("interface-Main", {"Main": ("interface Main { method main(): unit }", "")}),
        ("fn-name-other", {"Main": (f"class Main {{ function main2(): unit = {P} }}", "1:0:0000")}),
        ("method-main", {"Main": (f"class Main {{ method main(): unit = {P} }}", "1:0:1100")}),
        ("arity-1", {"Main": (f"class Main {{ function main(a: int): unit = {P} }}", "1:0:1010")}),
        ("returns-int", {"Main": ("class Main { function main(): int = 1 }", "1:0:1000")}),
        ("returns-str", {"Main": ('class Main { function main(): Str = "s" }', "1:0:1000")}),
        ("generic-unused", {"Main": (f"class Main {{ function <T> main(): unit = {P} }}", "1:0:1001")}),
        ("generic-used", {"Main": (IMP + BOX + f"class Main {{ function <T> main(): unit = {gbody(['T'])} }}", "0:1:0011/1:0:1001")}),
        ("generic-two", {"Main": (IMP + BOX + f"class Main {{ function <T, R> main(): unit = {gbody(['T', 'R'])} }}", "0:1:0011/1:0:1002")}),
        ("generic-class-static-main", {"Main": (IMP + BOX + "class Main<T>(val t: Option<T>) { function main(): unit = " + P
                                                + f" function <T> other(): unit = {gbody(['T'])} }}", "0:1:0011/1:1:1000,0001")}),
        ("generic-class-method-main", {"Main": (IMP + BOX + f"class Main<T>(val t: Option<T>) {{ method main(): unit = {gbody(['T'])} }}", "0:1:0011/1:1:1100")}),
        ("generic-method-main", {"Main": (IMP + BOX + f"class Main {{ method <T> main(): unit = {gbody(['T'])} }}", "0:1:0011/1:0:1101")}),
        ("generic-class-generic-method-main", {"Main": (IMP + BOX + f"class Main<T>(val t: Option<T>) {{ method <R> main(): unit = {gbody(['T', 'R'])} }}", "0:1:0011/1:1:1101")}),
        ("private-fn", {"Main": (f"class Main {{ private function main(): unit = {P} }}", "1:0:1000")}),
        ("private-class", {"Main": (f"private class Main {{ function main(): unit = {P} }}", "1:0:1000")}),
        ("private-generic", {"Main": (IMP + BOX + f"class Main {{ private function <T> main(): unit = {gbody(['T'])} }}", "0:1:0011/1:0:1001")}),
        ("two-modules-with-Main", {"Main": (f"class Main {{ function main(): unit = {P} }}", "1:0:1000"),
                                   "Other": ('class Main { function main(): unit = Process.println("o") }', "1:0:1000")}),
        ("entry-module-without-Main", {"Main": ("class Helper { function h(): int = 1 }", "0:0:0000"),
                                       "Other": (f"class Main {{ function main(): unit = {P} }}", "1:0:1000")}),
        ("Main-without-main", {"Main": ("class Main { function notMain(): int = 1 }", "1:0:0000")}),
        ("main-in-imported-module", {"Main": ("import { Lib } from Other\nclass Main { function main(): unit = Lib.go() }", "1:0:1000"),
                                     "Other": (f"class Lib {{ function go(): unit = {P} }} class Main {{ function main(): unit = {P} }}", "0:0:0000/1:0:1000")}),
        ("generic-main-in-other-module", {"Main": (f"class Main {{ function main(): unit = {P} }}", "1:0:1000"),
                                          "Other": (IMP + BOX + f"class Main {{ function <T> main(): unit = {gbody(['T'])} }}", "0:1:0011/1:0:1001")}),
        ("main-plus-generic-helper", {"Main": (IMP + BOX + "class Main { function <T> helper(x: T): Box<T> = Box.make(x) function main(): unit = "
                                               "{ let _ = Main.helper(1); let _ = Main.helper(\"s\"); " + P + " } }", "0:1:0011/1:0:0011,1000")}),
        ("empty-module", {"Main": ("", "")}),
        ("static-main-and-method-main2", {"Main": (f"class Main {{ function main(): unit = {P} method main2(): unit = {P} }}", "1:0:1000,0100")}),
    ]
    return rows


def check_entry_table(ctx, stats):
    rows = entry_table()
    try:
        common.build_exec()
    except common.BuildError as e:
        ctx.violation("exec oracle no longer builds", {"broken": e.what, "log": e.log[-1500:]}, no_input=True)
        return 0
    progs, keys, specs = [], [], []
    for name, mods in rows:
        for entry in mods:
            progs.append({"sources": {m: t for m, (t, _) in mods.items()}, "entry": entry, "std": True, "ts": True, "timeout_ms": 10000})
            keys.append((name, entry)); specs.append(mods[entry][1])
    answers = common.exec_programs(progs)
    rc, model, _ = common.run_exec(common.driver_bin(PROP), [], ["entry " + (sp or "0:0:0000") for sp in specs])
    for (name, entry), prog, a, sp, want in zip(keys, progs, answers, specs, model + ["?"] * len(specs)):
        stats["entry"][a.get("compile", "?")] = stats["entry"].get(a.get("compile", "?"), 0) + 1
        bad = None
        w, t = a.get("wasm") or {}, a.get("ts") or {}
        no_node = str(w.get("end", "")).startswith("no-node")
        missing_main = lambda r: str(r.get("end", "")).startswith("load-error") and "main" in str(r.get("end"))
        if a.get("compile") == "panic":
            bad = f"compile_sources panicked on an accepted program: {a.get('msg', '')[:160]}"
        elif a.get("compile") == "errors":
            bad = f"a table row is rejected ({a.get('msg', '')[:120]}): the table itself is wrong"
        elif not no_node and want == "1" and not (w.get("end") == "ok" and t.get("end") == "ok"):
            bad = f"the module has an entry point by the documented rule, but the emitted program ends wasm={w.get('end')} ts={t.get('end')}"
        elif not no_node and want == "0" and not (missing_main(w) and missing_main(t)):
            bad = (f"the module has NO entry point by the documented rule (Main.main must be a static, parameterless, non-generic function), "
                   f"but the emitted program ends wasm={w.get('end')} ts={t.get('end')}")
        if bad and stats["reported"] < 3:
            stats["reported"] += 1
            ctx.violation(f"entry-point decision table, row `{name}` with entry module {entry}: {bad}",
                          {"protocol": "entry", "row": name, "program": prog, "answer": a, "model_isEntry": want})
    return len(progs)


# ----------------------------------------------------------------------------------------------
# "every token kind at every loop position": for each parser loop a minimal valid construct with each token of the
# lexer vocabulary injected before / after each step of the loop body.  A recovery arm that stops consuming makes
# one of these spin: the per-case watchdog turns the hang into a concrete input.

def loop_token_family(vocab):
    kws, ops = vocab
    toks = list(kws) + list(ops) + ["1", '"s"', "a", "A", "#", "@", "é", '"abc', "/* c */", "// c\n", "2147483648", "\x0b"]
    W = lambda body: "class Main { function main(): unit = { let x = 1; let _ = " + body + "; } }"
    # `\x00` marks the injection slot
    templates = {
        "match-cases": [W("match (x) { \x00 A -> 1, B -> 2 }"), W("match (x) { A \x00 -> 1, B -> 2 }"), W("match (x) { A -> \x00 1, B -> 2 }"),
                        W("match (x) { A -> 1 \x00 , B -> 2 }"), W("match (x) { A -> 1, \x00 B -> 2 }"), W("match (x) { A -> 1, B -> 2 \x00 }"),
                        W("match (x) { A -> 1, B -> 2, \x00 }"), W("match (x) \x00 { A -> 1 }")],
        "block-statements": ["class Main { function main(): unit = { \x00 let a = 1; a } }", "class Main { function main(): unit = { let a = 1; \x00 a } }",
                             "class Main { function main(): unit = { let a = 1 \x00 ; a } }", "class Main { function main(): unit = { let a = 1; a \x00 } }",
                             "class Main { function main(): unit = { let \x00 a = 1; a } }", "class Main { function main(): unit = { f(); \x00 g(); } }"],
        "comma-lists": [W("f(\x00 1, 2)"), W("f(1 \x00 , 2)"), W("f(1, \x00 2)"), W("f(1, 2 \x00 )"), W("(1, \x00 2)"), W("f<int, \x00 bool>(1)"),
                        "class Main(val a: int, \x00 val b: int) { }", "class Main { function f(a: int, \x00 b: int): unit = {} }",
                        "class Main(A(int, \x00 bool), \x00 B) { }", W("{ let (a, \x00 b) = x; 1 }"), W("{ let {a, \x00 b} = x; 1 }"), W("(a, \x00 b) -> 1")],
        "class-members": ["class Main { \x00 function f(): unit = {} function g(): unit = {} }", "class Main { function f(): unit = {} \x00 function g(): unit = {} }",
                          "class Main { function f(): unit = {} function g(): unit = {} \x00 }", "class Main { function \x00 f(): unit = {} }",
                          "interface I { \x00 method m(): int method n(): int }", "interface I { method m(): int \x00 method n(): int }"],
        "toplevel": ["\x00 class A {} class B {}", "class A {} \x00 class B {}", "class A {} class B {} \x00", "class \x00 A {}", "class A \x00 {}",
                     "private \x00 class A {}", "interface I \x00 {}"],
        "imports": ["\x00 import { A } from b.C\nclass M {}", "import \x00 { A } from b.C\nclass M {}", "import { A, \x00 B } from b.C\nclass M {}",
                    "import { A } \x00 from b.C\nclass M {}", "import { A } from \x00 b.C\nclass M {}", "import { A } from b. \x00 C\nclass M {}",
                    "import { A } from b.C \x00\nclass M {}", "import { A } from b.C\n\x00 import { D } from e\nclass M {}"],
        "or-patterns-and-ifs": [W("match (x) { A(_) | \x00 B(_) -> 1 }"), W("if \x00 x { 1 } else { 2 }"), W("if x { 1 } \x00 else { 2 }"),
                                W("if x { 1 } else \x00 if y { 2 } else { 3 }"), W("if let \x00 A(v) = x { 1 } else { 2 }"), W("a.\x00b.c"), W("a \x00 + b * c")],
    }
    out = []
    for loop, ts in templates.items():
        for ti, t in enumerate(ts):
            for tok in toks:
                out.append((f"{loop}#{ti}", t.replace("\x00", " " + tok + " ")))
            out.append((f"{loop}#{ti}", t.split("\x00")[0]))          # EOF at the slot
    return out


def check_loop_family(ctx, vocab, stats, label, watchdog_ms=3000, every=1, offset=0):
    fam = loop_token_family(vocab)[offset::every]
    cases = [[("Main", t)] for _, t in fam]
    answers = run_full(cases, watchdog_ms)
    n_bad = 0
    for (slot, t), a in zip(fam, answers):
        stats["full"]["loop-" + a.split(" ")[0]] = stats["full"].get("loop-" + a.split(" ")[0], 0) + 1
        if a.startswith("ok ") or a == "skipped":
            continue
        n_bad += 1
        if stats["reported"] < 3:
            stats["reported"] += 1
            ctx.violation(f"the pipeline breaks C05 on a token injected into a parser loop ({slot}): " + describe_full(a),
                          {"protocol": "full", "label": label, "modules": [["Main", t]], "impl": a, "impl_decoded": describe_full(a), "loop_slot": slot})
    return len(cases), n_bad


def repo_sources():
    out = []
    for f in sorted(glob.glob(os.path.join(common.REPO, "tests", "*.sam"))) + sorted(glob.glob(os.path.join(common.REPO, "std", "*.sam"))):
        name = ("tests." if os.sep + "tests" + os.sep in f else "std.") + os.path.basename(f)[:-4]
        try:
            out.append((name, open(f, encoding="utf-8").read()))
        except (OSError, UnicodeDecodeError):
            pass
    return out


def run_extractor(ctx, scripts=("c05_keywords.py", "c05_parser_loops.py"), deferred=None):
    """Runs the translators.  A failure (source shape changed) is a broken tie: recorded at once as a
    no-failing-input violation, or - when `deferred` is a list - handed back so that the caller can first search for
    a concrete failing input."""
    ok = True
    for script in scripts:
        rc, out = common.sh([sys.executable, os.path.join(common.VERIF, "extract", script)], cwd=common.VERIF)
        if rc != 0:
            ok = False
            item = (f"translator extract/{script} can no longer read the source it models: " + out.strip()[-300:],
                    {"broken": f"extract/{script} -> lean/SamVerif/Generated", "log": out[-2000:]})
            if deferred is not None:
                deferred.append(item)
            else:
                ctx.violation(item[0], item[1], no_input=True)
    return ok


def read_corpus(prop):
    cdir = os.path.join(common.VERIF, "corpus", prop)
    lex, full = [], []
    for f in sorted(os.listdir(cdir)) if os.path.isdir(cdir) else []:
        for l in open(os.path.join(cdir, f), encoding="utf-8"):
            l = l.rstrip("\n")
            if not l or l.startswith("#"):
                continue
            t = l.split(" ")
            if t[0] == "lex" and len(t) == 2:
                lex.append(unhex(t[1]).decode())
            elif t[0] == "text":                  # text <json string>
                lex.append(json.loads(l[5:]))
            elif t[0] == "full":
                full.append([(t[i], unhex(t[i + 1]).decode()) for i in range(1, len(t) - 1, 2)])
            elif t[0] == "fulltext":              # fulltext <json [[name, text], ...]>
                full.append([tuple(m) for m in json.loads(l[9:])])
    return lex, full


def run(ctx):
    rng = ctx.rng
    broken_ties = []
    extractor_ok = run_extractor(ctx, deferred=broken_ties)
    stats = {"kinds": {}, "errs": {}, "full": {}, "outcome": {}, "reported": 0, "entry": {}}

    def search():
        # a broken proof/tie: look for a concrete failing input with the implementation-side oracle
        try:
            vocab = load_vocab()
        except Exception:
            return False
        before = len(ctx.violations)
        # a changed parser-loop shape / broken progress proof: every token kind at every loop position, first
        check_loop_family(ctx, vocab, stats, "search after broken proof/tie: loop-token family", watchdog_ms=2500)
        if len(ctx.violations) > before:
            return True
        # the regression corpus (it holds the inputs on which a non-consuming recovery arm spins)
        _, cfull0 = read_corpus(PROP)
        check_full_batch(ctx, cfull0, "search after broken proof: corpus", stats, timeout_ms=3000)
        if len(ctx.violations) > before:
            return True
        r2 = common.Rng(ctx.seed * 7919 + 5)
        texts = [avoid_open_signatures(gen_soup(r2.fork(), vocab, r2.range(1, 30))) for _ in range(1500)]
        answers = run_full([("Main", t) for t in texts])
        for t, a in zip(texts, answers):
            if not a.startswith("ok ") and not full_signature(ctx, [("Main", t)], a):
                check_full_batch(ctx, [("Main", t)], "search after broken proof", stats)
                break
        return len(ctx.violations) > before

    res = common.proof_gate(ctx, search)
    if broken_ties:
        # a translator could not read its source: search for a concrete failing input before reporting the broken tie
        found = False
        if os.path.exists(common.harness_bin(PROP)):
            try:
                found = search()
            except Exception:
                found = False
        if not found:
            for what, payload in broken_ties:
                ctx.violation(what, payload, no_input=True)
    if not os.path.exists(common.harness_bin(PROP)) or not os.path.exists(common.driver_bin(PROP)):
        return ctx.finish(res, trusted=common.TRUSTED_COMMON)
    vocab = load_vocab()
    sources = repo_sources()

    # 1. corpus + one probe per open finding
    clex, cfull = read_corpus(PROP)
    check_lex_batch(ctx, clex, "corpus", stats)
    check_full_batch(ctx, cfull, "corpus", stats)
    probes_lex = [EMPTY_DOC, "class A {} /**/"]
    lines, impl, model = run_lex(probes_lex)
    f1 = next((f for f in ctx.open_findings if f["id"] == "C05-F1"), None)
    for t, a, b in zip(probes_lex, impl, model):
        if lex_oracle(t.encode(), a):
            if f1:
                ctx.known(f1)
            else:
                check_lex_batch(ctx, [t], "probe", stats)
        if canon_impl(a) != b:
            check_lex_batch(ctx, [t], "probe", stats)
    probes_full = [[("Main", "class Main { function main(): unit = {} } /**/")],
                   [("Main", "class Main { function main(): unit = { Process.println(Str.fromInt(2147483647 + 1)) } }")]]
    check_full_batch(ctx, probes_full, "probe", stats)

    # 1b. every token kind at every position of every parser loop (deterministic; hang = watchdog = concrete input)
    loop_cases = 0
    if not ctx.violations:
        # quick: a third of the family (the slice rotates with the seed; the match-case and class-member slots of the
        # keyword tokens are always in); thorough and the broken-tie search: all of it
        loop_cases, _ = check_loop_family(ctx, vocab, stats, "loop-token family", watchdog_ms=ctx.scale(3000, 10000),
                                          every=ctx.scale(3, 1), offset=ctx.seed % ctx.scale(3, 1))

    # 2. `lex` correspondence + lexer oracle: three streams
    n_lex = ctx.scale(4000, 300000)
    done = 0
    distinct = set()
    nontrivial = 0
    samples = []
    gen_hist = {"random": 0, "soup": 0, "mutation": 0}
    while done < n_lex and not ctx.violations:
        batch = []
        for _ in range(min(1500, n_lex - done)):
            k = rng.weighted([("random", 3), ("soup", 5), ("mutation", 2)])
            r = rng.fork()
            if k == "random":
                t = gen_random_text(r, r.range(0, ctx.scale(60, 400)))
            elif k == "soup":
                t = gen_soup(r, vocab, r.range(1, ctx.scale(40, 300)))
            else:
                name, src = r.pick(sources) if sources else ("x", "class A {}")
                if len(src) > 3000:
                    a = r.below(len(src) - 3000); src = src[a:a + 3000]
                t = mutate(r, src, vocab)
            gen_hist[k] += 1
            batch.append(avoid_open_signatures(t))
        before = dict(stats["kinds"])
        check_lex_batch(ctx, batch, f"generated seed={ctx.seed}", stats)
        done += len(batch)
        for t in batch:
            h = hash(t)
            if h in distinct:
                continue
            distinct.add(h)
            # non-trivial = exercises a hand-written scanner path or the error/int rules
            if re.search(r'"|//|/\*|[^\x00-\x7f]|[&@#$^~`\'\\\x00-\x08\x0b\x0e-\x1f]|[0-9]{10}', t):
                nontrivial += 1
                if len(samples) < 4 and 5 < len(t) < 60:
                    samples.append({"text": t})
    # every repo source unchanged must lex identically and cleanly too
    if not ctx.violations:
        check_lex_batch(ctx, [s for _, s in sources], "repo sources", stats)

    # 3. `full` oracle
    n_full = ctx.scale(1000, 60000)
    fdone = 0
    fhist = {"soup": 0, "mutation": 0, "deep": 0, "multi": 0, "random": 0, "arity": 0}
    depth = ctx.scale(200, 2000)
    while fdone < n_full and not ctx.violations:
        batch = []
        for _ in range(min(500, n_full - fdone)):
            k = rng.weighted([("soup", 5), ("mutation", 8), ("deep", 0), ("multi", 2), ("random", 2), ("arity", 2)])
            r = rng.fork()
            fhist[k] += 1
            if k == "arity":
                batch.append([("Main", gen_arity(r))])
            elif k == "soup":
                batch.append([("Main", avoid_open_signatures(gen_soup(r, vocab, r.range(1, 60))))])
            elif k == "random":
                batch.append([("Main", avoid_open_signatures(gen_random_text(r, r.range(0, 80))))])
            elif k == "deep":
                batch.append([("Main", gen_deep(r, depth))])
            elif k == "mutation":
                name, src = r.pick([s for s in sources if len(s[1]) < ctx.scale(9000, 50000)] or [("Main", "class Main {}")])
                batch.append([(name, avoid_open_signatures(mutate(r, src, vocab)))])
            else:
                picks = [r.pick(sources) for _ in range(r.range(2, 3))] if sources else []
                mods, seen = [], set()
                for name, src in picks:
                    if name in seen or len(src) > 9000:
                        continue
                    seen.add(name)
                    mods.append((name, avoid_open_signatures(mutate(r, src, vocab)) if r.chance(2, 3) else src))
                batch.append(mods or [("Main", "class Main {}")])
        check_full_batch(ctx, batch, f"generated seed={ctx.seed}", stats, timeout_ms=ctx.scale(10000, 120000))
        fdone += len(batch)

    # 4. recursion depth: "no stack overflow on reasonably sized input".  Bound: every nesting form up to depth
    #    2000 (<= 64 KiB) must end `ok` on the stacks the toolchain's entry point configures
    #    (crates/samlang-cli/src/main.rs, read by extract/c05_cli_stacks.py on every run; since fix 7b017c6:
    #    256 MiB main work thread, 64 MiB rayon/tokio workers).  If that configuration can no longer be read
    #    the platform defaults (8 MiB / 2 MiB) are used - on which depth 2000 overflows (former finding C05-F4).
    ddone = 0
    rc, out = common.sh([sys.executable, os.path.join(common.VERIF, "extract", "c05_cli_stacks.py")], cwd=common.VERIF)
    try:
        cfg = json.loads(out.strip().split("\n")[-1]) if rc == 0 else None
    except ValueError:
        cfg = None
    broken_cfg = None
    if cfg is None:
        broken_cfg = out
        cfg = {"main_mb": 8, "worker_mb": 2}
    cli_stacks = {"C05_STACK_MB": str(cfg["main_mb"]), "C05_RAYON_STACK_MB": str(cfg["worker_mb"])}
    real_depth = 2000
    n_before = len(ctx.violations)
    batch = [[("Main", gen_deep(rng.fork(), real_depth))] for _ in range(ctx.scale(48, 2000))]
    batch += [[("Main", wrap_expr("(" * 2000 + "1" + ")" * 2000))], [("Main", wrap_expr("a" + ".b" * 2000))],
              [("Main", wrap_expr("1" + "+1" * 4000))], [("Main", wrap_expr("(" * 2000))]]
    check_full_batch(ctx, batch, f"nesting depth <= {real_depth} on the entry point's stacks {cfg}, seed={ctx.seed}", stats,
                     timeout_ms=ctx.scale(30000, 120000), env_extra=cli_stacks)
    ddone += len(batch)
    if broken_cfg is not None and len(ctx.violations) == n_before:
        # tie broken and the search on the platform's default stacks found no failing input
        ctx.violation("translator extract/c05_cli_stacks.py can no longer read the entry point's stack configuration: " + broken_cfg.strip()[-200:],
                      {"broken": "extract/c05_cli_stacks.py (crates/samlang-cli/src/main.rs)", "log": broken_cfg[-1500:]}, no_input=True)
    # 4b. deterministic syntax-and-diagnostics family (seed-independent, every run; round 5, coverage-guided):
    #     the production catalogue and the error family of C14, a family of programs that reach every checker
    #     diagnostic path (corpus/C05/checker_errors.sam), comment-in-every-gap and re-laid-out variants of the
    #     catalogue (printer comment paths), a module with a very long name (wide location line in the report),
    #     and the second parser entry point parse_source_expression_from_text (`expr` protocol).
    if not ctx.violations:
        from . import c14 as _c14
        det = common.Rng(20260926)
        fam = []
        texts = {}
        for rel in ("corpus/C14/catalogue.sam", "corpus/C14/errors.sam", "corpus/C05/checker_errors.sam"):
            path = os.path.join(common.VERIF, rel)
            if os.path.exists(path):
                texts[rel] = open(path, encoding="utf-8").read()
                fam.append([("Main", texts[rel])])
        cat = texts.get("corpus/C14/catalogue.sam")
        if cat:
            fam += [[("Main", _c14.gap_comments(det.fork(), cat))] for _ in range(6)]
            fam += [[("Main", _c14.relayout(det.fork(), cat))] for _ in range(4)]
            fam.append([("a.very.long.module.name.that.makes.the.location.line.of.an.error.wider.than.the.rule.Main", cat + "\nclass Dup {} class Dup {}")])
        fam += [[("Main", _c14.gen_module(det.fork()))] for _ in range(40)]
        # module paths with non-ASCII parts (file names are user input too): the location of a diagnostic is
        # laid out against a fixed rule width, so every char-count / byte-count relation around that width is
        # visited with 2-, 3- and 4-byte scalars, for a syntax error and for a type error
        for unit in ("\u00e9", "\u65e5", "\U0001F600", "a\u0301"):
            for n in range(1, 41):
                nm = unit * n
                fam.append([(nm + ".Main", "class Main {\n  function main(): unit = {\n")])
                fam.append([("P." + nm, "class Main {\n  function f(): int = true\n  function main(): unit = Process.println(\"m\")\n}\n")])
        check_full_batch(ctx, fam, "deterministic family: syntax and diagnostics", stats, timeout_ms=ctx.scale(20000, 60000))
        ddone += len(fam)
        exprs = ["1", "(a, b: int) -> a + b", "(a, b) -> a", "() -> 1", "(a) -> a", "if let Some(v) = o { v } else { 0 }",
                 "match (this) { None(_) -> 0, Some(d) -> d }", "{ let a = 1; a }", "a.b<int>(1)(2).c", "-(-x) + !y", "(", ")", "",
                 "\"s\" :: \"t\"", "(a, )", "(" + ", ".join(["a"] * 17) + ")", "/* c */ 1 // d"]
        exprs += [_c14.gen_expr(det.fork(), 3)[0] for _ in range(ctx.scale(150, 3000))]
        exprs += [mutate(det.fork(), _c14.gen_expr(det.fork(), 3)[0], vocab) for _ in range(ctx.scale(100, 3000))]
        rc, eans, _ = common.run_exec(common.harness_bin(PROP), [], ["expr " + hexs(e.encode()) for e in exprs])
        for e, a in zip(exprs, eans + ["crash no-answer"] * (len(exprs) - len(eans))):
            stats["full"]["expr-" + a.split(" ")[0]] = stats["full"].get("expr-" + a.split(" ")[0], 0) + 1
            if not a.startswith("ok ") and stats["reported"] < 3:
                stats["reported"] += 1
                ctx.violation("parse_source_expression_from_text breaks C05: " + describe_full(a),
                              {"protocol": "expr", "text": e, "impl": a, "impl_decoded": describe_full(a)})
        ddone += len(exprs)

    # 4c. the entry-point decision table through the shared exec oracle (compile in-process + run wasm and TS)
    if not ctx.violations:
        ddone += check_entry_table(ctx, stats)

    # 5. deterministic family of "small input, huge work" shapes + one probe per open finding of that class
    def iface_chain(k):
        return ("interface I1 {}\n" + "".join(f"interface I{i} : I{i-1}, I{i-1} {{}}\n" for i in range(2, k + 1))
                + "class Main { function main(): unit = {} }")
    if not ctx.violations:
        fam = [[("Main", iface_chain(k))] for k in (2, 8, 16, 26, 40)]
        fam += [[("Main", "interface A {} interface B : A {} interface C : A {} interface D : B, C {} class Main : D { function main(): unit = {} }")],
                # recursion at the SAME type, and generic recursion that does not grow, must compile
                [("Main", "class Main { function <T> f(x: T, n: int): int = if n == 0 { 0 } else { Main.f(x, n - 1) } function main(): unit = Process.println(Str.fromInt(Main.f(1, 3))) }")],
                [("Main", "import { Pair } from std.tuples\nclass Main { function <T> g(x: T): Pair<T, T> = Pair.init(x, x) function main(): unit = { let _ = Main.g(Main.g(Main.g(1))); } }")]]
        check_full_batch(ctx, fam, "deterministic family: hierarchy / instantiation shapes", stats, timeout_ms=ctx.scale(20000, 60000))
        ddone += len(fam)
    f7 = next((f for f in ctx.open_findings if f["id"] == "C05-F7"), None)
    if f7 and not ctx.violations:
        poly = ("import { Pair } from std.tuples\nclass Main { function <T> f(x: T, n: int): int = if n == 0 { 0 } else "
                "{ Main.f(Pair.init(x, x), n - 1) } function main(): unit = Process.println(Str.fromInt(Main.f(1, 3))) }")
        a = run_full([[("Main", poly)]], 20000, workers=1)[0]
        if (a.startswith("crash") and "overflowed its stack" in a) or a.startswith("timeout@compile"):
            ctx.known(f7)
    fdone += ddone

    ctx.cov.update({
        "evaluations": done + fdone,
        "distinct_nontrivial": nontrivial,
        "rule": "lex protocol texts: distinct texts containing a string quote, comment opener, non-ASCII scalar, "
                "invalid-token character or a >= 10-digit number (i.e. reaching a hand-written scanner path, the error "
                "resynchronisation or the integer range rule); measured by regex on the generated text",
        "samples": samples,
        "traces_validated_against_impl": done,
        "lex_cases": done, "full_cases": fdone, "loop_token_family_cases": loop_cases,
        "lex_generator_histogram": gen_hist, "full_generator_histogram": fhist,
        "token_kind_histogram": stats["kinds"], "syntax_error_histogram": stats["errs"],
        "entry_table_compile_histogram": stats["entry"],
        "full_answer_histogram": stats["full"], "full_outcome_histogram": stats["outcome"],
        "limits": {"max_text_bytes_quick": 9000, "nesting_depth": real_depth, "entry_point_stacks_mb": cfg,
                   "stack": "64 MiB (worker thread and rayon pool) for the fuzz streams",
                   "watchdog_ms": ctx.scale(10000, 120000)},
        "partial_theorems": {},
        "pending": ["parser recursion depth (stack) is explored by the `full` oracle only",
                    "logos' generated DFA is abstracted as longest match over the generated tables",
                    "parser loop skeletons: class-member loop and match-arm loop are not modelled (top-level, comma-list and block loops are)"],
        "extractor_ok": extractor_ok,
    })
    ctx.assumptions += ["input is valid UTF-8 (&str); `Valid` in the theorems is weaker than UTF-8 well-formedness",
                        "texts < 4 GiB (u32 line/column counters)",
                        "reasonably sized = nesting depth <= 2000 and <= 64 KiB, run on the stacks samlang-cli configures (256 MiB main work thread, 64 MiB rayon/tokio workers); library callers that run the parser/checker on smaller stacks overflow earlier (8 MiB / 2 MiB: ~1200 parentheses, ~660 chained accesses in a release build)"]
    return ctx.finish(res, trusted=common.TRUSTED_COMMON + [
        "translators extract/c05_keywords.py (anchored regexes over LogosToken / next_token / as_str) and extract/c05_parser_loops.py (anchors in parse_module / comma list / parse_block)",
        "parser loop skeletons Model/ParserLoops.lean are hand-written; only the consume-facts of their recovery arms are extracted (the skeleton shape is checked by the extractor's anchors and exercised by the hang oracle)",
        "hand-written scanner model Model/Lexer.lean; logos' DFA abstracted as longest match (literal beats regex on ties), checked by the `lex` correspondence",
        "not modelled (oracle only): the recursive-descent parser productions beyond the loop skeletons, checker, printers, compiler back half, Rust stack depth"])


def replay(ctx, path):
    common.build_harness(PROP); common.build_lean(["drv-c05"])
    data = json.load(open(path))
    rp = data.get("replay", {})
    if rp.get("protocol") == "lex" and "text" in rp:
        _, impl, model = run_lex([rp["text"]])
        print("text  ", json.dumps(rp["text"]))
        print("impl  ", impl[0]); print("model ", model[0])
        orc = lex_oracle(rp["text"].encode(), impl[0])
        for m in orc:
            print("ORACLE", m)
        return 1 if orc or canon_impl(impl[0]) != model[0] else 0
    if rp.get("protocol") == "entry":
        common.build_exec()
        a = common.exec_programs([rp["program"]])[0]
        print(json.dumps(rp["program"])[:1500]); print(json.dumps(a)[:600])
        return 1 if a.get("compile") == "panic" else 0
    if rp.get("protocol") == "expr":
        rc, a, _ = common.run_exec(common.harness_bin(PROP), [], ["expr " + hexs(rp["text"].encode())])
        print("text", json.dumps(rp["text"])); print("impl", describe_full(a[0] if a else "crash"))
        return 0 if a and a[0].startswith("ok ") else 1
    if rp.get("protocol") == "full":
        mods = [tuple(m) for m in rp["modules"]]
        r = run_full([mods], env_extra=rp.get("env") or None)[0]
        print("modules", json.dumps(rp["modules"])[:2000]); print("impl   ", describe_full(r))
        return 0 if r.startswith("ok ") else 1
    print(json.dumps(data, indent=1)[:4000])
    return 1
