"""SRC — the reference semantics `SamVerif.Source.eval` as an oracle: `./check SRC`.

Not one of the 18 properties: a stand-alone check of the model-side leg that C01 (and C13's behaviour
clause) can call through `vlib.srceval.check_c01_leg`.  A run
  1. rebuilds harness/src/bin/srcdump.rs against /repo's working tree and `drv-src`,
  2. audits the theorems of lean/SamVerif/Props/SRC.lean (`#print axioms`, forbidden-construct scan),
  3. evaluates every test case tests.AllTests runs and compares with tests/snapshot.txt,
  4. evaluates generated programs (scopegen / c01 families / c04 whole programs) and hand-written
     corner programs and compares with the compiled WebAssembly and TypeScript runs.
A difference between Source.eval and a back end on a run the specification determines is reported as
a VIOLATION with the program as replay input (it is either a compiler defect or a defect of the
reference semantics: the report says which leg stands alone).
"""
import json, os

from . import common, srceval

PROP = "SRC"


def _report(ctx, gen, b):
    d = b["detail"]
    real, model = b.get("real") or {}, b.get("model") or {}
    ctx.violation(
        f"reference semantics and the {b['leg']} run of a {gen} program differ: "
        f"Source.eval gives {model.get('lines')} / {model.get('end')}, {b['leg']} gives {real.get('lines')} / {real.get('end')}",
        {"kind": "program", "gen": gen, "leg": b["leg"], "detail": d, "sources": b["sources"],
         "entry": b.get("entry", "Main"), "std": True})


def run(ctx):
    try:
        srceval.build(force=True)
        common.build_exec()
    except common.BuildError as e:
        ctx.violation(f"{e.what} failed; the reference-semantics leg cannot run", {"broken": e.what, "log": e.log},
                      no_input=True)
        return ctx.finish({"obligations": [], "discharged": [], "failed": [("build", e.what)], "log": e.log})
    res = common.audit(PROP)
    if res["failed"]:
        ctx.violation("proof obligations of the reference semantics no longer check: " +
                      "; ".join(f"{n} ({w})" for n, w in res["failed"][:6]),
                      {"broken_theorems": res["failed"], "log": res["log"][-4000:]}, no_input=True)
    # (a) the repository's own test programs
    snap = srceval.validate_snapshot(verbose=False)
    unevaluable = []
    for r in snap["rows"]:
        if r["match"]:
            continue
        if r["end"] in ("crash", "oof"):
            unevaluable.append(r["name"])     # beyond the interpreter's native stack (Benchmark: 2*10^7 deep)
            continue
        ctx.violation(f"Source.eval of test case {r['name']} does not reproduce its section of tests/snapshot.txt "
                      f"(end {r['end']}, {r['lines']} lines, expected {r['expected_lines']})",
                      {"kind": "snapshot", "case": r["name"], "row": r})
    # (b) generated + hand-written programs, three-way
    n = ctx.scale(150, 3000)
    gen = srceval.validate_generated(n, ctx.rng.next(), verbose=False)
    for b in gen["disagreements"][:6]:
        _report(ctx, b["gen"], b)
    ctx.cov["evaluations"] = snap["sections"] + gen["compiled"]
    ctx.cov["distinct_nontrivial"] = gen["three_way_agree"] + snap["reproduced"]
    ctx.cov["rule"] = "programs whose Source.eval outcome equals the real run(s) line by line and in the way they end"
    ctx.cov["traces_validated_against_impl"] = gen["stats"]["agree"] + gen["stats"]["agree_flagged"]
    ctx.cov["samples"] = [r for r in snap["rows"] if r["lines"]][:4]
    return ctx.finish(res, trusted=common.TRUSTED_COMMON + [
        "samlang parser + type checker (the dump is taken after them: Source.eval interprets the checked AST)",
        "Node >= 22 as the executor of the emitted WebAssembly / TypeScript"],
        extra={"snapshot": {k: v for k, v in snap.items() if k != "rows"}, "snapshot_unevaluable": unevaluable,
               "generated": {k: v for k, v in gen.items() if k != "disagreements"}})


def replay(ctx, path):
    payload = json.load(open(path))["replay"]
    if payload.get("kind") != "program":
        print("replay: only program payloads can be replayed; rerun ./check SRC")
        return 2
    srceval.build()
    common.build_exec()
    prog = {"sources": payload["sources"], "entry": payload.get("entry", "Main"), "std": True, "ts": True,
            "timeout_ms": 20000}
    real = common.exec_programs([prog])
    stats, bad = srceval.check_c01_leg([prog], real, legs=("wasm", "ts"))
    for b in bad:
        print(json.dumps({"leg": b["leg"], "detail": b["detail"]})[:800])
    print("VIOLATION property=SRC replay=" + path if bad else "replay: legs agree")
    return 1 if bad else 0
