#!/bin/bash
# try_seed.sh <seed-id> [<prop>] [tier]: apply seeded/<seed-id>/patch.diff to /repo, run the check, undo.
sid=$1; prop=${2:-$(python3 -c "import json;print(json.load(open('/verif/seeded/$sid/meta.json'))['property'])")}; tier=${3:-quick}
cd /verif
if [ -z "$SAMVERIF_HAVE_REPO_LOCK" ]; then exec /verif/vlib/repo_lock.sh "$0" "$@"; fi
if ! git -C /repo diff --quiet; then echo "/repo has uncommitted changes; refusing"; exit 2; fi
patch=/verif/seeded/$sid/patch.diff; [ -f /verif/seeded/$sid/patch_ported.diff ] && patch=/verif/seeded/$sid/patch_ported.diff
git -C /repo apply $patch || git -C /repo apply --3way $patch || { echo "PATCH-DOES-NOT-APPLY seed=$sid"; git -C /repo reset -q --hard HEAD; exit 2; }
git -C /repo reset -q   # --3way stages its result: keep the fault in the working tree only
# evidence/ describes runs against /repo itself: a run against a seeded tree writes elsewhere
SAMVERIF_EVIDENCE_DIR=/scratch/evidence-seeded ./check $prop --tier $tier; rc=$?
git -C /repo reset -q --hard HEAD   # undo the fault (working tree and index)
echo "seed=$sid prop=$prop rc=$rc"
exit $rc
