#!/usr/bin/env python3
"""Assembles DESIGN.md from design/*.md, reports/Cxx.md, findings/*.json, seeded/*/meta.json."""
import json, os, subprocess
V = os.path.dirname(os.path.dirname(os.path.abspath(__file__)))
def rd(p):
    p = os.path.join(V, p)
    return open(p, encoding="utf-8").read() if os.path.exists(p) else ""
out = [rd("design/00-head.md").rstrip(), ""]
head = out[0]
# split head at "## 6." to insert §5 before it
i = head.index("## 6. Trusted base")
pre, post = head[:i], head[i:]
sec5 = ["## 5. Known findings and `fix:` commits", "",
        "`known_findings.json` (merged from `findings/Cxx.json` by `vlib/manifest_gen.py`, never written at check time) lists every genuine defect of the pinned tree that a check found, identified by its witness and signature so that a *different* violation of the same property is still reported. `open`: still fails on the tree — the check prints `KNOWN-FINDING` for exactly this signature and exits 0. `fixed`: repaired by the named unguarded `fix:` commit in `/repo` (one defect per commit, unedited 367-test suite passes); a fixed entry suppresses nothing, its witness stays in `corpus/` as a regression input.", "",
        "| Id | Status | Commit | What fails |", "|---|---|---|---|"]
allf = []
for f in sorted(os.listdir(os.path.join(V, "findings"))):
    if f.endswith(".json"):
        allf += json.load(open(os.path.join(V, "findings", f)))["findings"]
for f in allf:
    what = f["what"].replace("|", "\\|").replace("\n", " ")
    sec5.append(f"| {f['id']} | {f.get('status')} | {f.get('commit','')[:9] if f.get('commit') else ''} | {what[:400]} |")
nopen = sum(1 for f in allf if f.get("status") == "open"); nfixed = sum(1 for f in allf if f.get("status") == "fixed")
sec5 += ["", rd("design/05-probes.md").rstrip()]
sec5 += ["", f"Totals: {len(allf)} findings, {nfixed} fixed by `fix:` commits, {nopen} open (reason each stays open: see `why_open` in `findings/*.json` / the property's section).", ""]
log = subprocess.run(["git", "-C", "/repo", "log", "--reverse", "--format=%h %s"], stdout=subprocess.PIPE).stdout.decode().split("\n")
sec7 = ["## 7. Hooks and fixes in `/repo`", "",
        "Guard: `--cfg samlang_verif` (set for the harness build by `harness/.cargo/config.toml`); hooks are add-only `#[cfg(samlang_verif)]` items, one small commit per crate; with the guard off nothing changes and the 367 tests pass (`cd /repo && cargo test --workspace --no-fail-fast --offline`).", "",
        "Hook commits:", ""] + [f"- `{l}`" for l in log if " verif hook" in l] + ["", "`fix:` commits (unguarded, minimal, unedited suite passes):", ""] + [f"- `{l}`" for l in log if " fix:" in l] + [""]
body = [pre.rstrip(), ""] + sec5 + [post.rstrip(), ""] + sec7
body += ["## 8. Per-property sections", ""]
for i in range(1, 19):
    pid = f"C{i:02d}"
    rep = rd(f"reports/{pid}.md").strip()
    # demote the report's own headings below "### Cxx" (outside code fences)
    out_lines, fence = [], False
    for ln in rep.split("\n"):
        if ln.lstrip().startswith("```"):
            fence = not fence
        if not fence and ln.startswith("#"):
            ln = "###" + ln if ln.startswith("# ") else "##" + ln
        out_lines.append(ln)
    rep = "\n".join(out_lines)
    body += [f"### {pid}", "", rep if rep else "_(report not written yet — see vlib/claims/%s.json if claimed)_" % pid, ""]
body += ["## 9. Seeded faults and which checks catch them", "",
         "Faults were written by independent sub-agents that saw only the property text and a scratch worktree; each was confirmed (builds, 367 tests pass, its demonstration fails with and passes without the change) before being kept under `seeded/<id>/`. `vlib/seed_matrix.py` applies each to `/repo` under the lock, runs the check(s) and reverts.", "",
         "| Seed | Property | Change | Needs to manifest | Outcome |", "|---|---|---|---|---|"]
for sid in sorted(os.listdir(os.path.join(V, "seeded"))):
    m = json.load(open(os.path.join(V, "seeded", sid, "meta.json")))
    det = m.get("detected_by") or {}
    cells = []
    for prop, r in det.items():
        if isinstance(r, dict):
            cells.append(f"{prop}: " + (f"caught ({r['kind']}): {r.get('what','')[:120]}" if r.get("caught") else "MISSED"))
        else:
            cells.append(f"{prop}: {r}")
    body.append(f"| {sid} | {m['property']} | {m['change'][:160]} | {m['needs_to_manifest'][:200]} | {'; '.join(cells) or 'not run yet'} |".replace("\n", " "))
body += ["", rd("design/10-false-alarms.md").rstrip(), "", rd("design/11-limits.md").rstrip(), ""]
open(os.path.join(V, "DESIGN.md"), "w", encoding="utf-8").write("\n".join(body))
print("DESIGN.md written:", sum(len(x) for x in body), "chars")
