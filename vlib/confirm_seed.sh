#!/bin/bash
# confirm_seed.sh <seed-id> : independently confirm a seeded fault produced by a breaker sub-agent.
#   /tmp/wt-<id>  : worktree with the patch applied      /tmp/seeds/<id> : patch.diff, demo/run.sh, notes.md
# Confirms: patch == worktree diff, build+367 tests pass with patch, demo fails with patch, passes without.
id=$1; wt=/tmp/wt-$id; sd=/tmp/seeds/$id; log=/tmp/seeds/$id/confirm.log
exec > >(tee $log) 2>&1
cd $wt || exit 2
echo "== diff matches patch?"; git diff > /tmp/seeds/$id/current.diff; if diff -q /tmp/seeds/$id/current.diff $sd/patch.diff; then echo PATCH_MATCH=yes; else echo PATCH_MATCH=no; fi
echo "== tests with patch"; cargo test --workspace --no-fail-fast --offline 2>&1 | grep -E "^test result|FAILED|failed" | awk '{p+=$4; f+=$6} END {print "TESTS_PASSED=" p " TESTS_FAILED=" f}'
echo "== demo with patch"; bash $sd/demo/run.sh $wt > /tmp/seeds/$id/demo_patched.log 2>&1; echo DEMO_PATCHED_RC=$?
# NOT `git stash`: the stash is shared by all worktrees of /repo (two concurrent users pop each other's entries)
git checkout -q -- .
echo "== demo without patch"; bash $sd/demo/run.sh $wt > /tmp/seeds/$id/demo_clean.log 2>&1; echo DEMO_CLEAN_RC=$?
git apply /tmp/seeds/$id/current.diff
git status --short | head -5
