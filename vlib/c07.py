"""C07 — exhaustiveness / usefulness analysis of patterns is exact.

Proof: lean/SamVerif/Props/C07.lean (lemmas: Lemmas/Useful.lean, UsefulTerm.lean, UsefulNorm.lean) over Model/Useful.lean (Maranget's matrix algorithm as written in
crates/samlang-checker/src/pattern_matching.rs + the source->abstract normalisation of
main_checker.rs:1082-1512).
Tie: protocol `patcheck`: generated type declarations + pattern lists are rendered as samlang source,
type-checked in-process by the real checker (harness/src/bin/c07.rs), and the same declarations/patterns
in structured form go through the Lean model (lean/Driver/C07.lean); verdicts (non-exhaustive
diagnostic + counterexample text, irrefutable-if-let diagnostic, presence of other diagnostics) are diffed.
Oracle (independent of the model): brute-force enumeration of values of the scrutinee type up to the
patterns' depth + 1, matched arm by arm in Python against the *source* patterns.
"""
import json, os, re, itertools
from . import common

VNAMES = ["A", "B", "C", "D", "E", "F", "G", "H"]      # id = index = byte order of the names
FNAMES = ["a", "b", "c", "d", "e", "f"]

# ---------------------------------------------------------------------------------------------
# type declarations.  tyexpr: ("int",) | ("tp", i) | ("cls", name, (arg, ...)|None)
# class: {"name", "generic": number of type parameters (0, 1 or 2), "kind": "enum"|"struct", "variants": [(vid, [tyexpr])] | "fields": [(fid, tyexpr)]}


TPNAMES = ["T", "U"]


def gen_tyexpr(rng, classes, self_cls, in_generic, allow_self=True):
    """in_generic = number of type parameters in scope"""
    opts = [("int", 4)]
    if in_generic:
        opts.append(("tp", 4))
    if classes:
        opts.append(("other", 5))
    if allow_self:
        opts.append(("self", 3))
    k = rng.weighted(opts)
    if k == "int":
        return ("int",)
    if k == "tp":
        return ("tp", rng.below(in_generic))
    if k == "self":
        n = self_cls["generic"]
        # regular recursion only: the class applied to its own parameters (possibly swapped)
        args = tuple(("tp", i) for i in range(n))
        if n == 2 and rng.chance(1, 3):
            args = (args[1], args[0])
        return ("cls", self_cls["name"], args if n else None)
    c = rng.pick(classes)
    if c["generic"]:
        nong = [d for d in classes if not d["generic"]]
        args = []
        for _ in range(c["generic"]):
            a = rng.weighted([("int", 3), ("tp", 3 if in_generic else 0), ("cls", 2 if nong else 0)])
            args.append(("int",) if a == "int" else ("tp", rng.below(in_generic)) if a == "tp" else ("cls", rng.pick(nong)["name"], None))
        return ("cls", c["name"], tuple(args))
    return ("cls", c["name"], None)


def gen_classes(rng):
    classes = []
    n = rng.range(1, 4)
    for i in range(n):
        generic = rng.weighted([(0, 6), (1, 2), (2, 1)])
        c = {"name": ("G%d" if generic else "C%d") % i, "generic": generic}
        if rng.chance(7, 10):
            c["kind"] = "enum"
            nv = rng.weighted([(1, 2), (2, 5), (3, 4), (4, 2)])
            names = rng.shuffle(list(range(len(VNAMES))))[:nv]
            c["variants"] = []
            for j, vid in enumerate(names):
                nf = rng.weighted([(0, 5), (1, 5), (2, 3), (3, 1)])
                # first variant never mentions the class itself: keeps most enums inhabited
                c["variants"].append((vid, [gen_tyexpr(rng, classes, c, generic, allow_self=j > 0) for _ in range(nf)]))
        else:
            c["kind"] = "struct"
            nf = rng.range(1, 3)
            fids = rng.shuffle(list(range(len(FNAMES))))[:nf]
            c["fields"] = [(fid, gen_tyexpr(rng, classes, c, generic, allow_self=rng.chance(1, 8))) for fid in fids]
            c["private"] = [fid for fid in fids if rng.chance(1, 8)]
        classes.append(c)
    return classes


def subst(t, args):
    if t[0] == "tp":
        return args[t[1]] if args is not None and t[1] < len(args) else ("int",)
    if t[0] == "cls" and t[2] is not None:
        return ("cls", t[1], tuple(subst(x, args) for x in t[2]))
    return t


def ty_def(classes, t):
    """closed type -> ('prim',) | ('enum', clsname, [(vid, [closed types])]) | ('struct', [(fid, closed type)])"""
    if t[0] != "cls":
        return ("prim",)
    c = next(c for c in classes if c["name"] == t[1])
    if c["kind"] == "enum":
        return ("enum", c["name"], [(v, [subst(x, t[2]) for x in tys]) for v, tys in c["variants"]])
    return ("struct", [(f, subst(x, t[2])) for f, x in c["fields"]])


def ty_src(t):
    if t[0] == "int":
        return "int"
    if t[0] == "tp":
        return TPNAMES[t[1]]
    return t[1] + ("<" + ", ".join(ty_src(x) for x in t[2]) + ">" if t[2] else "")


def closure(classes, root, extra=()):
    order, seen = [], {}
    todo = [root] + list(extra)
    while todo:
        t = todo.pop(0)
        if t in seen:
            continue
        seen[t] = len(order)
        order.append(t)
        d = ty_def(classes, t)
        if d[0] == "enum":
            for _, tys in d[2]:
                todo += tys
        elif d[0] == "struct":
            todo += [x for _, x in d[1]]
    return order, seen


def min_inhabitants(classes, types):
    """least-depth inhabitant per closed type (None = uninhabited), by fixpoint."""
    inh = {t: None for t in types}
    changed = True
    while changed:
        changed = False
        for t in types:
            if inh[t] is not None:
                continue
            d = ty_def(classes, t)
            if d[0] == "prim":
                inh[t] = ("o",); changed = True
            elif d[0] == "struct":
                if all(inh[x] is not None for _, x in d[1]):
                    inh[t] = ("s", None, tuple(inh[x] for _, x in d[1])); changed = True
            else:
                for v, tys in d[2]:
                    if all(inh[x] is not None for x in tys):
                        inh[t] = ("s", v, tuple(inh[x] for x in tys)); changed = True
                        break
    return inh


# ---------------------------------------------------------------------------------------------
# source patterns: ("W",) ("I",) ("T",[p]) ("O",[(fid,p)]) ("V",vid,[p],has_parens) ("R",[p])

def fresh(ctr):
    ctr[0] += 1
    return ctr[0]


def gen_pat(rng, classes, t, depth, in_or=False, malformed=False, ctr=None):
    ctr = ctr if ctr is not None else [0]
    d = ty_def(classes, t)
    if malformed and rng.chance(1, 6):
        k = rng.below(5)
        if k == 0:
            return ("T", [gen_pat(rng, classes, ("int",), depth + 1, in_or, False, ctr) for _ in range(rng.range(1, 3))])
        if k == 1:
            return ("V", rng.below(len(VNAMES)), [("W",)] * rng.below(3), True)
        if k == 2:
            return ("O", [(rng.below(len(FNAMES)), ("W",))])
    leafy = depth >= 4 or d[0] == "prim" or rng.chance(2 + depth, 10)
    if leafy:
        if malformed and not in_or and rng.chance(1, 14):
            return ("I", 0)                          # shadows the parameter `x`: NameAlreadyBound
        if malformed and not in_or and ctr[0] > 0 and rng.chance(1, 8):
            return ("I", rng.range(1, ctr[0]))      # a name that is (probably) already bound: NameAlreadyBound
        return ("W",) if in_or or rng.chance(1, 2) else ("I", fresh(ctr))
    if depth < 3 and rng.chance(1, 6):
        withf = [(v, tys) for v, tys in d[2] if tys] if d[0] == "enum" else []
        if not in_or and len(withf) >= 1 and rng.chance(1, 2):
            # or-pattern whose alternatives bind one shared name (consistent iff the bound fields have
            # the same type); sometimes a different name / a missing binding (main_checker.rs:1462-1500)
            x = fresh(ctr)
            alts = []
            for _ in range(rng.range(2, 3)):
                v, tys = rng.pick(withf)
                j = rng.below(len(tys))
                name = fresh(ctr) if rng.chance(1, 8) else x
                args = [("I", name) if i == j and not rng.chance(1, 10) else ("W",) for i in range(len(tys))]
                alts.append(("V", v, args, True))
            return ("R", alts)
        n = rng.range(2, 3)
        return ("R", [gen_pat(rng, classes, t, depth + 1, True, malformed, ctr) for _ in range(n)])
    if d[0] == "enum":
        v, tys = rng.pick(d[2])
        args = [gen_pat(rng, classes, x, depth + 1, in_or, malformed, ctr) for x in tys]
        if malformed and rng.chance(1, 5):
            args = args[:-1] if args and rng.chance(1, 2) else args + [("W",)]
        return ("V", v, args, bool(args) or rng.chance(1, 6) and False)
    fs = d[1]
    if rng.chance(1, 2):
        args = [gen_pat(rng, classes, x, depth + 1, in_or, malformed, ctr) for _, x in fs]
        if malformed and rng.chance(1, 5):
            args = args[:-1] if len(args) > 1 and rng.chance(1, 2) else args + [("W",)]
        return ("T", args)
    items = [(f, gen_pat(rng, classes, x, depth + 1, in_or, malformed, ctr)) for f, x in fs]
    items = rng.shuffle(items)
    if malformed and rng.chance(1, 5) and len(items) > 1:
        items = items[:-1]
    if malformed and rng.chance(1, 6):
        f, x = rng.pick(items)      # the same field twice (fixed finding C07-F2)
        items = items + [(f, gen_pat(rng, classes, dict(fs)[f], depth + 1, in_or, False, ctr))]
    return ("O", items)


class Namer:
    def __init__(self):
        self.n = 0

    def fresh(self):
        self.n += 1
        return f"v{self.n}"


def pat_src(p, nm):
    k = p[0]
    if k == "W":
        return "_"
    if k == "I":
        return f"v{p[1]}" if p[1] else "x"      # name 0 = the function parameter (shadowing)
    if k == "T":
        return "(" + ", ".join(pat_src(x, nm) for x in p[1]) + ")"
    if k == "O":
        return "{ " + ", ".join(f"{FNAMES[f]} as {pat_src(x, nm)}" for f, x in p[1]) + " }"
    if k == "V":
        return VNAMES[p[1]] + ("(" + ", ".join(pat_src(x, nm) for x in p[2]) + ")" if p[2] else "")
    if k == "R":
        return " | ".join(pat_src(x, nm) for x in p[1])
    raise ValueError(p)


def pat_tokens(p):
    k = p[0]
    if k == "W":
        return ["W"]
    if k == "I":
        return ["I", str(p[1])]
    if k == "T":
        return ["T", str(len(p[1]))] + [t for x in p[1] for t in pat_tokens(x)]
    if k == "R":
        # the source syntax has no parentheses for patterns: `a | b | c` is ONE or-pattern, so a nested
        # ("R", [a, ("R", [b, c])]) renders to - and is parsed as - the flat list
        alts = []

        def flat(q):
            if q[0] == "R":
                for y in q[1]:
                    flat(y)
            else:
                alts.append(q)
        flat(p)
        return ["R", str(len(alts))] + [t for x in alts for t in pat_tokens(x)]
    if k == "V":
        return ["V", str(p[1]), str(len(p[2]))] + [t for x in p[2] for t in pat_tokens(x)]
    if k == "O":
        return ["O", str(len(p[1]))] + [t for f, x in p[1] for t in [str(f)] + pat_tokens(x)]
    raise ValueError(p)


def pat_depth(p):
    k = p[0]
    if k in ("W", "I"):
        return 0
    if k == "R":
        return max([pat_depth(x) for x in p[1]] + [0])
    subs = p[1] if k == "T" else [x for _, x in p[1]] if k == "O" else p[2]
    return 1 + max([pat_depth(x) for x in subs] + [0])


def class_src(c, inner=""):
    head = f"class {c['name']}" + ("<" + ", ".join(TPNAMES[:c["generic"]]) + ">" if c["generic"] else "")
    if c["kind"] == "enum":
        body = ", ".join(VNAMES[v] + ("(" + ", ".join(ty_src(x) for x in tys) + ")" if tys else "") for v, tys in c["variants"])
    else:
        priv = c.get("private", [])
        body = ", ".join(("private val " if f in priv else "val ") + f"{FNAMES[f]}: {ty_src(x)}" for f, x in c["fields"])
    return f"{head}({body}) {{{inner}}}"


def render_case(case):
    nm = Namer()
    home = case.get("home")
    binder = case.get("binder")
    if case.get("tuple_of"):
        # scrutinee = a tuple EXPRESSION (x0, .., xN-1); its pattern is resolved against std.tuples
        comps = case["tuple_of"]
        tup = "(" + ", ".join(f"x{i}" for i in range(len(comps))) + ")"
        pats = case["pats"]
        if case["kind"] == "match":
            body = f"match {tup} {{ " + ", ".join(f"{pat_src(p, nm)} -> {i}" for i, p in enumerate(pats)) + " }"
        elif case["kind"] == "let":
            body = f"{{ let {pat_src(pats[0], nm)} = {tup}; 1 }}"
        else:
            body = f"if let {pat_src(pats[0], nm)} = {tup} {{ 1 }} else {{ 2 }}"
        params = ", ".join(f"x{i}: {ty_src(t)}" for i, t in enumerate(comps))
        lines = [class_src(c) for c in case["classes"] if c["name"] != "Tup"]
        return "\n".join(lines + ["class Main {", f"  function f({params}): int = {body}", "}"]) + "\n"
    ty = TPNAMES[binder["scrut"]] if binder else ty_src(case["ty"])
    pats = case["pats"]
    if case["kind"] == "match":
        arms = ", ".join(f"{pat_src(p, nm)} -> {i}" for i, p in enumerate(pats))
        body = f"match x {{ {arms} }}"
    elif case["kind"] == "let":
        body = f"{{ let {pat_src(pats[0], nm)} = x; 1 }}"
    else:
        body = f"if let {pat_src(pats[0], nm)} = x {{ 1 }} else {{ 2 }}"
    fn = f"function f(x: {ty}): int = {body}"
    if binder:
        # the match sits in a member of a generic class `Bx`; its scrutinee's static type is a type parameter
        tps = lambda ps: ("<" + ", ".join(TPNAMES[n] + (": " + ty_src(b) if b is not None else "") for n, b in ps) + ">") if ps else ""
        member = ("method " if binder["method"] else "function ") + (tps(binder["fn"]) + " " if binder["fn"] else "") + f"f(x: {ty}): int = {body}"
        return "\n".join([class_src(c) for c in case["classes"]] + [f"class Bx{tps(binder['cls'])}(val v: int) {{", "  " + member, "}"]) + "\n"
    # `home`: the match sits inside that class (its private fields are accessible there)
    lines = [class_src(c, f"\n  {fn}\n" if c["name"] == home else "") for c in case["classes"]]
    if home is None:
        lines += ["class Main {", "  " + fn, "}"]
    return "\n".join(lines) + "\n"


def case_line(case, source=None):
    classes = case["classes"]
    binder = case.get("binder")
    bounds = [b for _, b in (binder["cls"] + binder["fn"]) if b is not None] if binder else []
    order, ids = closure(classes, case["ty"] if case["ty"] is not None else ("int",), bounds)
    cls_ids = {c["name"]: i for i, c in enumerate(classes)}
    toks = [case.get("op", "chk"), common.hexs(source if source is not None else render_case(case)), case["kind"], "0", "T", str(len(order))]
    for t in order:
        d = ty_def(classes, t)
        if d[0] == "prim":
            toks.append("P")
        elif d[0] == "enum":
            toks += ["E", str(cls_ids[d[1]]), str(len(d[2]))]
            for v, tys in d[2]:
                toks += [str(v), str(len(tys))] + [str(ids[x]) for x in tys]
        else:
            toks += ["S", str(len(d[1]))]
            for f, x in d[1]:
                toks += [str(f), str(ids[x])]
    toks += ["P", str(len(case["pats"]))]
    for p in case["pats"]:
        toks += pat_tokens(p)

    def gty(t):
        if t[0] == "int":
            return ["i"]
        if t[0] == "tp":
            return ["t", str(t[1])]
        args = t[2] or ()
        return ["c", str(cls_ids[t[1]]), str(len(args))] + [x for a in args for x in gty(a)]
    toks += ["G", str(len(classes))]
    for c in classes:
        if c["kind"] == "enum":
            toks += ["E", str(len(c["variants"]))]
            for v, tys in c["variants"]:
                toks += [str(v), str(len(tys))] + [x for t in tys for x in gty(t)]
        else:
            toks += ["S", str(len(c["fields"]))]
            for f, t in c["fields"]:
                toks += [str(f)] + gty(t)
    toks += ["Y", str(len(order))] + [x for t in order for x in gty(t)]
    toks += ["X", str(len(order))]
    home = case.get("home")
    for t in order:
        c = next((c for c in classes if t[0] == "cls" and c["name"] == t[1]), None)
        if c is not None and c["kind"] == "struct":
            priv = c.get("private", [])
            toks += [str(len(c["fields"]))] + ["0" if f in priv and c["name"] != home else "1" for f, _ in c["fields"]]
        else:
            toks.append("0")
    if binder:
        tp = lambda ps: [str(len(ps))] + [x for n, b in ps for x in (str(n), str(ids[b]) if b is not None else "-")]
        toks += ["B", "1" if binder["method"] else "0"] + tp(binder["cls"]) + tp(binder["fn"]) + [str(binder["scrut"])]
    return " ".join(toks)


def gen_case(rng, malformed=False, want_uninhabited=False):
    for _ in range(50):
        classes = gen_classes(rng)
        root_cls = rng.pick(classes)
        arg = None
        if root_cls["generic"]:
            nong = [c for c in classes if not c["generic"]]
            arg = tuple(("cls", rng.pick(nong)["name"], None) if nong and rng.chance(1, 2) else ("int",)
                        for _ in range(root_cls["generic"]))
        ty = ("cls", root_cls["name"], arg)
        order, _ = closure(classes, ty)
        inh = min_inhabitants(classes, order)
        if all(v is not None for v in inh.values()) != want_uninhabited:
            break
        if want_uninhabited:
            # force it: a fresh enum whose only variant refers to itself, used as a field type
            bad = {"name": "C9", "generic": 0, "kind": "enum", "variants": [(rng.below(len(VNAMES)), [("cls", "C9", None)])]}
            classes = classes + [bad]
            tgt = rng.pick(classes[:-1])
            if tgt["kind"] == "enum":
                v, tys = tgt["variants"][-1]
                tgt["variants"][-1] = (v, (tys + [("cls", "C9", None)])[:3] if len(tys) < 3 else [("cls", "C9", None)] + tys[1:])
            else:
                f, _ = tgt["fields"][-1]
                tgt["fields"][-1] = (f, ("cls", "C9", None))
            order, _ = closure(classes, ty)
            inh = min_inhabitants(classes, order)
            if not all(v is not None for v in inh.values()):
                break
    else:
        classes = [{"name": "C0", "generic": 0, "kind": "enum", "variants": [(0, []), (1, [("int",)])]}]
        ty = ("cls", "C0", None)
    homes = [c["name"] for c in classes if c["kind"] == "struct" and not c["generic"] and c.get("private")]
    home = rng.pick(homes) if homes and rng.chance(1, 2) else None
    kind = rng.weighted([("match", 7), ("let", 1), ("iflet", 2)])
    if kind == "match":
        n = rng.weighted([(1, 2), (2, 4), (3, 4), (4, 3), (5, 2), (6, 1)])
    else:
        n = 1
    ctr = [0]
    pats = [gen_pat(rng, classes, ty, 0, False, malformed, ctr) for _ in range(n)]
    if kind != "match" and not malformed and rng.chance(1, 3):
        # make irrefutable patterns likelier
        pats = [irrefutable(rng, classes, ty, 0, ctr)]
    return {"classes": classes, "ty": ty, "kind": kind, "pats": pats, "malformed": malformed, "home": home}


def irrefutable(rng, classes, t, depth, ctr):
    d = ty_def(classes, t)
    if depth > 2 or d[0] == "prim" or rng.chance(1, 3):
        return ("W",) if rng.chance(1, 2) else ("I", fresh(ctr))
    if d[0] == "struct":
        return ("T", [irrefutable(rng, classes, x, depth + 1, ctr) for _, x in d[1]])
    if rng.chance(1, 2):
        return ("R", [("V", v, [("W",)] * len(tys), True) for v, tys in d[2]])
    return ("W",)


# ---------------------------------------------------------------------------------------------
# independent oracle: values + matching of *source* patterns (no model involved)

def enum_values(classes, t, depth, inh, cap):
    """all values of closed type t of depth <= depth, deeper positions filled with the least inhabitant.
    value: ("o",) | ("s", vid|None, (args...)).  Raises OverflowError beyond cap."""
    d = ty_def(classes, t)
    if d[0] == "prim":
        return [("o",)]
    if depth == 0:
        return [inh[t]]
    out = []
    alts = [(None, [x for _, x in d[1]])] if d[0] == "struct" else d[2]
    for v, tys in alts:
        subs = [enum_values(classes, x, depth - 1, inh, cap) for x in tys]
        n = 1
        for s in subs:
            n *= len(s)
        if n + len(out) > cap:
            raise OverflowError
        for combo in itertools.product(*subs):
            out.append(("s", v, tuple(combo)))
    return out


def smatch(classes, p, t, v):
    """does source pattern p (well-formed for closed type t) match value v?"""
    k = p[0]
    if k in ("W", "I"):
        return True
    if k == "R":
        return any(smatch(classes, x, t, v) for x in p[1])
    d = ty_def(classes, t)
    if k == "V":
        if d[0] != "enum" or v[0] != "s" or v[1] != p[1]:
            return False
        tys = dict(d[2])[p[1]]
        return all(smatch(classes, x, tt, w) for x, tt, w in zip(p[2], tys, v[2]))
    if d[0] != "struct" or v[0] != "s":
        return False
    if k == "T":
        return all(smatch(classes, x, tt, w) for x, (_, tt), w in zip(p[1], d[1], v[2]))
    if k == "O":
        idx = {f: i for i, (f, _) in enumerate(d[1])}
        return all(smatch(classes, x, d[1][idx[f]][1], v[2][idx[f]]) for f, x in p[1])
    raise ValueError(p)


def pat_binds(classes, p, t):
    """bindings (name -> closed type) of a well-formed source pattern"""
    k = p[0]
    if k == "W":
        return {}
    if k == "I":
        return {p[1]: t}
    if k == "R":
        return pat_binds(classes, p[1][0], t)
    d = ty_def(classes, t)
    out = {}
    if k == "V":
        for x, tt in zip(p[2], dict(d[2])[p[1]]):
            out.update(pat_binds(classes, x, tt))
    elif k == "T":
        for x, (_, tt) in zip(p[1], d[1]):
            out.update(pat_binds(classes, x, tt))
    else:
        fs = dict(d[1])
        for f, x in p[1]:
            out.update(pat_binds(classes, x, fs[f]))
    return out


def dup_names(p):
    """(set of names bound, True if one scope binds a name twice) - or-alternatives are separate scopes"""
    k = p[0]
    if k == "W":
        return set(), False
    if k == "I":
        return {p[1]}, False
    if k == "R":
        rs = [dup_names(x) for x in p[1]]
        return rs[0][0], any(d for _, d in rs)
    subs = p[1] if k == "T" else [x for _, x in p[1]] if k == "O" else p[2]
    names, dup = set(), False
    for x in subs:
        n, d = dup_names(x)
        dup = dup or d or bool(names & n)
        names |= n
    return names, dup


def well_formed(classes, p, t, top=True):
    if top and (dup_names(p)[1] or 0 in dup_names(p)[0]):
        return False
    return well_formed1(classes, p, t)


def well_formed1(classes, p, t):
    k = p[0]
    if k in ("W", "I"):
        return True
    if k == "R":
        if not all(well_formed1(classes, x, t) for x in p[1]):
            return False
        b0 = pat_binds(classes, p[1][0], t)
        return all(pat_binds(classes, x, t) == b0 for x in p[1][1:])
    d = ty_def(classes, t)
    if k == "V":
        if d[0] != "enum" or p[1] not in dict(d[2]):
            return False
        tys = dict(d[2])[p[1]]
        return len(tys) == len(p[2]) and all(well_formed1(classes, x, tt) for x, tt in zip(p[2], tys))
    if d[0] != "struct":
        return False
    if k == "T":
        return len(p[1]) == len(d[1]) and all(well_formed1(classes, x, tt) for x, (_, tt) in zip(p[1], d[1]))
    fs = dict(d[1])
    names = [f for f, _ in p[1]]
    # LENIENT: a field may be named twice (conjunction of both sub-patterns - what the lowered code
    # tests); the checker reports that as an error since fix 76a01ae, and the oracle only looks at
    # such a case when the checker reported no error at all (see `oracle`)
    ok = sorted(set(names)) == sorted(fs) if LENIENT[0] else sorted(names) == sorted(fs)
    return ok and all(well_formed1(classes, x, fs[f]) for f, x in p[1])


LENIENT = [False]


def well_formed_lenient(classes, p, t):
    LENIENT[0] = True
    try:
        return well_formed(classes, p, t)
    finally:
        LENIENT[0] = False


def parse_cex(text):
    """pretty-printed Description pattern -> ("W",) | ("V", name, args) | ("T", args) | ("R", alts)"""
    pos = [0]

    def peek():
        return text[pos[0]] if pos[0] < len(text) else ""

    def atom():
        if peek() == "_":
            pos[0] += 1
            return ("W",)
        if peek() == "(":
            pos[0] += 1
            args = seq()
            return ("T", args)
        m = re.match(r"[A-Za-z][A-Za-z0-9]*", text[pos[0]:])
        if not m:
            raise ValueError(text)
        pos[0] += m.end()
        if peek() == "(":
            pos[0] += 1
            return ("V", m.group(0), seq())
        return ("V", m.group(0), [])

    def seq():
        args = []
        while True:
            args.append(alt())
            if text.startswith(", ", pos[0]):
                pos[0] += 2
            elif peek() == ")":
                pos[0] += 1
                return args
            else:
                raise ValueError(text)

    def alt():
        alts = [atom()]
        while text.startswith(" | ", pos[0]):
            pos[0] += 3
            alts.append(atom())
        return alts[0] if len(alts) == 1 else ("R", alts)

    r = alt()
    if pos[0] != len(text):
        raise ValueError(text)
    return r


def cex_to_spat(c):
    if c[0] == "W":
        return ("W",)
    if c[0] == "R":
        return ("R", [cex_to_spat(x) for x in c[1]])
    if c[0] == "T":
        return ("T", [cex_to_spat(x) for x in c[1]])
    if c[1] not in VNAMES:
        raise ValueError(c[1])
    return ("V", VNAMES.index(c[1]), [cex_to_spat(x) for x in c[2]], True)


def oracle(case, verdict, cap=4000):
    """Implementation-side check of C07 itself on one well-formed case.
    Returns (status, failures): status in {"checked", "skipped-size", "skipped-malformed"}."""
    classes, t, pats = case["classes"], case["ty"], case["pats"]
    if not all(well_formed(classes, p, t) for p in pats):
        if verdict.get("err") or not all(well_formed_lenient(classes, p, t) for p in pats):
            return "skipped-malformed", []
    order, _ = closure(classes, t)
    inh = min_inhabitants(classes, order)
    if any(v is None for v in inh.values()):
        return "skipped-uninhabited", []
    depth = max(pat_depth(p) for p in pats) + 1
    cexp = None
    if verdict["nonexh"] is not None:
        try:
            cexp = cex_to_spat(parse_cex(verdict["nonexh"]))
        except ValueError:
            return "checked", [f"counterexample text `{verdict['nonexh']}` is not a pattern"]
        if not well_formed(classes, cexp, t):
            return "checked", [f"counterexample `{verdict['nonexh']}` is not a well-formed pattern of type {ty_src(t)}"]
        depth = max(depth, pat_depth(cexp) + 1)
    try:
        vals = None
        d0 = ty_def(classes, t)
        allp = pats + ([cexp] if cexp is not None else [])
        if d0[0] == "struct" and all(p[0] in ("W", "I") or (p[0] == "T" and len(p[1]) == len(d0[1])) for p in allp):
            # wide structs / tuples: a field at which every pattern (and the counterexample) has `_` or an
            # identifier cannot influence any verdict - it is fixed to its least inhabitant
            free = [all(p[0] != "T" or p[1][k][0] in ("W", "I") for p in allp) for k in range(len(d0[1]))]
            subs = [[inh[ft]] if free[k] else enum_values(classes, ft, depth - 1, inh, cap) for k, (_, ft) in enumerate(d0[1])]
            n = 1
            for sub in subs:
                n *= len(sub)
            if n <= cap:
                vals = [("s", None, tuple(c)) for c in itertools.product(*subs)]
        if vals is None:
            vals = enum_values(classes, t, depth, inh, cap)
    except OverflowError:
        return "skipped-size", []
    fails = []
    unmatched = [v for v in vals if not any(smatch(classes, p, t, v) for p in pats)]
    if case["kind"] in ("match", "let"):
        if verdict["nonexh"] is None and unmatched:
            fails.append(f"accepted, but no arm matches the value {show_val(unmatched[0])}")
        if verdict["nonexh"] is not None:
            if not unmatched:
                fails.append(f"rejected as non-exhaustive (`{verdict['nonexh']}`), but every one of the {len(vals)} values up to depth {depth} is matched")
            else:
                den = [v for v in vals if smatch(classes, cexp, t, v)]
                if not den:
                    fails.append(f"counterexample `{verdict['nonexh']}` denotes no value")
                elif all(any(smatch(classes, p, t, v) for p in pats) for v in den):
                    fails.append(f"every value denoted by the counterexample `{verdict['nonexh']}` is matched by some arm")
    else:
        if verdict["useless"] and unmatched:
            fails.append(f"if-let pattern flagged irrefutable but does not match {show_val(unmatched[0])}")
        if not verdict["useless"] and not unmatched:
            fails.append(f"if-let pattern matches all {len(vals)} values up to depth {depth} but is not flagged")
    return "checked", fails


def show_val(v):
    if v[0] == "o":
        return "0"
    args = ", ".join(show_val(x) for x in v[2])
    if v[1] is None:
        return f"({args})"
    return VNAMES[v[1]] + (f"({args})" if v[2] else "")


# ---------------------------------------------------------------------------------------------
# canonical verdicts

OWN_KINDS = ("NonExhaustiveMatch", "UselessPattern")


def core(ans):
    """implementation answer without the hook section"""
    return ans.split(" #A")[0]


def abs_named(case, absm):
    """the model's abstract patterns in the hook's rendering: `@k.#n` -> `Class.Variant`"""
    names = [c["name"] for c in case["classes"]]
    return [re.sub(r"@(\d+)\.#(\d+)", lambda m: names[int(m.group(1))] + "." + VNAMES[int(m.group(2))], a) for a in absm]


def scope_records(ans):
    """[(class, "T=Bound,U=-")] from the `#S` section of an implementation answer"""
    if " #S" not in ans:
        return None
    out = []
    for item in ans.split(" #S", 1)[1].split():
        c, hx = item.split(":", 1)
        out.append((c, common.unhex(hx).decode() if hx != "-" else ""))
    return out


def abs_records(ans):
    """[(entry, [rendered abstract pattern, ...])] from the hook section of an implementation answer"""
    if " #A" not in ans:
        return None
    out = []
    for item in ans.split(" #A", 1)[1].split(" #S")[0].split():
        entry, hx = item.split(":", 1)
        out.append((entry, common.unhex(hx).decode().split(";") if hx != "-" else [""]))
    return out


def impl_verdict(ans):
    ans = core(ans)
    if ans.startswith("panic"):
        t = ans.split(" ")
        return {"panic": common.unhex(t[1]).decode("utf-8", "replace") if len(t) > 1 else ""}
    if ans == "ok":
        return {"nonexh": None, "useless": False, "err": False}
    if not ans.startswith("E"):
        return {"bad": ans}
    v = {"nonexh": None, "useless": False, "err": False, "kinds": []}
    for item in ans.split(" ")[1:]:
        parts = item.split(":")
        kind = parts[1]
        if kind == "NonExhaustiveMatch":
            v["nonexh"] = common.unhex(parts[2]).decode()
        elif kind == "UselessPattern" and parts[2] == "1":
            v["useless"] = True
        else:
            v["err"] = True
            v["kinds"].append(kind)
    return v


def model_verdict(ans):
    if not ans.startswith("nonexh="):
        return {"bad": ans}
    kv = dict(x.split("=", 1) for x in ans.split(" "))
    absm = kv.get("abs", "").split(";")          # raw (`@class.#variant`), see abs_named
    ne = None if kv["nonexh"] == "-" else re.sub(r"#(\d+)", lambda m: VNAMES[int(m.group(1))], kv["nonexh"].replace("~", " "))
    return {"nonexh": ne, "useless": kv["useless"] == "1", "err": kv["err"] == "1",
            "panic_norm": kv["panic"] == "1", "typed": kv["typed"] == "1", "inh": kv.get("inh") == "1", "mono": kv.get("mono") == "1",
            "shape": kv.get("shape") == "1", "hyp": kv.get("hyp") == "1", "swf": kv.get("swf") == "1", "abs": absm, "scope": kv.get("scope", "-")}


def arity_overflow(classes, p, t):
    """some tuple/variant pattern has MORE elements than the struct/variant has fields (shape of the fixed finding C07-F1)."""
    k = p[0]
    if k in ("W", "I"):
        return False
    if k == "R":
        return any(arity_overflow(classes, x, t) for x in p[1])
    d = ty_def(classes, t) if t is not None else ("prim",)
    if k == "V":
        if d[0] != "enum" or p[1] not in dict(d[2]):
            return False
        tys = dict(d[2])[p[1]]
        return len(p[2]) > len(tys) or any(arity_overflow(classes, x, tt) for x, tt in zip(p[2], tys))
    if d[0] != "struct":
        return False
    if k == "T":
        return len(p[1]) > len(d[1]) or any(arity_overflow(classes, x, tt) for x, (_, tt) in zip(p[1], d[1]))
    fs = dict(d[1])
    return any(arity_overflow(classes, x, fs.get(f)) for f, x in p[1] if f in fs)


def classify(ctx, case, ians, mans, stats):
    """Compare one case. Returns None if fine, else (what, no_input, is_known_finding)."""
    iv, mv = impl_verdict(ians), model_verdict(mans)
    if "bad" in iv or "bad" in mv:
        return ("protocol answer not understood: impl=%r model=%r" % (ians[:80], mans[:80]), True, None)
    if "panic" in iv:
        return ("type checker panics (`%s`) on a match/let/if-let" % iv["panic"], False, None)
    if not mv["mono"]:
        return ("the monomorphic type table sent to the model is not the instantiation of the generic classes (monoCheck failed)", True, None)
    if not mv["typed"]:
        # outside the model's domain (ill-shaped matrix): the real checker must at least reject
        stats["illtyped"] = stats.get("illtyped", 0) + 1
        if not iv["err"]:
            return ("ill-typed pattern accepted without any other diagnostic", False, None)
        return None
    unresolved = case["ty"] is None
    if unresolved:
        case = dict(case, ty=("int",))      # unresolvable scrutinee type: nothing to destructure
    order, _ = closure(case["classes"], case["ty"])
    py_inh = all(v is not None for v in min_inhabitants(case["classes"], order).values())
    if py_inh != mv["inh"]:
        return (f"inhabitedness certificate of the model (inh={mv['inh']}) disagrees with the generator's fixpoint ({py_inh})", True, None)
    if not py_inh:
        stats["uninhabited"] = stats.get("uninhabited", 0) + 1
    if not mv["shape"]:
        return ("protocol: an object pattern with a different number of field names and sub-patterns (`shape` fails)", True, None)
    if not mv["hyp"]:
        return ("the type table sent to the model violates CxOk / SigNodup (cxOkCheck && nodupCheck failed): the theorems do not apply to this case", True, None)
    # the domain of the Lean source semantics (`swf`) against the oracle's own well-formedness:
    # strictly well-formed => swf; swf, no duplicate / shadowing names and no diagnostic at all (so no
    # omitted field either) => strictly well-formed
    strict = all(well_formed(case["classes"], p, case["ty"]) for p in case["pats"])
    clean_names = not any(dup_names(p)[1] or 0 in dup_names(p)[0] for p in case["pats"])
    if unresolved:
        pass
    elif (strict and not mv["swf"]) or (mv["swf"] and clean_names and not iv["err"] and not strict):
        return (f"domain of the source semantics disagrees: model swf={mv['swf']}, oracle well-formed={strict}", True, None)
    if mv["swf"] and mv["inh"]:
        stats["certified"] = stats.get("certified", 0) + 1     # replayed_*_exact applies: no hypothesis left
    status, fails = oracle(case, iv)
    stats[status] = stats.get(status, 0) + 1
    if fails:
        return ("checker breaks C07: " + fails[0], False, None)
    if case.get("binder"):
        # the scope the real checker built for the member (hook) against the model's `scopeOf`
        binder = case["binder"]
        bounds = [b for _, b in (binder["cls"] + binder["fn"]) if b is not None]
        order_b, _ = closure(case["classes"], ("int",) if unresolved else case["ty"], bounds)
        want = "" if mv["scope"] == "-" else ",".join(
            TPNAMES[int(n[1:])] + "=" + ("-" if b == "-" else order_b[int(b[1:])][1])
            for n, b in (x.split("=") for x in mv["scope"].split(",")))
        got = [r for c, r in (scope_records(ians) or []) if c == "Bx"]
        # contexts of class Bx in creation order: class-level validation, member signature validation,
        # and last the context the member's body is checked in
        if not got or got[-1] != want:
            return (f"type parameters in scope of the member's body: checker {got[-1:]} model [{want}] (main_checker.rs type_check_module / scopeOf)", True, None)
    recs = abs_records(ians)
    if recs is not None and stats.get("__check_abs__", True):
        want = "useful" if case["kind"] == "iflet" else "counterexample"
        extra_ok = stats.get("__abs_extra__", [])
        seen = [r for r in recs if r[1] not in extra_ok]
        mabs_n = abs_named(case, mv["abs"])
        if not any(r == (want, mabs_n) for r in seen) or any(r != (want, mabs_n) for r in seen):
            stats_abs = "; ".join(f"{e}[{' ; '.join(a)}]" for e, a in recs) or "<no call>"
            return (f"abstract patterns handed to the analysis differ from the model's normalisation: checker {stats_abs}  model {want}[{' ; '.join(mabs_n)}]", True, None)
    for key in ("nonexh", "useless", "err"):
        if iv[key] != mv[key]:
            return (f"model/implementation disagreement on `{key}`: impl={iv[key]!r} model={mv[key]!r}", True, None)
    return None


def shrink_case(case, fails):
    """structural shrinking: drop arms, replace sub-patterns by `_`."""
    def variants(c):
        pats = c["pats"]
        if c["kind"] == "match":
            for i in range(len(pats)):
                if len(pats) > 1:
                    yield dict(c, pats=pats[:i] + pats[i + 1:])
        for i, p in enumerate(pats):
            for q in shrink_pat(p):
                yield dict(c, pats=pats[:i] + [q] + pats[i + 1:])

    def shrink_pat(p):
        k = p[0]
        if k in ("W",):
            return
        yield ("W",)
        if k == "R":
            for x in p[1]:
                yield x
            for i, x in enumerate(p[1]):
                for y in shrink_pat(x):
                    yield ("R", p[1][:i] + [y] + p[1][i + 1:])
        elif k == "T":
            for i, x in enumerate(p[1]):
                for y in shrink_pat(x):
                    yield ("T", p[1][:i] + [y] + p[1][i + 1:])
        elif k == "O":
            for i, (f, x) in enumerate(p[1]):
                for y in shrink_pat(x):
                    yield ("O", p[1][:i] + [(f, y)] + p[1][i + 1:])
        elif k == "V":
            for i, x in enumerate(p[2]):
                for y in shrink_pat(x):
                    yield ("V", p[1], p[2][:i] + [y] + p[2][i + 1:], p[3])
    budget = 150
    progress = True
    while progress and budget > 0:
        progress = False
        for cand in variants(case):
            budget -= 1
            if budget <= 0:
                break
            if fails(cand):
                case = cand
                progress = True
                break
    return case


# ---------------------------------------------------------------------------------------------
# expression contexts: the verdict must reach the user from every position of the match / let / if-let
# (the glue around pattern_matching: check_match / check_declaration_statement / check_if_else are
# reached in checking mode, in synthesis mode, with and without hints).  `lit`: arm bodies are
# literals; `call`: arm bodies are calls (so that a generic call's argument goes through synthesis).

CONTEXTS = [
    ("body", "{E}", "lit"),
    ("block-final", "{{ let r = 0; {E} }}", "lit"),
    ("let-initialiser", "{{ let r = {E}; r }}", "call"),
    ("generic-function-arg", "Main.gid({E})", "lit"),
    ("generic-function-arg/synthesised", "Main.gid({E})", "call"),
    ("generic-function-arg/nested-in-call", "Main.gid(Main.id({E}))", "lit"),
    ("generic-constructor-arg/synthesised", "Bx.init({E}).v", "call"),
    ("generic-static-arg/synthesised", "Bx.of({E}).get()", "call"),
    ("generic-method-arg/annotated-lambda", "Bx.of(0).map((y: int) -> Main.id({E})).get()", "lit"),
    ("generic-method-arg/lambda-body", "Bx.of(0).map((y) -> {E}).get()", "lit"),
    ("match-arm", "match x {{ _ -> {E} }}", "lit"),
    ("if-branch", "if true {{ {E} }} else {{ 0 }}", "call"),
    ("if-condition", "if ({E}) == 0 {{ 1 }} else {{ 2 }}", "lit"),
    ("binary-left", "({E}) + 1", "lit"),
    ("binary-right", "1 + ({E})", "call"),
    ("field-initialiser", "IBx.init({E}).v", "lit"),
    ("non-generic-arg", "Main.id({E})", "call"),
    ("generic-arg-with-hint", "{{ let r: Bx<int> = Bx.of({E}); r.v }}", "call"),
    ("generic-arg/nested-generic", "Main.gid(Bx.of({E})).v", "call"),
    # round 5 (coverage): expression forms of main_checker.rs the first family never reached
    ("tuple-element", "{{ let t = ({E}, 1); 0 }}", "lit"),                        # check_tuple
    ("unary-neg", "-({E})", "lit"),                                               # check_unary
    ("unary-not", "if !(({E}) == 0) {{ 1 }} else {{ 2 }}", "call"),
    ("binary-mul", "({E}) * 2", "lit"),                                           # arithmetic arm of check_binary
    ("binary-compare-and", "if ({E}) < 1 && true {{ 1 }} else {{ 2 }}", "lit"),
    ("concat-operand", "{{ let s = Str.fromInt({E}) :: \"a\"; 0 }}", "lit"),
    ("else-if-branch", "if false {{ 0 }} else if true {{ {E} }} else {{ 1 }}", "lit"),  # check_if_else e2 = IfElse
    ("else-if-let", "if false {{ 0 }} else {E}", "lit", ("iflet",)),             # guard in else-if position
    ("expression-statement", "{{ {E}; 0 }}", "call"),                             # Statement::Expression
    ("let-wildcard-initialiser", "{{ let _ = {E}; 0 }}", "lit"),
    ("generic-arg/explicit-type-arguments", "Main.gid<int>({E})", "call"),
    ("lambda-body/with-function-hint", "{{ let g: (int) -> int = (y) -> {E}; g(0) }}", "lit"),
    ("lambda-body/annotated-then-called", "{{ let g = (y: int) -> {E}; g(0) }}", "call"),
    ("generic-arg/if-else-chain/synthesised", "Main.gid(if false {{ 0 }} else if true {{ {E} }} else {{ 1 }})", "call"),
    ("generic-arg/if-else-chain", "Main.gid(if false {{ 0 }} else if true {{ {E} }} else {{ 1 }})", "lit"),
    ("generic-arg/block-without-final-expression", "{{ let u = Main.gid({{ let _ = {E}; }}); 0 }}", "call"),
    ("generic-arg-with-hint/direct", "{{ let r: Bx<int> = Bx.of({E}); r.v }}", "lit"),
    ("generic-arg/return-hint", "Main.id(Main.gid({E}))", "lit"),
    ("generic-method-arg/lambda-rechecked-with-return-hint", "{{ let r: Bx<int> = Bx.of(0).map((y) -> {E}); r.v }}", "call"),
    ("nested-generic-lambdas", "Bx.of(Bx.of(0)).map((b) -> b.map((y) -> {E})).get().get()", "lit"),
]

CTX_PRELUDE = [
    "class Bx<T>(val v: T) {",
    "  function <T> of(v: T): Bx<T> = Bx.init(v)",
    "  method get(): T = this.v",
    "  method <R> map(f: (T) -> R): Bx<R> = Bx.init(f(this.v))",
    "}",
    "class IBx(val v: int) {}",
]


def ctx_expr(case, variant):
    nm = Namer()
    pats = case["pats"]
    val = (lambda i: f"Main.id({i})") if variant == "call" else (lambda i: str(i))
    if case["kind"] == "match":
        arms = ", ".join(f"{pat_src(p, nm)} -> {val(i)}" for i, p in enumerate(pats))
        return f"match x {{ {arms} }}"
    if case["kind"] == "let":
        return f"{{ let {pat_src(pats[0], nm)} = x; {val(1)} }}"
    return f"if let {pat_src(pats[0], nm)} = x {{ {val(1)} }} else {{ 2 }}"


def render_ctx_case(case, only=None):
    """one function per expression context, each on its own line -> (source, {line number: context name})"""
    lines = [class_src(c) for c in case["classes"]] + CTX_PRELUDE
    lines += ["class Main {", "  function id(a: int): int = a", "  function <T> gid(v: T): T = v"]
    ty = ty_src(case["ty"])
    where = {}
    for k, cdef in enumerate(CONTEXTS):
        name, tpl, variant = cdef[:3]
        if only is not None and name != only:
            continue
        if len(cdef) > 3 and case["kind"] not in cdef[3]:
            continue
        lines.append(f"  function c{k}(x: {ty}): int = " + tpl.format(E=ctx_expr(case, variant)))
        where[len(lines)] = name
    lines.append("}")
    return "\n".join(lines) + "\n", where


def split_by_line(ans, where):
    """implementation answer of a whole module -> {context name: answer restricted to that line}, stray items"""
    out = {name: [] for name in where.values()}
    stray = []
    ans = core(ans)
    if ans.startswith("E"):
        for item in ans.split(" ")[1:]:
            ln = int(item.split(":")[0])
            (out[where[ln]] if ln in where else stray).append(item)
    return {name: ("E " + " ".join(items) if items else "ok") for name, items in out.items()}, stray


def run_context_cases(ctx, cases, stats):
    """Every generated match / let / if-let embedded in every expression context: in each context the
    real checker must report exactly the model's verdict (NonExhaustiveMatch with the same counterexample
    exactly once, or nothing; irrefutable-if-let flag), and the brute-force oracle must agree."""
    rendered = [render_ctx_case(c) for c in cases]
    lines = [case_line(c, src) for c, (src, _) in zip(cases, rendered)]
    impl, model = common.run_pair("C07", lines)
    bad = 0
    for i, c in enumerate(cases):
        ia = impl[i] if i < len(impl) else "<missing>"
        ma = model[i] if i < len(model) else "<missing>"
        src, where = rendered[i]
        recs = abs_records(ia) or []
        mabs = model_verdict(ma).get("abs")
        mabs = abs_named(c, mabs) if mabs is not None else None
        alien = [r for r in recs if r[1] != mabs and r[1] != ["_"]]
        if alien and mabs is not None:
            ctx.violation("expression contexts: the checker handed abstract patterns to the analysis that are not the model's normalisation: "
                          + "; ".join(f"{e}[{' ; '.join(a)}]" for e, a in alien[:3]) + f"  model [{' ; '.join(mabs)}]",
                          {"protocol": "patcheck/contexts", "source": src, "line": lines[i], "impl": ia, "model": ma,
                           "broken": "correspondence `patcheck` (abstract matrix via hook verif_hooks_c07)"}, no_input=True)
        ia = core(ia)
        if ia.startswith("panic") or not (ia == "ok" or ia.startswith("E")):
            per, stray = {name: ia for name in where.values()}, []
        else:
            per, stray = split_by_line(ia, where)
        if stray:
            per = dict(per); per["<outside the context functions>"] = "E " + " ".join(stray)
        for name, ans in per.items():
            stats["contexts"][name] = stats["contexts"].get(name, 0) + 1
            n_ne = sum(1 for it in ans.split(" ")[1:] if ":NonExhaustiveMatch:" in it) if ans.startswith("E") else 0
            r = classify(ctx, c, ans, ma, {}) if name in [cd[0] for cd in CONTEXTS] else ("diagnostic outside the generated functions: " + ans[:120], True, None)
            if r is None and n_ne > 1:
                r = (f"{n_ne} NonExhaustiveMatch diagnostics for one match", True, None)
            if r is None:
                continue
            bad += 1
            if bad > 3:
                continue
            what, no_input, _ = r

            def fails(cand, name=name, no_input=no_input):
                s2, w2 = render_ctx_case(cand, only=name)
                i2, m2 = common.run_pair("C07", [case_line(cand, s2)])
                i2 = [core(x) for x in i2]
                p2, st2 = split_by_line(i2[0], w2) if (i2 and (i2[0] == "ok" or i2[0].startswith("E"))) else ({name: i2[0] if i2 else "<missing>"}, [])
                r2 = classify(ctx, cand, p2.get(name, "ok"), m2[0] if m2 else "<missing>", {})
                return r2 is not None and r2[1] == no_input
            small = shrink_case(c, fails) if name in [cd[0] for cd in CONTEXTS] else c
            s2, w2 = render_ctx_case(small, only=name if name in [cd[0] for cd in CONTEXTS] else None)
            l2 = case_line(small, s2)
            i2, m2 = common.run_pair("C07", [l2])
            i2 = [core(x) for x in i2]
            p2, _ = split_by_line(i2[0], w2) if (i2[0] == "ok" or i2[0].startswith("E")) else ({name: i2[0]}, [])
            r2 = classify(ctx, small, p2.get(name, "ok"), m2[0], {}) or r
            payload = {"protocol": "patcheck/contexts", "context": name, "source": s2, "line": l2,
                       "impl": i2[0], "model": m2[0], "impl_verdict_in_context": impl_verdict(p2.get(name, "ok")),
                       "model_verdict": model_verdict(m2[0])}
            if r2[1]:
                payload["broken"] = "correspondence `patcheck/contexts`: the verdict of the exhaustiveness analysis does not reach the user unchanged from this expression context"
            ctx.violation(f"in expression context `{name}`: " + r2[0], payload, no_input=r2[1])
    return bad


def run_cases(ctx, cases, label, stats):
    lines = [case_line(c) for c in cases]
    impl, model = common.run_pair("C07", lines)
    bad = 0
    failures = []
    for i, c in enumerate(cases):
        ia = impl[i] if i < len(impl) else "<missing>"
        ma = model[i] if i < len(model) else "<missing>"
        r = classify(ctx, c, ia, ma, stats)
        key = ("malformed/" if c.get("malformed") else "") + c["kind"]
        stats["kinds"][key] = stats["kinds"].get(key, 0) + 1
        iv = impl_verdict(ia)
        out = "panic" if "panic" in iv else "nonexh" if iv.get("nonexh") else "useless" if iv.get("useless") else "other-error" if iv.get("err") else "accepted"
        stats["outcomes"][out] = stats["outcomes"].get(out, 0) + 1
        stats["answers"].append((out, ia, ma))
        if r is None:
            continue
        what, no_input, finding = r
        if finding is not None:
            ctx.known(finding)
            continue
        bad += 1
        failures.append((c, r))
    # report concrete (property-level) inputs first, then a few tie disagreements
    failures.sort(key=lambda cr: cr[1][1])
    n_conc = n_tie = 0
    for c, r in failures:
        what, no_input, _ = r
        if (no_input and n_tie >= 2) or (not no_input and n_conc >= 3):
            continue
        if no_input:
            n_tie += 1
        else:
            n_conc += 1

        def fails(cand, no_input=no_input):
            l = case_line(cand)
            i2, m2 = common.run_pair("C07", [l])
            r2 = classify(ctx, cand, i2[0] if i2 else "<missing>", m2[0] if m2 else "<missing>", {})
            return r2 is not None and r2[2] is None and r2[1] == no_input
        small = shrink_case(c, fails)
        l = case_line(small)
        i2, m2 = common.run_pair("C07", [l])
        r2 = classify(ctx, small, i2[0], m2[0], {}) or r
        payload = {"protocol": "patcheck", "label": label, "source": render_case(small), "line": l,
                   "impl": i2[0], "model": m2[0], "impl_verdict": impl_verdict(i2[0]), "model_verdict": model_verdict(m2[0])}
        if r2[1]:
            payload["broken"] = "correspondence `patcheck` (Model/Useful.lean vs crates/samlang-checker pattern_matching.rs / main_checker.rs): the theorems of Props/C07.lean no longer speak about this code"
        ctx.violation(r2[0], payload, no_input=r2[1])
    return bad


def deterministic_family():
    """Seed-independent family: every branch of check_matching_pattern (main_checker.rs:1100-1520) on both
    sides - object patterns in every field order with the refutable sub-pattern at every position
    (column = declaration index of the field), tuple / variant arity (under, exact, over), unknown tag /
    field, duplicate / omitted / private field (inside and outside the class), non-struct and non-enum
    matched types, generic payloads at two instantiations, or-patterns (nested, inside invalid patterns,
    consistent and inconsistent bindings) - as match, let and if-let."""
    W = ("W",)
    C0, INT = ("cls", "C0", None), ("int",)
    G1C0, G1I = ("cls", "G1", (C0,)), ("cls", "G1", (INT,))
    classes = [
        {"name": "C0", "generic": 0, "kind": "enum", "variants": [(0, []), (1, [INT]), (2, [C0, INT])]},
        {"name": "G1", "generic": 1, "kind": "enum", "variants": [(3, []), (4, [("tp", 0)])]},
        {"name": "C2", "generic": 0, "kind": "struct", "fields": [(0, C0), (1, G1C0), (2, C0)]},
        {"name": "C3", "generic": 0, "kind": "struct", "fields": [(3, C0), (4, INT)], "private": [4]},
        {"name": "C4", "generic": 0, "kind": "struct", "fields": [(5, G1I), (3, G1C0)]},
    ]
    C2, C3, C4 = ("cls", "C2", None), ("cls", "C3", None), ("cls", "C4", None)
    pA, pB, pC = ("V", 0, [], False), ("V", 1, [W], True), ("V", 2, [W, W], True)
    pD = ("V", 3, [], False)
    pE = lambda x: ("V", 4, [x], True)
    out = []

    def add(ty, pats, kinds=("match",), home=None, malformed=False):
        for k in kinds:
            out.append({"classes": classes, "ty": ty, "kind": k, "pats": pats if k == "match" else pats[:1],
                        "home": home, "malformed": malformed})
    # 1. object patterns: every order x refutable sub-pattern at every field
    first = {0: pA, 1: pD, 2: pA}
    rest = {0: ("R", [pB, pC]), 1: pE(W), 2: ("R", [pB, pC])}
    part = {0: pB, 1: pE(pA), 2: pC}
    for perm in itertools.permutations([0, 1, 2]):
        rev = tuple(reversed(perm))
        for f in (0, 1, 2):
            obj = lambda order, sub: ("O", [(g, sub if g == f else W) for g in order])
            add(C2, [obj(perm, first[f]), obj(rev, rest[f])], ("match", "let", "iflet"))       # exhaustive
            add(C2, [obj(perm, first[f]), obj(rev, part[f])])                                  # not exhaustive
        add(C2, [("O", [(g, ("I", 10 + g)) for g in perm])], ("let", "iflet"))                # irrefutable
        add(C2, [("O", [(g, first[g]) for g in perm]), ("O", [(g, W) for g in rev])])
    # 2. tuple patterns: arity under / exact / over, refutable in the middle
    for t in ([pA, pD, pB], [W, pE(pA), W], [pA, pD], [pA], [pA, pD, pB, W], [W, W, W, pA]):
        add(C2, [("T", t)], ("match", "let", "iflet"), malformed=len(t) != 3)
        add(C2, [("T", t), W], malformed=len(t) != 3)
    add(C2, [("T", [pA, W, W]), ("T", [W, pD, W]), ("T", [("R", [pB, pC]), pE(W), W])])
    # 3. variant patterns: unknown tag, arity, missing parentheses, nested / generic payloads
    for v in (pA, pB, pC, ("V", 7, [], False), ("V", 7, [W], True), ("V", 2, [W], True), ("V", 1, [W, W], True),
              ("V", 1, [], False), ("V", 2, [pC, W], True), ("V", 2, [("V", 2, [pA, W], True), ("I", 1)], True)):
        bad = v[1] == 7 or (v[1] == 1 and len(v[2]) != 1) or (v[1] == 2 and len(v[2]) != 2)
        add(C0, [v], ("match", "let", "iflet"), malformed=bad)
        add(C0, [v, W], malformed=bad)
    add(C0, [pA, pB, pC]); add(C0, [pA, pC]); add(C0, [pA, pB, ("V", 2, [pA, W], True)])
    add(G1C0, [pD, pE(pA), pE(pB), pE(pC)]); add(G1C0, [pD, pE(pA)]); add(G1C0, [pE(W)], ("match", "let", "iflet"))
    add(G1I, [pD, pE(("I", 1))]); add(G1I, [pE(pA)], malformed=True)
    add(C4, [("T", [pE(W), pE(pA)]), ("T", [pD, W]), ("T", [W, pD]), ("T", [W, pE(("R", [pB, pC]))])])
    add(C4, [("T", [pE(W), pE(pA)]), ("T", [pD, W])])
    # 4. matched type is not a struct / not an enum
    for ty in (INT, C0, C2):
        for q in (pA, ("T", [W, W]), ("O", [(0, W)]), ("T", [("R", [pA, pB]), W]), ("V", 7, [("R", [pA, pB])], True),
                  ("O", [(0, ("R", [pA, ("I", 2)]))])):
            add(ty, [q], ("match", "let", "iflet"), malformed=True)
            add(ty, [q, W], malformed=True)
    # 5. object pattern errors: unknown / duplicate / omitted / private field
    add(C2, [("O", [(0, pA), (1, W), (2, W), (5, W)])], ("match", "let", "iflet"), malformed=True)
    add(C2, [("O", [(5, pA), (0, W), (1, W), (2, W)]), W], malformed=True)
    add(C2, [("O", [(0, pA), (0, pB), (1, W), (2, W)]), ("O", [(0, pA), (1, W), (2, W)])], malformed=True)
    add(C2, [("O", [(1, pD), (2, W)]), ("O", [(2, W), (1, pE(W))])], ("match", "let", "iflet"), malformed=True)
    for home in (None, "C3"):
        add(C3, [("O", [(4, W), (3, pA)]), ("O", [(3, ("R", [pB, pC])), (4, ("I", 1))])], ("match", "let", "iflet"), home=home)
        add(C3, [("T", [pA, W])], ("match", "let", "iflet"), home=home)
        add(C3, [("T", [pA])], home=home, malformed=True)
    # 6. or-patterns: nested, bindings consistent / inconsistent (names, types)
    add(C0, [("R", [pA, ("R", [pB, pC])])], ("match", "let", "iflet"))
    add(C0, [("R", [("V", 1, [("I", 1)], True), ("V", 2, [W, ("I", 1)], True)]), pA])
    add(C0, [("R", [("V", 1, [("I", 1)], True), ("V", 2, [("I", 1), W], True)]), pA], malformed=True)
    add(C0, [("R", [("V", 1, [("I", 1)], True), pA]), pC], malformed=True)
    add(C0, [("R", [("V", 1, [("I", 1)], True), ("V", 2, [W, ("I", 2)], True)])], ("match", "let", "iflet"), malformed=True)
    add(C2, [("O", [(2, W), (1, ("R", [pD, pE(pA)])), (0, W)]), ("T", [W, pE(("R", [pB, pC])), W])])
    add(C2, [("T", [("I", 1), W, ("I", 1)])], ("match", "let", "iflet"), malformed=True)      # same name twice
    add(C2, [("T", [("I", 0), W, W])], ("match", "let", "iflet"), malformed=True)             # shadows the parameter
    return out


def wrapper_family():
    """Seed-independent TYPE-side family: enums with 1, 2 and 3 variants and payload arity 0..3, payloads
    drawn from {int, enum, struct of enums, generic enum instantiated, single-variant wrapper of these,
    wrapper of a wrapper}, and for every scrutinee type every pattern that has its single refutable
    leaf at one path of the type's constructor tree (depth <= 3), all other positions `_`, with struct
    nodes written alternately as tuple and as object pattern (fields reversed) - as match (alone and
    followed by `_`), let and if-let.  (bool payloads are not generated: patterns cannot inspect a
    primitive, `int` stands for all of them.)"""
    W = ("W",)
    INT = ("int",)
    cls = lambda n, a=None: ("cls", n, a)
    C0 = cls("C0")
    classes = [
        {"name": "C0", "generic": 0, "kind": "enum", "variants": [(0, []), (1, [])]},                               # 2 x arity 0
        {"name": "C1", "generic": 0, "kind": "enum", "variants": [(0, []), (2, [INT]), (3, [C0, C0])]},            # 3 variants, arity 0,1,2
        {"name": "C2", "generic": 0, "kind": "struct", "fields": [(0, C0), (1, INT)]},                             # struct of enum + int
        {"name": "C3", "generic": 0, "kind": "struct", "fields": [(0, C0), (1, cls("C1"))]},                       # "pair" of enums
        {"name": "G4", "generic": 1, "kind": "enum", "variants": [(4, []), (5, [("tp", 0)])]},                     # generic
        {"name": "C5", "generic": 0, "kind": "enum", "variants": [(6, [cls("C2")])]},                              # single variant, struct payload
        {"name": "C6", "generic": 0, "kind": "enum", "variants": [(6, [C0])]},                                     # single variant, enum payload
        {"name": "C7", "generic": 0, "kind": "enum", "variants": [(7, [cls("C2"), cls("G4", (C0,)), cls("C6")])]},  # single variant, arity 3
        {"name": "C8", "generic": 0, "kind": "enum", "variants": [(7, [cls("C5")])]},                              # wrapper of a wrapper
        {"name": "C9", "generic": 0, "kind": "enum", "variants": [(5, [cls("C2")]), (6, [cls("C2"), cls("C3")]), (4, [])]},
        {"name": "C10", "generic": 0, "kind": "enum", "variants": [(7, [])]},                                      # single variant, arity 0
    ]
    roots = [cls("C5"), cls("C6"), cls("C7"), cls("C8"), cls("C9"), cls("C10"), cls("C3"), cls("C2"),
             cls("G4", (cls("C2"),)), cls("G4", (cls("C5"),)), cls("G4", (cls("C8"),)), cls("G4", (cls("C10"),))]
    flip = [0]

    def spines(t, depth):
        d = ty_def(classes, t)
        if depth == 0 or d[0] == "prim":
            return
        if d[0] == "enum":
            for v, tys in d[2][:2]:
                yield ("V", v, [W] * len(tys), bool(tys))              # leaf (refutable iff >= 2 variants)
            for v, tys in d[2]:
                for j, ft in enumerate(tys):
                    for sub in spines(ft, depth - 1):
                        yield ("V", v, [sub if i == j else W for i in range(len(tys))], True)
        else:
            fs = d[1]
            for j, (f, ft) in enumerate(fs):
                for sub in spines(ft, depth - 1):
                    flip[0] += 1
                    if flip[0] % 2:
                        yield ("T", [sub if i == j else W for i in range(len(fs))])
                    else:
                        yield ("O", [(g, sub if g == f else W) for g, _ in reversed(fs)])
    out, seen = [], set()
    for ty in roots:
        for p in spines(ty, 3):
            key = (ty, repr(p))
            if key in seen:
                continue
            seen.add(key)
            for kind, pats in (("match", [p]), ("match", [p, W]), ("let", [p]), ("iflet", [p])):
                out.append({"classes": classes, "ty": ty, "kind": kind, "pats": pats, "home": None})
    return out


def binder_family():
    """Seed-independent family over the DECLARATION the scrutinee's static type resolves to: the type is a
    type parameter bounded by an enum class (Narrow(A, B) / Wide(A, B, C)) or unbounded; the parameter
    belongs to the enclosing generic class (visible in methods only), to the member itself, or the
    member's parameter reuses the class parameter's name with a different bound (legal for static
    functions: the function's own parameter wins; a collision for methods) - x static function / method
    x match exhaustive for Narrow / for Wide / missing one, let, if-let refutable / irrefutable."""
    NARROW, WIDE = ("cls", "C0", None), ("cls", "C1", None)
    classes = [{"name": "C0", "generic": 0, "kind": "enum", "variants": [(0, []), (1, [])]},
               {"name": "C1", "generic": 0, "kind": "enum", "variants": [(0, []), (1, []), (2, [])]}]
    v = lambda i: ("V", i, [], False)
    bodies = [("match", [v(0), v(1)]), ("match", [v(0), v(1), v(2)]), ("match", [v(0)]), ("match", [v(0), ("W",)]),
              ("let", [v(0)]), ("let", [("I", 1)]), ("iflet", [v(0)]), ("iflet", [("R", [v(0), v(1)])]),
              ("iflet", [("R", [v(0), v(1), v(2)])])]
    T, U = 0, 1
    out = []
    for cb in (NARROW, WIDE, None):
        cls_params = [(T, cb)]
        configs = []
        for fb in (NARROW, WIDE, None):
            configs.append((False, [(T, fb)], T))       # static function, own T shadows the class's T
            configs.append((False, [(U, fb)], U))       # static function, own U
            configs.append((True, [(U, fb)], U))        # method, own U
            configs.append((True, [(U, fb)], T))        # method with an own U, scrutinee of the class's T
        configs.append((True, [], T))                   # method, the class's T
        configs.append((True, [(T, WIDE if cb != WIDE else NARROW)], T))   # method reusing the name: collision
        configs.append((False, [], T))                  # static function using the class's T: not in scope
        for method, fn_params, scrut in configs:
            # the language rule, implemented here independently of the Lean model: innermost binder
            scope = (cls_params + fn_params) if method else fn_params
            hit = [b for n, b in scope if n == scrut]
            # (for a colliding method the checker resolves to the FIRST entry and reports the collision)
            ty = hit[0] if hit else None
            for kind, pats in bodies:
                out.append({"classes": classes, "ty": ty, "kind": kind, "pats": pats, "home": None,
                            "binder": {"method": method, "cls": cls_params, "fn": fn_params, "scrut": scrut},
                            "malformed": ty is None or (method and any(n == T for n, _ in fn_params))})
    return out


def tuple_family():
    """Seed-independent family over the standard library's tuple classes (std/tuples.sam, data the
    checker reads): for every size N = 2..16 and every position i, an N-tuple expression whose components
    are pairwise different enums with overlapping variant names ({A, B} + a different subset of
    {C, D, E, F} each), a refutable pattern at position i only - as match exhaustive / missing one, let,
    if-let irrefutable / refutable.  Model: an N-tuple is a struct of N fields."""
    W = ("W",)
    enums = []
    for j in range(16):
        extra = [2 + b for b in range(4) if (j >> b) & 1]
        enums.append({"name": f"K{j}", "generic": 0, "kind": "enum", "variants": [(v, []) for v in [0, 1] + extra]})
    out = []
    for n in range(2, 17):
        comps = [("cls", f"K{j}", None) for j in range(n)]
        tup = {"name": "Tup", "generic": 0, "kind": "struct", "fields": [(k, comps[k]) for k in range(n)]}
        classes = enums[:n] + [tup]
        ty = ("cls", "Tup", None)
        for i in range(n):
            vs = [v for v, _ in enums[i]["variants"]]
            at = lambda q: ("T", [q if k == i else W for k in range(n)])
            var = lambda v: ("V", v, [], False)
            for kind, pats in (("match", [at(var(v)) for v in vs]), ("match", [at(var(v)) for v in vs[:-1]]),
                               ("let", [at(var(vs[0]))]), ("iflet", [at(("R", [var(v) for v in vs]))]),
                               ("iflet", [at(("R", [var(v) for v in vs[:-1]]))] if len(vs) > 2 else [at(var(vs[0]))])):
                out.append({"classes": classes, "ty": ty, "kind": kind, "pats": pats, "home": None,
                            "op": "chkstd", "tuple_of": comps})
    return out


def gen_object_case(rng):
    """Stream `object-reorder`: a struct of 2-3 enum-typed fields matched by object patterns whose
    fields are written in a random order, each with a refutable sub-pattern (or `_`), in several arms -
    so a permutation of abstract columns changes the accept/reject verdict, not only the counterexample."""
    ne = rng.range(1, 2)
    classes = []
    for i in range(ne):
        names = rng.shuffle(list(range(len(VNAMES))))[:rng.range(2, 3)]
        classes.append({"name": f"C{i}", "generic": 0, "kind": "enum",
                        "variants": [(v, [("int",)] * rng.below(2)) for v in names]})
    nf = rng.range(2, 3)
    fids = rng.shuffle(list(range(len(FNAMES))))[:nf]
    st = {"name": f"C{ne}", "generic": 0, "kind": "struct",
          "fields": [(f, ("cls", rng.pick(classes)["name"], None)) for f in fids]}
    classes.append(st)
    ty = ("cls", st["name"], None)
    ctr = [0]

    def sub(t):
        d = ty_def(classes, t)
        if rng.chance(1, 4):
            return ("W",) if rng.chance(1, 2) else ("I", fresh(ctr))
        v, tys = rng.pick(d[2])
        return ("V", v, [("W",)] * len(tys), True)
    kind = rng.weighted([("match", 8), ("let", 1), ("iflet", 1)])
    n = rng.range(2, 5) if kind == "match" else 1
    pats = []
    for _ in range(n):
        if rng.chance(1, 5):
            pats.append(("T", [sub(t) for _, t in st["fields"]]))
        else:
            pats.append(("O", rng.shuffle([(f, sub(t)) for f, t in st["fields"]])))
    return {"classes": classes, "ty": ty, "kind": kind, "pats": pats}


def exhaustive_small(ctx, stats, limit):
    """Search stream: every list of <= 3 arms over a fixed small declaration set drawn from a fixed
    pattern vocabulary (depth <= 2) - separates single-line changes of specialise/default/roots."""
    classes = [
        {"name": "G0", "generic": 1, "kind": "enum", "variants": [(0, []), (1, [("tp", 0)])]},
        {"name": "C1", "generic": 0, "kind": "enum", "variants": [(2, []), (3, [("cls", "C1", None)]), (4, [("cls", "G0", (("int",),)), ("cls", "C1", None)])]},
        {"name": "C2", "generic": 0, "kind": "struct", "fields": [(0, ("cls", "G0", (("cls", "C1", None),))), (1, ("cls", "C1", None))]},
    ]
    W = ("W",)
    g = lambda *a: ("V", 1, list(a), True)
    n0 = ("V", 0, [], False)
    c2, c3, c4 = ("V", 2, [], False), (lambda a: ("V", 3, [a], True)), (lambda a, b: ("V", 4, [a, b], True))
    c1_pats = [W, c2, c3(W), c3(c2), c4(W, W), c4(n0, W), c4(g(W), c2), ("R", [c2, c3(W)]), c3(("R", [c2, c4(W, W)]))]
    g_pats = [W, n0, g(W), g(c2), g(c3(W)), ("R", [n0, g(c2)])]
    vocab = [("T", [a, b]) for a in g_pats for b in c1_pats] + [W, ("O", [(1, c2), (0, W)]), ("R", [("T", [n0, W]), ("T", [W, c2])])]
    ty = ("cls", "C2", None)
    rng = ctx.rng.fork()
    cases = []
    for _ in range(limit):
        n = rng.range(1, 4)
        pats = [rng.pick(vocab) for _ in range(n)]
        kind = "match" if n > 1 or rng.chance(2, 3) else rng.pick(["let", "iflet"])
        cases.append({"classes": classes, "ty": ty, "kind": kind, "pats": pats if kind == "match" else pats[:1]})
    return cases


F1_CASE = {"classes": [{"name": "C0", "generic": 0, "kind": "struct", "fields": [(0, ("int",)), (1, ("int",))]}],
           "ty": ("cls", "C0", None), "kind": "match", "pats": [("T", [("I", 1), ("I", 2)]), ("T", [("I", 3), ("I", 4), ("I", 5)])],
           "malformed": True}


def run(ctx):
    stats = {"kinds": {}, "outcomes": {}, "answers": [], "contexts": {}}

    def search():
        cases = exhaustive_small(ctx, stats, 1500)
        return run_cases(ctx, cases, "search after broken proof", stats) > 0

    rc_x, out_x = common.sh(["python3", os.path.join(common.VERIF, "extract", "c07_tuples.py")])
    if rc_x != 0:
        ctx.violation("translator extract/c07_tuples.py can no longer read std/tuples.sam: " + out_x.strip()[-300:],
                      {"broken": "extract/c07_tuples.py", "log": out_x[-3000:]}, no_input=True)
    else:
        # name the entry that falsifies `std_tuples_fields` (the theorem itself is checked by `decide`)
        gen = open(os.path.join(common.LEAN, "SamVerif", "Generated", "C07Tuples.lean"), encoding="utf-8").read()
        for m in re.finditer(r"\((\d+), (\d+), \[([^\]]*)\]\)", gen):
            n, k, fl = int(m.group(1)), int(m.group(2)), re.findall(r"\((\d+), (\d+)\)", m.group(3))
            offs = [(pos, int(a), int(b)) for pos, (a, b) in enumerate(fl) if int(a) != pos or int(b) != pos]
            if k != n or len(fl) != n or offs:
                ctx.violation(f"std/tuples.sam: the tuple class of size {n} does not declare field k as `e<k>: E<k>` "
                              f"(type parameters {k}, fields {len(fl)}, off entries (position, e, E): {offs[:4]}); theorem std_tuples_fields is false for it",
                              {"broken": "std_tuples_fields", "size": n, "entries": offs}, no_input=True)
    res = common.proof_gate(ctx, search)
    rng = ctx.rng
    total = 0
    # corpus (json cases) first
    cdir = os.path.join(common.VERIF, "corpus", "C07")
    corpus = []
    for f in sorted(os.listdir(cdir)) if os.path.isdir(cdir) else []:
        if f.endswith(".json"):
            corpus.append(load_case(json.load(open(os.path.join(cdir, f)))))
    fam = deterministic_family()
    run_cases(ctx, fam, "deterministic family (pattern conversion branches)", stats); total += len(fam)
    stats["deterministic_family"] = len(fam)
    wfam = wrapper_family()
    run_cases(ctx, wfam, "deterministic family (single-variant wrappers, refutable leaf at every path)", stats); total += len(wfam)
    stats["wrapper_family"] = len(wfam)
    bfam = binder_family()
    run_cases(ctx, bfam, "deterministic family (type-parameter scrutinees: which declaration is in scope)", stats); total += len(bfam)
    stats["binder_family"] = len(bfam)
    tfam = tuple_family()
    run_cases(ctx, tfam, "deterministic family (std tuples of every size 2..16, refutable pattern at every position)", stats); total += len(tfam)
    stats["tuple_family"] = len(tfam)
    corpus.append(F1_CASE)   # regression input of the fixed finding C07-F1 (must not panic any more)
    run_cases(ctx, corpus, "corpus", stats); total += len(corpus)
    n_valid = ctx.scale(1400, 40000)
    n_small = ctx.scale(600, 20000)
    n_mal = ctx.scale(300, 6000)
    n_un = ctx.scale(100, 2000)
    n_obj = ctx.scale(300, 6000)
    n_ctx = ctx.scale(120, 2500)
    batch = 500
    # expression contexts first: cheap, deterministic family x generated cases
    done = 0
    while done < n_ctx and not any(not v[1] for v in ctx.violations) and len(ctx.violations) < 6:
        k = min(60, n_ctx - done)
        cs = [gen_object_case(rng.fork()) if j % 3 == 0 else dict(gen_case(rng.fork(), False), home=None) for j in range(k)]
        run_context_cases(ctx, cs, stats)
        done += k; total += k * len(CONTEXTS)
    for n, mk, label in ((n_obj, lambda: gen_object_case(rng.fork()), "object-reorder"),
                         (n_valid, lambda: gen_case(rng.fork(), False), "generated valid"),
                         (n_small, None, "small-vocabulary search"),
                         (n_mal, lambda: gen_case(rng.fork(), True), "generated malformed"),
                         (n_un, lambda: gen_case(rng.fork(), False, True), "generated with an uninhabited type (model/implementation agreement only)")):
        done = 0
        # keep searching after a mere tie disagreement: a concrete property-level input is worth more
        while done < n and not any(not v[1] for v in ctx.violations) and len(ctx.violations) < 6:
            k = min(batch, n - done)
            cases = exhaustive_small(ctx, stats, k) if mk is None else [mk() for _ in range(k)]
            run_cases(ctx, cases, f"{label} seed={ctx.seed}", stats)
            done += k; total += len(cases)
    distinct = set()
    nontrivial = 0
    samples = []
    for out, ia, ma in stats["answers"]:
        if ia in distinct:
            continue
        distinct.add(ia)
        if out in ("nonexh", "useless"):
            nontrivial += 1
            if len(samples) < 4:
                src = common.unhex(ia.split(" ")[0]) if False else None
                samples.append({"impl": ia if len(ia) < 200 else ia[:200], "model": ma})
    answers = stats.pop("answers")
    ctx.cov.update({
        "evaluations": total, "distinct_nontrivial": nontrivial,
        "rule": "one evaluation = one generated module (1-4 enum/struct/generic classes, recursive and nested) with one match (1-6 arms) / destructuring let / if-let over variant, tuple, object, wildcard, id, or-patterns of depth <= 4, type-checked by the real checker and by the model; non-trivial = distinct implementation answer carrying a NonExhaustiveMatch counterexample or an irrefutable-if-let diagnostic",
        "samples": samples, "traces_validated_against_impl": total,
        "case_kinds": stats["kinds"], "expression_contexts": stats["contexts"], "impl_outcomes": stats["outcomes"],
        "oracle": {k: v for k, v in stats.items() if k in ("checked", "skipped-size", "skipped-malformed", "skipped-uninhabited", "illtyped", "uninhabited", "certified", "deterministic_family", "wrapper_family", "binder_family", "tuple_family")},
        "pending": PENDING})
    ctx.assumptions += [
        "every type reachable from the scrutinee type has a value (Inhabited'); for uninhabited recursive enums the algorithm still asks for all variants (stated in DESIGN section 8 C07)",
                "variant names <= 15 bytes so that PStr order is byte order"]
    return ctx.finish(res, trusted=common.TRUSTED_COMMON + [
        "hand-written model Model/Useful.lean (HashMap of root constructors as association list; default-matrix row order differs from the Rust work-list, no caller depends on it)",
        "Python brute-force oracle in vlib/c07.py (values up to patterns' depth+1 with least inhabitants below)",
        "not modelled: type inference of the scrutinee, generic instantiation (the protocol passes monomorphic instances to the model; the oracle substitutes independently), binding environments"])


PENDING = [
    "nothing of the pattern language itself: all abstract patterns, normalisation on swf, and rejection outside swf are proved (source_pattern_dichotomy); the items below are validated by correspondence / oracle only",
    "the glue around the analysis (which expression contexts reach check_match / check_declaration_statement / check_if_else in which inference mode) is covered by the deterministic family of 40 expression contexts, not by a Lean model of the bidirectional checker",
    "the run-time meaning of `smatch` (that the lowered match really tests what the source-level semantics says) belongs to C01/C03 (`lowerMatch_correct`); the C07 check itself does not execute programs",
    "the diagnostics other than NonExhaustiveMatch / UselessPattern are compared as one flag (`err`: some other diagnostic was reported), not kind by kind",
]


def load_case(d):
    def tup(x):
        return tuple(tup(y) for y in x) if isinstance(x, list) and x and isinstance(x[0], str) and x[0] in ("int", "tp", "cls") else x

    def ty(x):
        if x is None:
            return None
        if x[0] == "int":
            return ("int",)
        if x[0] == "tp":
            return ("tp", x[1] if len(x) > 1 else 0)
        a = x[2]
        if a is not None and a and isinstance(a[0], str):
            a = [a]                       # legacy single-argument form
        return ("cls", x[1], None if a is None else tuple(ty(y) for y in a))

    def pat(p):
        k = p[0]
        if k == "W":
            return ("W",)
        if k == "I":
            return ("I", p[1])
        if k in ("T", "R"):
            return (k, [pat(x) for x in p[1]])
        if k == "O":
            return (k, [(f, pat(x)) for f, x in p[1]])
        return ("V", p[1], [pat(x) for x in p[2]], p[3])
    classes = []
    for c in d["classes"]:
        c = dict(c)
        c["generic"] = int(c["generic"])
        if c["kind"] == "enum":
            c["variants"] = [(v, [ty(x) for x in tys]) for v, tys in c["variants"]]
        else:
            c["fields"] = [(f, ty(x)) for f, x in c["fields"]]
        classes.append(c)
    return {"classes": classes, "ty": ty(d["ty"]), "kind": d["kind"], "pats": [pat(p) for p in d["pats"]],
            "malformed": d.get("malformed", False), "home": d.get("home")}


def replay(ctx, path):
    common.build_harness("C07"); common.build_lean(["drv-c07"])
    data = json.load(open(path))
    rp = data.get("replay", data)
    line = rp.get("line")
    if not line:
        print(json.dumps(data, indent=1)); return 1
    impl, model = common.run_pair("C07", [line])
    print(rp.get("source", ""))
    print("impl :", impl[0], impl_verdict(impl[0]))
    print("model:", model[0], model_verdict(model[0]))
    iv, mv = impl_verdict(impl[0]), model_verdict(model[0])
    same = all(iv.get(k) == mv.get(k) for k in ("nonexh", "useless", "err")) and "panic" not in iv
    return 0 if same else 1
