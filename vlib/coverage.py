#!/usr/bin/env python3
"""Measure which lines of the code a property is anchored in are EXECUTED by that property's check.

    vlib/coverage.py Cxx [Cyy ...] [--tier quick|thorough]

Measurement only — never part of a verdict, not registered in MANIFEST.json. It answers the question
the seeded-fault rounds keep asking: "which part of the anchored code does the correspondence run
never reach?" (a fault there can only be caught by a broken proof obligation, not by the tie).

How: the harness is built a second time with `cargo +nightly -C instrument-coverage` into
harness/target/cov (SAMVERIF_COV=1 makes vlib/common.py use that copy), the check runs as usual
(same generators, same seed), every harness process merges its counters into a small pool of
.profraw files under /scratch/cov/Cxx, and llvm-cov (nightly's llvm-tools) exports line counts for
the files listed in the property's anchors. Output: coverage/Cxx.json (+ .txt with the uncovered
line ranges and their source text). The check's own evidence file is restored afterwards.
"""
import json, os, re, shutil, subprocess, sys, glob

V = os.path.dirname(os.path.dirname(os.path.abspath(__file__)))
REPO = os.environ.get("SAMVERIF_REPO", "/repo")
TOOLS = glob.glob(os.path.expanduser("~/.rustup/toolchains/nightly-x86_64-*/lib/rustlib/*/bin"))


def tool(name):
    for t in TOOLS:
        if os.path.exists(os.path.join(t, name)):
            return os.path.join(t, name)
    sys.exit(f"coverage: {name} not found (nightly llvm-tools)")


def anchors(prop):
    for l in open(os.path.join(V, "properties.jsonl")):
        p = json.loads(l)
        if p["id"] == prop:
            a = p.get("anchors") or p.get("code") or {}
            return list(a.get("files", []))
    sys.exit(f"coverage: unknown property {prop}")


def test_ranges(path):
    """line ranges of `#[cfg(test)] mod … { }` blocks (not compiled into the harness)."""
    try:
        lines = open(path, encoding="utf-8").read().split("\n")
    except OSError:
        return []
    out, i = [], 0
    while i < len(lines):
        if lines[i].strip() == "#[cfg(test)]" and i + 1 < len(lines) and re.match(r"\s*(pub\s+)?mod\s+\w+\s*\{", lines[i + 1]):
            depth, j = 0, i + 1
            while j < len(lines):
                depth += lines[j].count("{") - lines[j].count("}")
                if depth <= 0 and j > i + 1 or (depth == 0 and "{" in lines[j] and "}" in lines[j]):
                    break
                j += 1
            out.append((i + 1, j + 1)); i = j
        i += 1
    return out


def one(prop, tier):
    files = anchors(prop)
    rs = [f for f in files if f.endswith(".rs")]
    raw = f"/scratch/cov/{prop}"
    shutil.rmtree(raw, ignore_errors=True); os.makedirs(raw)
    ev = os.path.join(V, "evidence", prop + ".json")
    keep = open(ev, "rb").read() if os.path.exists(ev) else None
    env = dict(os.environ, SAMVERIF_COV="1", LLVM_PROFILE_FILE=os.path.join(raw, "cov-%8m.profraw"))
    p = subprocess.run([os.path.join(V, "check"), prop, "--tier", tier], cwd=V, env=env,
                       stdout=subprocess.PIPE, stderr=subprocess.STDOUT)
    if keep is not None:
        open(ev, "wb").write(keep)
    tail = p.stdout.decode("utf-8", "replace").strip().split("\n")[-3:]
    profs = glob.glob(os.path.join(raw, "*.profraw"))
    if not profs:
        print(f"{prop}: no profile data (check rc={p.returncode}): {tail}"); return
    pd = os.path.join(raw, "merged.profdata")
    subprocess.run([tool("llvm-profdata"), "merge", "-sparse", "-o", pd] + profs, check=True)
    covdir = os.path.join(V, "harness", "target", "cov", "debug")
    bins = [b for b in (os.path.join(covdir, prop.lower()), os.path.join(covdir, "exec"), os.path.join(covdir, "srcdump")) if os.path.exists(b)]
    cmd = [tool("llvm-cov"), "export", "-format=lcov", "-instr-profile", pd, bins[0]]
    for b in bins[1:]:
        cmd += ["-object", b]
    cmd += [os.path.join(REPO, f) for f in rs]
    lc = subprocess.run(cmd, stdout=subprocess.PIPE, stderr=subprocess.PIPE).stdout.decode("utf-8", "replace")
    per, cur = {}, None
    for l in lc.split("\n"):
        if l.startswith("SF:"):
            cur = os.path.relpath(l[3:], REPO); per.setdefault(cur, {})
        elif l.startswith("DA:") and cur:
            ln, cnt = l[3:].split(",")[:2]
            per[cur][int(ln)] = max(per[cur].get(int(ln), 0), int(cnt))
    report, txt = {"property": prop, "tier": tier, "check_rc": p.returncode, "files": {}}, []
    for f in rs:
        da = per.get(f, {})
        tr = test_ranges(os.path.join(REPO, f))
        da = {ln: c for ln, c in da.items() if not any(a <= ln <= b for a, b in tr)}
        src = open(os.path.join(REPO, f), encoding="utf-8").read().split("\n") if os.path.exists(os.path.join(REPO, f)) else []
        # lines inside #[cfg(samlang_verif)] items are hooks, not product code: drop `verif_` lines
        unc = sorted(ln for ln, c in da.items() if c == 0)
        ranges, start, prev = [], None, None
        for ln in unc:
            if start is None:
                start = prev = ln
            elif ln == prev + 1:
                prev = ln
            else:
                ranges.append((start, prev)); start = prev = ln
        if start is not None:
            ranges.append((start, prev))
        tot, hit = len(da), sum(1 for c in da.values() if c > 0)
        report["files"][f] = {"instrumented_lines": tot, "executed_lines": hit,
                              "percent": round(100.0 * hit / tot, 1) if tot else None,
                              "uncovered_ranges": [[a, b] for a, b in ranges]}
        txt.append(f"== {f}: {hit}/{tot} instrumented lines executed" + (f" ({100.0*hit/tot:.1f}%)" if tot else " (not linked into this harness)"))
        for a, b in ranges:
            txt.append(f"  -- {f}:{a}-{b}")
            for ln in range(a, min(b, a + 11) + 1):
                if 0 < ln <= len(src):
                    txt.append(f"     {ln:5d} | {src[ln-1][:140]}")
            if b > a + 11:
                txt.append(f"           | … ({b - a - 11} more lines)")
    os.makedirs(os.path.join(V, "coverage"), exist_ok=True)
    json.dump(report, open(os.path.join(V, "coverage", prop + ".json"), "w"), indent=1)
    open(os.path.join(V, "coverage", prop + ".txt"), "w").write("\n".join(txt) + "\n")
    shutil.rmtree(raw, ignore_errors=True)
    print(f"{prop}: check rc={p.returncode}; " + "; ".join(
        f"{os.path.basename(f)} {d['percent']}%" for f, d in report["files"].items()))


def main():
    args = [a for a in sys.argv[1:] if not a.startswith("--")]
    tier = "thorough" if "--tier" in sys.argv and sys.argv[sys.argv.index("--tier") + 1] == "thorough" else "quick"
    args = [a for a in args if a not in ("quick", "thorough")]
    for prop in args:
        one(prop, tier)


if __name__ == "__main__":
    main()
