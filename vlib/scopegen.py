"""Type-directed generator of small samlang programs for the scope/inference properties (C13, C15).

Everything of value type is `int`, so every inferred type is known by construction: `let` bindings
and lambda parameters are `int`, every generic callee is instantiated at `int`.
Programs are trees (nested tuples) so that the C13 rewrites can be applied structurally (at single
sites and subsets of sites) and the text re-rendered.  All local names are unique inside a function
(the implementation rejects any rebinding, see Model/Scope.lean); struct-shorthand binders reuse
the field names `fa`/`fb` on purpose.

Tree shapes
  ("lit", n) ("var", x) ("raw", text) ("raw2", prefix, [args], suffix) ("bin", op, a, b)
  ("if", c, a, b) ("iflet", pat, scrut, a, b) ("tuple", [es]) ("block", [("let", pat, e, ann)], e)
  ("match", scrut, [(pat, e)]) ("lam", [(x, annotated)], body) ("call", f, [args])
  ("gcall", name, [args], explicit_targs, ntparams, prefix_or_None)   -- ntparams=0: not a site
  ("post", e, suffix) ("paren", e) ("wrap", e)
  ("chain", [(cond, e)], else_e, nested_from)   -- `if c1 {e1} else if c2 {e2} … else {else_e}`; with
                                                   nested_from = k the continuation from branch k on is
                                                   written `else { if ck … }` (block-wrapped)
  ("pid", x, type_text) = identifier pattern of a `let` whose inferred type is not `int`
  patterns: ("pid", x) ("pwild",) ("ptuple", [ps]) ("pobj", [(field, None | subpattern)])
            ("pvar", Ctor, [ps]) ("por", [ps])
"""

LIB = {
    "Box": "class Box(val fa: int, val fb: int) {\n  method sum(): int = this.fa + this.fb\n  function mk(x: int): Box = Box.init(x, x + 1)\n}",
    "Shp": "interface Shp {\n  method area(): int\n}",
    "Sh": "class Sh(Ci(int), Re(int, int), Em) : Shp {\n  method area(): int = match this { Ci(r) -> r * r, Re(w, h) -> w * h, Em -> 0 }\n}",
    "Opt": "class Opt(No, So(int)) {\n  function of(x: int): Opt = if x % 2 == 0 { Opt.So(x) } else { Opt.No() }\n}",
    "Fig": "class Fig(Ca(Box), Sq(Box), Dt) {\n  function of(x: int, y: int): Fig = if x % 3 == 0 { Fig.Ca(Box.init(x, y)) } else { if x % 3 == 1 { Fig.Sq(Box.init(y, x)) } else { Fig.Dt() } }\n}",
    "Wr": "class Wr(Wa(Sh), Wb(int)) {\n  function of(x: int): Wr = if x % 4 == 0 { Wr.Wb(x) } else { if x % 4 == 1 { Wr.Wa(Sh.Ci(x)) } else { if x % 4 == 2 { Wr.Wa(Sh.Re(x, 1)) } else { Wr.Wa(Sh.Em()) } } }\n}",
    "Wr2": "class Wr2(Xa(Sh), Xb(Sh)) {\n  function of(x: int): Wr2 = if x % 2 == 0 { Wr2.Xa(Sh.Ci(x)) } else { Wr2.Xb(Sh.Re(x, 2)) }\n}",
    "Maybe": "class Maybe<T>(Nothing, Just(T)) {\n  method getOr(d: T): T = match this { Nothing -> d, Just(v) -> v }\n}",
    "Cell": "class Cell<T>(val v: T) {\n  method <R> map(f: (T) -> R): Cell<R> = Cell.init(f(this.v))\n  method get(): T = this.v\n}",
}
LIB_ORDER = ["Box", "Shp", "Sh", "Opt", "Fig", "Wr", "Wr2", "Maybe", "Cell"]

HELPERS = [
    "  function <T> id(x: T): T = x",
    "  function ap(g: (int) -> int, x: int): int = g(x)",
    "  function inc(x: int): int = x + 1",
    "  function <T> comb(f: (int, T) -> int, s: T): int = f(20, s)",
    "  function <A, B> app2(f: (A, B) -> int, a: A, b: B): int = f(a, b)",
    "  function <T> twice(f: (T) -> T, x: T): T = f(f(x))",
    "  function <A, B> pipe(x: A, f: (A) -> B): B = f(x)",
    "  function <T> pick(a: T, b: T, c: bool): T = if c { a } else { b }",
    "  function <A> count(f: (A) -> int): int = 7",
    "  function seven(): int = 7",
    "  function <T> constFn(v: T): (T) -> T = (ignored) -> v",
    "  function <T> orElse(o: Maybe<T>, d: T): T = o.getOr(d)",
    "  function mkJust(x: int): Maybe<int> = Maybe.Just(x)",
    "  function incFn(): (int) -> int = (q: int) -> q + 1",
    "  function shOf(x: int): Sh = if x % 3 == 0 { Sh.Ci(x) } else { if x % 3 == 1 { Sh.Re(x, 1) } else { Sh.Em() } }",
]

# ---- branch-structured arguments of generic calls: needs-hint x synthesisable branches, every order
M_KINDS = ["nothing", "just-lit", "just-var", "just-call", "just-nested", "plain-call", "var"]
L_KINDS = ["lam", "lam-annot", "const-call", "const-var", "const-lit", "const-nested", "plain-call"]
NEEDS_HINT = {"nothing", "lam"}


def mix_branch(family, kind, v, fresh):
    seven = ("raw", "Main.seven()")
    if family == "M":
        return {"nothing": lambda: gc("Maybe.Nothing", [], 1),
                "just-lit": lambda: gc("Maybe.Just", [("lit", 3)], 1),
                "just-var": lambda: gc("Maybe.Just", [("var", v)], 1),
                "just-call": lambda: gc("Maybe.Just", [seven], 1),
                "just-nested": lambda: gc("Maybe.Just", [gc("Main.id", [seven], 1)], 1),
                "plain-call": lambda: ("raw2", "Main.mkJust(", [("var", v)], ")"),
                "var": lambda: ("var", "mv")}[kind]()
    x = fresh()
    return {"lam": lambda: ("lam", [(x, False)], ("bin", "+", ("var", x), ("lit", 1))),
            "lam-annot": lambda: ("lam", [(x, True)], ("bin", "+", ("var", x), ("var", v))),
            "const-call": lambda: gc("Main.constFn", [seven], 1),
            "const-var": lambda: gc("Main.constFn", [("var", v)], 1),
            "const-lit": lambda: gc("Main.constFn", [("lit", 5)], 1),
            "const-nested": lambda: gc("Main.constFn", [gc("Main.id", [seven], 1)], 1),
            "plain-call": lambda: ("raw", "Main.incFn()")}[kind]()


def mix_expr(family, shape, kinds, v, fresh):
    """int-typed expression: a generic call with inferred type arguments one of whose arguments is an
    if/else, a match (3 arms) or a block ending in one, with the given branch kinds in the given order"""
    bs = [mix_branch(family, k, v, fresh) for k in kinds]
    cond = ("bin", "<", ("var", v), ("lit", 5))
    if shape == "match":
        arg = ("match", ("raw2", "Main.shOf(", [("var", v)], ")"),
               [(("pvar", "Ci", [("pwild",)]), bs[0]), (("pvar", "Re", [("pwild",), ("pwild",)]), bs[1]),
                (("pvar", "Em", []), bs[2 % len(bs)])])
    elif shape == "if-block":     # branches are blocks with a statement
        t1, t2 = fresh(), fresh()
        arg = ("if", cond, ("block", [("let", ("pid", t1), ("var", v), False)], bs[0]),
               ("block", [("let", ("pid", t2), ("var", v), False)], bs[1]))
    elif shape == "block-if":     # the argument is a block whose final expression is the if/else
        t1 = fresh()
        arg = ("block", [("let", ("pid", t1), ("var", v), False)], ("if", cond, bs[0], bs[1]))
    else:
        arg = ("if", cond, bs[0], bs[1])
    if family == "M":
        e = gc("Main.orElse", [arg, ("lit", 42)], 1)
    else:
        e = gc("Main.pipe", [("lit", 3), arg], 2)
    if "var" in kinds and family == "M":
        e = ("block", [("let", ("pid", "mv", "Maybe<int>"), gc("Maybe.Just", [("lit", 1)], 1), False)], e)
    return e


def mix_program(family, shape, kinds):
    """one deterministic member of the family as a program of its own"""
    n = [0]
    def fresh():
        n[0] += 1
        return f"w{n[0]}"
    body = mix_expr(family, shape, kinds, "v0", fresh)
    return {"funs": [{"name": "f0", "params": ["v0"], "body": body}], "args": [[3]], "args2": [[7]],
            "classes": LIB_ORDER + ["Main"], "split": None,
            "forms": ["mix-" + family + "-" + shape], "broken": None, "mix": (family, shape, tuple(kinds))}


def gc(name, args, ntp=0, prefix=None, explicit=False):
    """ntp: number of type parameters (all instantiated at int) or the list of type-argument texts;
    0 / []: not an annotation site"""
    targs = ["int"] * ntp if isinstance(ntp, int) else list(ntp)
    return ("gcall", name, args, explicit, targs, prefix)


class Gen:
    def __init__(self, rng, broken=None, rich_patterns=True):
        self.rng = rng
        self.n = 0
        self.broken = broken      # None | 'unbound' | 'dup' | 'type'
        self.broke = False
        self.forms = set()
        self.rich = rich_patterns

    def fresh(self):
        self.n += 1
        return f"v{self.n}"

    # -------- patterns
    def binder_names(self, env, k):
        """k names for pattern binders: fresh ones, or the field names fa/fb (struct shorthand)"""
        out = []
        for _ in range(k):
            c = self.rng.below(3)
            cand = "fa" if c == 0 else "fb" if c == 1 else None
            if cand and cand not in env and cand not in out:
                out.append(cand)
            else:
                out.append(self.fresh())
        return out

    def box_pat(self, names):
        """struct pattern over Box binding exactly `names` (<= 2): shorthand where the binder is the
        field's own name, `field as name` otherwise, `field as _` for the rest"""
        fields = self.rng.shuffle(["fa", "fb"])
        assign = {}
        rest = list(names)
        # a binder named like a field goes to that field (shorthand) most of the time
        for n in list(rest):
            if n in ("fa", "fb") and n not in assign and self.rng.chance(3, 4):
                assign[n] = None
                rest.remove(n)
        for f in fields:
            if f not in assign and rest:
                n = rest.pop()
                assign[f] = None if n == f else ("pid", n)
        els = []
        for f in ["fa", "fb"]:
            if f in assign:
                els.append((f, assign[f]))
                if assign[f] is None:
                    self.forms.add("struct-shorthand")
            else:
                els.append((f, ("pwild",)))
        return ("pobj", els)

    def sh_alts(self, name):
        """two alternatives over Sh binding `name`"""
        re = ("pvar", "Re", self.rng.pick([[("pid", name), ("pwild",)], [("pwild",), ("pid", name)]]))
        return [("pvar", "Ci", [("pid", name)]), re]

    def or_match(self, env, d):
        """match with an or-pattern case; returns the expression"""
        r = self.rng
        kind = r.below(8) if self.rich else 0
        if kind == 0:       # variants of Sh
            self.forms.add("or-pattern")
            x = self.fresh()
            alts = r.shuffle(self.sh_alts(x))
            return ("match", self.sh_expr(env, d),
                    [(("por", alts), self.int_expr(env + [x], d)), (("pvar", "Em", []), self.int_expr(env, d))])
        if kind == 1:       # struct patterns (shorthand / as) under the alternatives
            self.forms.add("or-pattern-struct")
            names = self.binder_names(env, r.range(1, 2))
            alts = [("pvar", "Ca", [self.box_pat(names)]), ("pvar", "Sq", [self.box_pat(names)])]
            return ("match", self.fig_expr(env, d),
                    [(("por", r.shuffle(alts)), self.int_expr(env + names, d)), (("pvar", "Dt", []), self.int_expr(env, d))])
        if kind == 2:       # nested or inside a variant, as first or as later alternative
            self.forms.add("or-pattern-nested")
            x = self.fresh()
            inner = ("pvar", "Wa", [("por", r.shuffle(self.sh_alts(x)))])
            alts = [("pvar", "Wb", [("pid", x)]), inner]
            if r.chance(1, 2):
                alts.reverse()
                self.forms.add("nested-or-first")
            else:
                self.forms.add("nested-or-later")
            return ("match", ("raw2", "Wr.of(", [self.int_expr(env, d)], ")"),
                    [(("por", alts), self.int_expr(env + [x], d)),
                     (("pvar", "Wa", [("pvar", "Em", [])]), self.int_expr(env, d))])
        if kind == 3:       # or nested inside a tuple pattern
            self.forms.add("or-pattern-in-tuple")
            names = self.binder_names(env, 1)
            y = self.fresh()
            p = ("ptuple", [("por", [("pvar", "Ca", [self.box_pat(names)]), ("pvar", "Sq", [self.box_pat(names)])]), ("pid", y)])
            y2 = self.fresh()
            return ("match", ("tuple", [self.fig_expr(env, d), self.int_expr(env, d)]),
                    [(p, self.int_expr(env + names + [y], d)),
                     (("ptuple", [("pvar", "Dt", []), ("pid", y2)]), self.int_expr(env + [y2], d))])
        if kind == 4:       # top-level or over tuple alternatives
            self.forms.add("or-pattern-tuples")
            names = self.binder_names(env, 1)
            y = self.fresh()
            a1 = ("ptuple", [("pvar", "Ca", [self.box_pat(names)]), ("pid", y)])
            a2 = ("ptuple", [("pvar", "Sq", [self.box_pat(names)]), ("pid", y)])
            return ("match", ("tuple", [self.fig_expr(env, d), self.int_expr(env, d)]),
                    [(("por", r.shuffle([a1, a2])), self.int_expr(env + names + [y], d)),
                     (("ptuple", [("pvar", "Dt", []), ("pwild",)]), self.int_expr(env, d))])
        if kind in (6, 7):  # or-patterns nested in EVERY alternative of an or-pattern (depth 2)
            x = self.fresh()
            alts = [("pvar", "Xa", [("por", r.shuffle(self.sh_alts(x)))]),
                    ("pvar", "Xb", [("por", r.shuffle(self.sh_alts(x)))])]
            alts = r.shuffle(alts)
            scrut = ("raw2", "Wr2.of(", [self.int_expr(env, d)], ")")
            if kind == 6:
                self.forms.add("or-pattern-nested-in-all-alternatives")
                rest = ("por", [("pvar", "Xa", [("pvar", "Em", [])]), ("pvar", "Xb", [("pvar", "Em", [])])])
                return ("match", scrut, [(("por", alts), self.int_expr(env + [x], d)), (rest, self.int_expr(env, d))])
            self.forms.add("if-let-nested-or-pattern")
            return ("iflet", ("por", alts), scrut, self.int_expr(env + [x], d), self.int_expr(env, d))
        # kind 5: variant + struct mixed: (Sh, Box)
        self.forms.add("or-pattern-mixed")
        x = self.fresh()
        names = self.binder_names(env + [x], 1)
        alts = [("ptuple", [a, self.box_pat(names)]) for a in self.sh_alts(x)]
        return ("match", ("tuple", [self.sh_expr(env, d), ("raw2", "Box.mk(", [self.int_expr(env, d)], ")")]),
                [(("por", r.shuffle(alts)), self.int_expr(env + [x] + names, d)),
                 (("ptuple", [("pvar", "Em", []), ("pwild",)]), self.int_expr(env, d))])

    # -------- lambdas for generic callees
    def lam(self, env, d, nparams, wrap_ok=True):
        r = self.rng
        xs = [self.fresh() for _ in range(nparams)]
        body = self.int_expr(env + xs, d)
        if nparams == 2 and r.chance(1, 2):
            body = ("bin", r.pick(["+", "-", "*"]), ("var", xs[0]), ("bin", "+", ("var", xs[1]), body))
        ann = [(x, self.rich and r.chance(1, 6)) for x in xs]
        l = ("lam", ann, body)
        if wrap_ok and r.chance(1, 5):
            self.forms.add("lambda-in-block-arg")
            t = self.fresh()
            return ("block", [("let", ("pid", t), self.int_expr(env, d), False)], l)
        return l

    def int_expr(self, env, depth):
        r = self.rng
        if depth <= 0 or r.chance(1, 5):
            if env and r.chance(3, 4):
                v = r.pick(env)
                if self.broken == "unbound" and not self.broke and r.chance(1, 3):
                    self.broke = True
                    return ("var", "nope")
                return ("var", v)
            if self.broken == "type" and not self.broke and r.chance(1, 3):
                self.broke = True
                return ("raw", "true")
            return ("lit", r.range(0, 9))
        k = r.below(37)
        d = depth - 1
        if k <= 1:
            return ("bin", r.pick(["+", "-", "*"]), self.int_expr(env, d), self.int_expr(env, d))
        if k == 2:
            self.forms.add("if")
            return ("if", ("bin", r.pick(["<", "==", ">="]), self.int_expr(env, d), self.int_expr(env, d)),
                    self.int_expr(env, d), self.int_expr(env, d))
        if k == 3:
            self.forms.add("let")
            v = self.fresh()
            if self.broken == "dup" and not self.broke and env and r.chance(1, 2):
                self.broke = True
                v = r.pick(env)
            e = self.int_expr(env, d)
            return ("block", [("let", ("pid", v), e, False)], self.int_expr(env + [v], d))
        if k == 4:
            self.forms.add("tuple-pattern")
            a, b = self.fresh(), self.fresh()
            pat = ("ptuple", [("pid", a), ("pwild",) if r.chance(1, 4) else ("pid", b)])
            env2 = env + [a] + ([b] if pat[1][1][0] == "pid" else [])
            src = ("tuple", [self.int_expr(env, d), self.int_expr(env, d)])
            if r.chance(1, 3):
                self.forms.add("generic-call-tuple")
                src = gc("Main.id", [src])
            return ("block", [("let", pat, src, None)], self.int_expr(env2, d))
        if k == 5:
            self.forms.add("struct-pattern")
            names = self.binder_names(env, r.range(1, 2))
            pat = self.box_pat(names)
            src = ("raw2", "Box.init(", [self.int_expr(env, d), self.int_expr(env, d)], ")")
            if self.rich and r.chance(1, 3):     # struct pattern nested in a tuple pattern
                self.forms.add("struct-in-tuple-pattern")
                w = self.fresh()
                return ("block", [("let", ("ptuple", [pat, ("pid", w)]), ("tuple", [src, self.int_expr(env, d)]), None)],
                        self.int_expr(env + names + [w], d))
            return ("block", [("let", pat, src, None)], self.int_expr(env + names, d))
        if k == 6:
            self.forms.add("match-variant")
            x, w, h = self.fresh(), self.fresh(), self.fresh()
            scrut = self.sh_expr(env, d)
            return ("match", scrut, [(("pvar", "Ci", [("pid", x)]), self.int_expr(env + [x], d)),
                                     (("pvar", "Re", [("pid", w), ("pid", h)]), self.int_expr(env + [w, h], d)),
                                     (("pvar", "Em", []), self.int_expr(env, d))])
        if k in (7, 12):
            return self.or_match(env, d)
        if k == 8:
            if self.rich and r.chance(1, 2):
                self.forms.add("if-let-struct")
                names = self.binder_names(env, 1)
                return ("iflet", ("pvar", r.pick(["Ca", "Sq"]), [self.box_pat(names)]), self.fig_expr(env, d),
                        self.int_expr(env + names, d), self.int_expr(env, d))
            self.forms.add("if-let")
            x = self.fresh()
            return ("iflet", ("pvar", "So", [("pid", x)]), ("raw2", "Opt.of(", [self.int_expr(env, d)], ")"),
                    self.int_expr(env + [x], d), self.int_expr(env, d))
        if k == 9:
            self.forms.add("lambda-let")
            g, x = self.fresh(), self.fresh()
            body = self.int_expr(env + [x], d)     # may capture anything in env
            return ("block", [("let", ("pid", g), ("lam", [(x, True)], body), None)],
                    ("call", ("var", g), [self.int_expr(env, d)]))
        if k == 10:
            self.forms.add("lambda-arg")
            x = self.fresh()
            if r.chance(1, 3):
                y = self.fresh()
                self.forms.add("nested-lambda")
                inner = ("lam", [(y, False)], ("bin", "+", ("var", y), self.int_expr(env + [x, y], d)))
                body = gc("Main.ap", [inner, ("var", x)])
            else:
                body = self.int_expr(env + [x], d)
            return gc("Main.ap", [("lam", [(x, False)], body), self.int_expr(env, d)])
        if k == 11:
            self.forms.add("generic-call")
            return gc("Main.id", [self.int_expr(env, d)], 1)
        if k == 13:
            self.forms.add("generic-lambda2")     # <T>(f: (int, T) -> int, s: T)
            return gc("Main.comb", [self.lam(env, d, 2), self.int_expr(env, d)], 1)
        if k == 14:
            self.forms.add("generic-lambda2-AB")  # <A, B>(f: (A, B) -> int, a: A, b: B)
            return gc("Main.app2", [self.lam(env, d, 2), self.int_expr(env, d), self.int_expr(env, d)], 2)
        if k == 15:
            if r.chance(1, 3):
                self.forms.add("generic-method-reference")
                return gc("Main.twice", [("raw", "Main.inc"), self.int_expr(env, d)], 1)
            self.forms.add("generic-lambda1")
            return gc("Main.twice", [self.lam(env, d, 1), self.int_expr(env, d)], 1)
        if k == 16:
            self.forms.add("generic-lambda-last")  # <A, B>(x: A, f: (A) -> B)
            return gc("Main.pipe", [self.int_expr(env, d), self.lam(env, d, 1)], 2)
        if k == 17:
            self.forms.add("generic-method")       # Cell.init(e).map((x) -> ..).get()
            inner = gc("Cell.init", [self.int_expr(env, d)], 1)
            return ("post", gc("map", [self.lam(env, d, 1, wrap_ok=False)], 1, inner), ".get()")
        if k == 18:
            self.forms.add("generic-nested")
            return gc("Main.comb", [self.lam(env, d, 2), gc("Main.id", [self.int_expr(env, d)], 1)], 1)
        if k in (19, 20):
            return self.hidden_placeholder_arg(env, d)
        if k in (26, 27, 28):
            return self.branch_join(env, d)
        if k == 36:
            # syntax the renamer must preserve besides identifiers: explicit type arguments on a member
            # access / constructor whose receiver or argument mentions a local
            self.forms.add("explicit-targs-on-variable-receiver")
            cv, x = self.fresh(), self.fresh()
            mapped = gc("map", [("lam", [(x, True)], ("bin", "+", ("var", x), self.int_expr(env + [x], d)))], 1, ("var", cv), True)
            return ("block", [("let", ("pid", cv, "Cell<int>"), gc("Cell.init", [self.int_expr(env, d)], 1, None, True), False)],
                    ("post", mapped, ".get()"))
        if k in (34, 35):
            # tuple literals in the parser's `( id …` cover grammar: leading bare identifiers, then an
            # element that starts with an identifier and continues as a compound expression
            self.forms.add("tuple-cover-grammar")
            a, b, g, bx, p, q = (self.fresh() for _ in range(6))
            shape = r.below(7)
            va, vb = ("var", a), ("var", b)
            third = None
            if shape == 0:
                els = [va, ("bin0", r.pick(["+", "-", "*"]), vb, ("lit", r.range(1, 9)))]
            elif shape == 1:
                els = [va, ("call", ("var", g), [vb])]
            elif shape == 2:
                els = [va, ("post", ("var", bx), ".fa")]
            elif shape == 3:
                els = [("bin0", "+", va, ("lit", 1)), vb]
            elif shape == 4:
                els = [va, vb]
            elif shape == 5:
                third = self.fresh()
                els = [va, vb, ("bin0", "*", va, vb)]
            else:
                els = [va, ("bin0", "+", ("paren", vb), ("paren", va))]
            pats = [("pid", p), ("pid", q)] + ([("pid", third)] if third else [])
            lets = [("let", ("pid", a), self.int_expr(env, d), False), ("let", ("pid", b), self.int_expr(env, d), False),
                    ("let", ("pid", g, "(int) -> int"), ("lam", [(self.fresh(), True)], ("lit", 7)), None),
                    ("let", ("pid", bx, "Box"), ("raw2", "Box.mk(", [va], ")"), False),
                    ("let", ("ptuple", pats), ("tuplec", els), None)]
            res = ("bin", "+", ("var", p), ("var", q))
            if third:
                res = ("bin", "+", res, ("var", third))
            return ("block", lets, res)
        if k == 31:
            self.forms.add("unary")
            if r.chance(1, 2):
                return ("un", "-", self.int_expr(env, d))
            return ("if", ("un", "!", ("paren", ("bin", r.pick(["<", "==", ">="]), self.int_expr(env, d), self.int_expr(env, d)))),
                    self.int_expr(env, d), self.int_expr(env, d))
        if k == 32:
            self.forms.add("member-access-on-variable")
            bx = self.fresh()
            return ("block", [("let", ("pid", bx, "Box"), ("raw2", "Box.mk(", [self.int_expr(env, d)], ")"), False)],
                    ("bin", "+", ("post", ("var", bx), ".fa"), ("post", ("var", bx), ".sum()")))
        if k == 33:
            self.forms.add("expression-statement")
            v = self.fresh()
            return ("block", [("let", ("pid", v), self.int_expr(env, d), False),
                              ("let", ("pstmt",), ("raw2", "Process.println(Str.fromInt(", [("var", v)], "))"), None),
                              ("let", ("pstmt",), gc("Main.id", [("var", v)], 1), None)],
                    ("var", v))
        if k in (29, 30) and env:
            self.forms.add("generic-arg-branch-mix")
            family = r.pick(["M", "L"])
            shape = r.pick(["if", "if", "match", "if-block", "block-if"])
            pool = [x for x in (M_KINDS if family == "M" else L_KINDS) if x != "var"]
            kinds = [r.pick(pool) for _ in range(3 if shape == "match" else 2)]
            if not any(x in NEEDS_HINT for x in kinds):
                kinds[r.below(len(kinds))] = "nothing" if family == "M" else "lam"
            return mix_expr(family, shape, kinds, r.pick(env), self.fresh)
        if k == 21 and self.broken == "underconstrained" and not self.broke:
            # a nested generic call whose type parameter does not occur in its result type: genuinely
            # underconstrained (rejected), also with explicit type arguments on the outer call
            self.broke = True
            self.forms.add("generic-phantom-parameter")
            x = self.fresh()
            inner = gc("Main.count", [("lam", [(x, False)], ("lit", 1))], 0)
            return gc("Main.pick", [inner, self.int_expr(env, d), ("raw", "true")], 1)
        self.forms.add("method")
        return ("raw2", "Box.mk(", [self.int_expr(env, d)], ").sum()")

    def branch_join(self, env, d):
        """if / else-if chains (>= 3 branches, written with `else if`) and matches whose later branches
        can only be typed from a sibling / from the context (`Maybe.Nothing()`, `Process.panic(..)`,
        un-annotated lambdas), in positions without a contextual hint: un-annotated `let`, `let _ =`,
        tuple element, argument of a generic call"""
        r = self.rng
        mkcond = lambda: ("bin", r.pick(["<", "==", ">="]), self.int_expr(env, d), self.int_expr(env, d))
        nb = r.range(2, 3)      # number of `if` / `else if` branches before the final else

        def chain(first, later):
            bs = [(mkcond(), first())]
            need = False
            tail = []
            for i in range(nb):
                x = later(need_hint=(not need and i == nb - 1) or r.chance(1, 2))
                tail.append(x)
            for x in tail[:-1]:
                bs.append((mkcond(), x))
            return ("chain", bs, tail[-1], None)

        form = r.below(6)
        if form <= 1:       # Maybe-typed chain
            self.forms.add("else-if-chain-maybe")
            just = lambda: gc("Maybe.Just", [self.int_expr(env, d)], 1)
            def later(need_hint):
                if not need_hint:
                    return just()
                return gc("Maybe.Nothing", [], 1) if r.chance(2, 3) else gc("Process.panic", [("raw", '"boom"')], ["Maybe<int>"])
            c = chain(just, later)
            v = self.fresh()
            n = str(r.range(0, 9))
            if form == 0:   # un-annotated let
                return ("block", [("let", ("pid", v, "Maybe<int>"), c, False)], ("post", ("var", v), ".getOr(" + n + ")"))
            w = self.fresh()    # tuple element
            self.forms.add("else-if-chain-in-tuple")
            return ("block", [("let", ("ptuple", [("pid", v), ("pid", w)]), ("tuple", [c, self.int_expr(env, d)]), None)],
                    ("bin", "+", ("post", ("var", v), ".getOr(" + n + ")"), ("var", w)))
        if form <= 3:       # int-typed chain with Process.panic branches
            self.forms.add("else-if-chain-int")
            def later(need_hint):
                return gc("Process.panic", [("raw", '"boom"')], 1) if need_hint else self.int_expr(env, d)
            c = chain(lambda: self.int_expr(env, d), later)
            if form == 2:   # argument of a generic call
                self.forms.add("else-if-chain-generic-arg")
                return gc("Main.id", [c], 1)
            w = self.fresh()    # `let _ = chain;` (no hint at all), then an un-annotated let
            return ("block", [("let", ("pwild",), c, None), ("let", ("pid", w), c, False)], ("var", w))
        if form == 4:       # lambda-typed chain
            self.forms.add("else-if-chain-lambda")
            def lam1(annotated):
                x = self.fresh()
                return ("lam", [(x, annotated)], ("bin", "+", ("var", x), self.int_expr(env + [x], d)))
            c = chain(lambda: lam1(True), lambda need_hint: lam1(not need_hint))
            fn = self.fresh()
            return ("block", [("let", ("pid", fn, "(int) -> int"), c, False)], ("call", ("var", fn), [self.int_expr(env, d)]))
        # match whose arms get the hint of the (annotated) context
        self.forms.add("match-arms-with-context-hint")
        x, w, v = self.fresh(), self.fresh(), self.fresh()
        m = ("match", self.sh_expr(env, d),
             [(("pvar", "Ci", [("pid", x)]), gc("Maybe.Just", [("var", x)], 1)),
              (("pvar", "Re", [("pid", w), ("pwild",)]), gc("Maybe.Nothing", [], 1)),
              (("pvar", "Em", []), gc("Process.panic", [("raw", '"boom"')], ["Maybe<int>"]))])
        return ("block", [("let", ("pid", v, "Maybe<int>"), m, True)], ("post", ("var", v), ".getOr(" + str(r.range(0, 9)) + ")"))

    def hidden_placeholder_arg(self, env, d):
        """generic call with inferred type arguments one of whose arguments is a match / if-else /
        block whose first branch is concrete and a later branch needs the contextual type
        (`Process.panic(..)`, `Maybe.Nothing()`): the place where the checker's synthesis phase
        produces a placeholder that is not visible in the argument's own type"""
        r = self.rng
        mkcond = lambda: ("bin", r.pick(["<", "==", ">="]), self.int_expr(env, d), self.int_expr(env, d))
        x, w = self.fresh(), self.fresh()
        if r.chance(1, 2):
            self.forms.add("generic-arg-match-panic")
            panic = gc("Process.panic", [("raw", '"boom"')], 1)
            shape = r.below(3)
            if shape == 0:
                arg = ("match", self.sh_expr(env, d),
                       [(("pvar", "Ci", [("pid", x)]), self.int_expr(env + [x], d)),
                        (("pvar", "Re", [("pid", w), ("pwild",)]), self.int_expr(env + [w], d)),
                        (("pvar", "Em", []), panic)])
            elif shape == 1:
                arg = ("if", mkcond(), self.int_expr(env, d), panic)
            else:
                t = self.fresh()
                arg = ("block", [("let", ("pid", t), self.int_expr(env, d), False)],
                       ("match", ("raw2", "Opt.of(", [("var", t)], ")"),
                        [(("pvar", "So", [("pid", x)]), ("var", x)), (("pvar", "No", []), panic)]))
            args = [arg, self.int_expr(env, d), ("bin", "<", self.int_expr(env, d), self.int_expr(env, d))]
            if r.chance(1, 3):
                args[0], args[1] = args[1], args[0]
            return gc("Main.pick", args, 1)
        self.forms.add("generic-arg-match-nothing")
        arg = ("match", self.sh_expr(env, d),
               [(("pvar", "Ci", [("pid", x)]), gc("Maybe.Just", [("var", x)], 1)),
                (("pvar", "Re", [("pid", w), ("pwild",)]), gc("Maybe.Just", [self.int_expr(env + [w], d)], 1)),
                (("pvar", "Em", []), gc("Maybe.Nothing", [], 1))])
        pick = gc("Main.pick", [arg, gc("Maybe.Just", [self.int_expr(env, d)], 1), mkcond()], ["Maybe<int>"])
        return ("post", pick, ".getOr(" + str(r.range(0, 9)) + ")")

    def sh_expr(self, env, d):
        k = self.rng.below(3)
        if k == 0:
            return ("raw2", "Sh.Ci(", [self.int_expr(env, d)], ")")
        if k == 1:
            return ("raw2", "Sh.Re(", [self.int_expr(env, d), self.int_expr(env, d)], ")")
        return ("raw", "Sh.Em()")

    def fig_expr(self, env, d):
        return ("raw2", "Fig.of(", [self.int_expr(env, d), self.int_expr(env, d)], ")")

    def function(self, name, depth):
        nparams = self.rng.range(1, 3)
        ps = [self.fresh() for _ in range(nparams)]
        return {"name": name, "params": ps, "body": self.int_expr(list(ps), depth)}


def gen_program(rng, broken=None, nfun=None, depth=None, rich_patterns=True):
    g = Gen(rng, broken, rich_patterns)
    nfun = nfun or rng.range(1, 3)
    funs = [g.function(f"f{i}", depth or rng.range(2, 4)) for i in range(nfun)]
    args = [[rng.range(0, 20) for _ in f["params"]] for f in funs]
    return {"funs": funs, "args": args, "classes": LIB_ORDER + ["Main"], "split": None,
            "forms": sorted(g.forms), "broken": broken if g.broke else None}


# ---------------------------------------------------------------- rendering

def pat_s(p, top=True):
    k = p[0]
    if k == "pid":
        return p[1]
    if k == "pwild":
        return "_"
    if k == "praw":
        return p[1]
    if k == "ptuple":
        return "(" + ", ".join(pat_s(q, False) for q in p[1]) + ")"
    if k == "pobj":
        return "{ " + ", ".join(f if v is None else f"{f} as {pat_s(v, False)}" for f, v in p[1]) + " }"
    if k == "pvar":
        return p[1] + ("(" + ", ".join(pat_s(q, False) for q in p[2]) + ")" if p[2] else "")
    if k == "por":
        return " | ".join(pat_s(q, False) for q in p[1])
    raise ValueError(k)


def expr_s(e):
    k = e[0]
    if k == "lit":
        return str(e[1])
    if k == "var":
        return e[1]
    if k == "raw":
        return e[1]
    if k == "raw2":
        return e[1] + ", ".join(expr_s(x) for x in e[2]) + e[3]
    if k == "bin":
        def opnd(x):
            t = expr_s(x)
            return f"({t})" if x[0] in ("if", "iflet", "match", "lam", "block", "wrap", "chain") else t
        return f"({opnd(e[2])} {e[1]} {opnd(e[3])})"
    if k == "if":
        return f"if {expr_s(e[1])} {{ {expr_s(e[2])} }} else {{ {expr_s(e[3])} }}"
    if k == "chain":
        def go(i):
            if i == len(e[1]):
                return "{ " + expr_s(e[2]) + " }"
            c, b = e[1][i]
            txt = f"if {expr_s(c)} {{ {expr_s(b)} }} else " + go(i + 1)
            return "{ " + txt + " }" if (e[3] is not None and i == e[3]) else txt
        return go(0)
    if k == "iflet":
        return f"if let {pat_s(e[1])} = {expr_s(e[2])} {{ {expr_s(e[3])} }} else {{ {expr_s(e[4])} }}"
    if k in ("tuple", "tuplec"):
        return "(" + ", ".join(expr_s(x) for x in e[1]) + ")"
    if k == "bin0":      # binary operand written without parentheses (element of a tuple literal)
        return f"{expr_s(e[2])} {e[1]} {expr_s(e[3])}"
    if k == "block":
        ss = "".join((f"{expr_s(x)}; " if p[0] == "pstmt" else
                      f"let {pat_s(p)}{(': ' + (p[2] if len(p) > 2 else 'int')) if ann else ''} = {expr_s(x)}; ")
                     for _, p, x, ann in e[1])
        return "{ " + ss + expr_s(e[2]) + " }"
    if k == "match":
        return "match " + expr_s(e[1]) + " { " + ", ".join(f"{pat_s(p)} -> {expr_s(b)}" for p, b in e[2]) + " }"
    if k == "lam":
        return "(" + ", ".join(f"{x}: int" if ann else x for x, ann in e[1]) + ") -> " + expr_s(e[2])
    if k == "call":
        return expr_s(e[1]) + "(" + ", ".join(expr_s(x) for x in e[2]) + ")"
    if k == "gcall":
        targs = "<" + ", ".join(e[4]) + ">" if e[3] and e[4] else ""
        pre = expr_s(e[5]) + "." if e[5] is not None else ""
        return pre + e[1] + targs + "(" + ", ".join(expr_s(x) for x in e[2]) + ")"
    if k == "post":
        return expr_s(e[1]) + e[2]
    if k == "not":
        return "!(" + expr_s(e[1]) + ")"
    if k == "un":
        t = expr_s(e[2])
        return e[1] + (t if e[2][0] in ("var", "lit") else "(" + t + ")")
    if k == "paren":
        return "(" + expr_s(e[1]) + ")"
    if k == "wrap":
        return "{ " + expr_s(e[1]) + " }"
    raise ValueError(k)


def main_class(p):
    ms = []
    for f in p["funs"]:
        ms.append(f"  function {f['name']}({', '.join(x + ': int' for x in f['params'])}): int = {expr_s(f['body'])}")
    ms += HELPERS
    calls = "".join(f" Process.println(Str.fromInt(Main.{f['name']}({', '.join(str(a) for a in args)})));"
                    for f, args in zip(p["funs"], p["args"]))
    calls += "".join(f" Process.println(Str.fromInt(Main.{f['name']}({', '.join(str(a) for a in args)})));"
                     for f, args in zip(p["funs"], p.get("args2") or []))
    ms.append("  function main(): unit = {" + calls + " }")
    order = p.get("member_order") or list(range(len(ms)))
    return "class Main {\n" + "\n".join(ms[i] for i in order) + "\n}"


def n_members(p):
    return len(p["funs"]) + len(HELPERS) + 1


def render(p):
    """-> {module name: text}; entry module is `Main`."""
    extra = p.get("extra") or {}
    texts = {c: (main_class(p) if c == "Main" else extra[c] if c in extra else LIB[c]) for c in p["classes"]}
    pre = p.get("imports") or ""
    if p["split"]:
        moved = [c for c in p["classes"] if c in p["split"]]
        kept = [c for c in p["classes"] if c not in p["split"]]
        # a moved class may mention another moved / kept library class: Fig -> Box, Wr -> Sh
        deps = {"Fig": ["Box"], "Wr": ["Sh", "Shp"], "Wr2": ["Sh", "Shp"], "Sh": ["Shp"]}
        need = sorted({d for c in moved for d in deps.get(c, []) if d not in moved})
        if need:      # keep it simple: dependencies move together
            moved += need
            kept = [c for c in kept if c not in need]
        back = sorted({c for k in kept for c in deps.get(k, []) if c in moved})
        return {"Lib": "\n".join(texts[c] for c in moved),
                "Main": pre + "import { " + ", ".join(moved) + " } from Lib;\n" + "\n".join(texts[c] for c in kept)}
    return {"Main": pre + "\n".join(texts[c] for c in p["classes"])}


# ---------------------------------------------------------------- structural helpers

def map_expr(e, f):
    """bottom-up map over expressions; f(node) -> node. Patterns are passed through f too."""
    k = e[0]
    if k in ("lit", "var", "raw", "pid", "pwild", "praw", "pstmt"):
        return f(e)
    if k == "raw2":
        return f((k, e[1], [map_expr(x, f) for x in e[2]], e[3]))
    if k == "bin":
        return f((k, e[1], map_expr(e[2], f), map_expr(e[3], f)))
    if k == "if":
        return f((k, map_expr(e[1], f), map_expr(e[2], f), map_expr(e[3], f)))
    if k == "chain":
        return f((k, [(map_expr(c, f), map_expr(b, f)) for c, b in e[1]], map_expr(e[2], f), e[3]))
    if k == "iflet":
        return f((k, map_expr(e[1], f), map_expr(e[2], f), map_expr(e[3], f), map_expr(e[4], f)))
    if k in ("tuple", "tuplec"):
        return f((k, [map_expr(x, f) for x in e[1]]))
    if k == "bin0":
        return f((k, e[1], map_expr(e[2], f), map_expr(e[3], f)))
    if k == "block":
        return f((k, [(s[0], map_expr(s[1], f), map_expr(s[2], f), s[3]) for s in e[1]], map_expr(e[2], f)))
    if k == "match":
        return f((k, map_expr(e[1], f), [(map_expr(p, f), map_expr(b, f)) for p, b in e[2]]))
    if k == "lam":
        return f((k, e[1], map_expr(e[2], f)))
    if k == "call":
        return f((k, map_expr(e[1], f), [map_expr(x, f) for x in e[2]]))
    if k == "gcall":
        pre = map_expr(e[5], f) if e[5] is not None else None
        return f((k, e[1], [map_expr(x, f) for x in e[2]], e[3], e[4], pre))
    if k == "post":
        return f((k, map_expr(e[1], f), e[2]))
    if k in ("paren", "wrap", "not"):
        return f((k, map_expr(e[1], f)))
    if k == "un":
        return f((k, e[1], map_expr(e[2], f)))
    if k == "ptuple":
        return f((k, [map_expr(q, f) for q in e[1]]))
    if k == "pobj":
        return f((k, [(fld, None if v is None else map_expr(v, f)) for fld, v in e[1]]))
    if k == "pvar":
        return f((k, e[1], [map_expr(q, f) for q in e[2]]))
    if k == "por":
        return f((k, [map_expr(q, f) for q in e[1]]))
    raise ValueError(k)


def rename_name(p, old, new):
    """consistent renaming of the local variable name `old` to `new` in the whole program"""
    import re as _re
    pat = _re.compile(r"\b" + _re.escape(old) + r"\b")
    def f(e):
        if e[0] in ("raw", "praw"):        # raw text of the path family mentions locals too
            return (e[0], pat.sub(new, e[1]))
        if e[0] in ("var", "pid") and e[1] == old:
            return (e[0], new) + tuple(e[2:])
        if e[0] == "lam":
            return ("lam", [(new if x == old else x, a) for x, a in e[1]], e[2])
        if e[0] == "pobj":      # shorthand `{ f }` binds f: renaming introduces `f as new`
            return ("pobj", [(fld, ("pid", new)) if (v is None and fld == old) else (fld, v) for fld, v in e[1]])
        return e
    q = dict(p)
    q["funs"] = [{"name": fn["name"], "params": [new if x == old else x for x in fn["params"]],
                  "body": map_expr(fn["body"], f)} for fn in p["funs"]]
    return q


def local_names(p):
    names = []
    def f(e):
        if e[0] == "pid":
            names.append(e[1])
        if e[0] == "lam":
            names.extend(x for x, _ in e[1])
        if e[0] == "pobj":
            names.extend(fld for fld, v in e[1] if v is None)
        return e
    for fn in p["funs"]:
        names.extend(fn["params"])
        map_expr(fn["body"], f)
    return sorted(set(names))


# ---------------------------------------------------------------- annotation sites (C13)

def annotation_sites(p):
    """every place where an inferred type can be made explicit, individually addressable:
    ('lam', i, j)  = parameter j of the i-th lambda (pre-order per function list order)
    ('let', i)     = the i-th `let x = e` with a plain identifier pattern and a non-lambda value
    ('targs', i)   = the i-th generic call without explicit type arguments"""
    sites = []
    cnt = {"lam": 0, "let": 0, "targs": 0}
    def f(e):
        if e[0] == "lam":
            for j, (_, ann) in enumerate(e[1]):
                if not ann:
                    sites.append(("lam", cnt["lam"], j))
            cnt["lam"] += 1
        elif e[0] == "block":
            for s in e[1]:
                if s[1][0] == "pid" and s[2][0] != "lam":
                    if s[3] is False:       # None: not an annotation site (type not `int`-like / raw)
                        sites.append(("let", cnt["let"]))
                    cnt["let"] += 1
        elif e[0] == "gcall" and e[4]:
            if not e[3]:
                sites.append(("targs", cnt["targs"]))
            cnt["targs"] += 1
        return e
    for fn in p["funs"]:
        map_expr(fn["body"], f)
    return sites


def annotate(p, chosen):
    """make the inferred type explicit at exactly the sites in `chosen`"""
    chosen = set(chosen)
    cnt = {"lam": 0, "let": 0, "targs": 0}
    def f(e):
        if e[0] == "lam":
            i = cnt["lam"]; cnt["lam"] += 1
            return ("lam", [(x, ann or ("lam", i, j) in chosen) for j, (x, ann) in enumerate(e[1])], e[2])
        if e[0] == "block":
            out = []
            for s in e[1]:
                if s[1][0] == "pid" and s[2][0] != "lam":
                    i = cnt["let"]; cnt["let"] += 1
                    out.append((s[0], s[1], s[2], True if ("let", i) in chosen else s[3]))
                else:
                    out.append(s)
            return ("block", out, e[2])
        if e[0] == "gcall" and e[4]:
            i = cnt["targs"]; cnt["targs"] += 1
            return ("gcall", e[1], e[2], e[3] or ("targs", i) in chosen, e[4], e[5])
        return e
    q = dict(p)
    q["funs"] = [{"name": fn["name"], "params": fn["params"], "body": map_expr(fn["body"], f)} for fn in p["funs"]]
    return q


# ---------------------------------------------------------------- else-if chains (C13)

def chain_sites(p):
    """(index of chain in traversal order, number of places where the continuation can be wrapped)"""
    out = []
    cnt = [0]
    def f(e):
        if e[0] == "chain":
            if e[3] is None and len(e[1]) >= 2:
                out.append((cnt[0], len(e[1]) - 1))
            cnt[0] += 1
        return e
    for fn in p["funs"]:
        map_expr(fn["body"], f)
    return out


def nest_else_if(p, which, k):
    """block-wrap the nested if of chain number `which`: `… else if ck {…} …` -> `… else { if ck {…} … }`"""
    cnt = [0]
    def f(e):
        if e[0] == "chain":
            i = cnt[0]; cnt[0] += 1
            if i == which:
                return ("chain", e[1], e[2], k)
        return e
    q = dict(p)
    q["funs"] = [{"name": fn["name"], "params": fn["params"], "body": map_expr(fn["body"], f)} for fn in p["funs"]]
    return q


# ---------------------------------------------------------------- swapping if/else branches (C13)

def if_sites(p):
    cnt = [0]
    def f(e):
        if e[0] == "if":
            cnt[0] += 1
        return e
    for fn in p["funs"]:
        map_expr(fn["body"], f)
    return cnt[0]


def swap_branches(p, which):
    """`if c { a } else { b }` -> `if !(c) { b } else { a }` at the `which`-th if/else"""
    cnt = [0]
    def f(e):
        if e[0] == "if":
            i = cnt[0]; cnt[0] += 1
            if i == which:
                return ("if", ("not", e[1]), e[3], e[2])
        return e
    q = dict(p)
    q["funs"] = [{"name": fn["name"], "params": fn["params"], "body": map_expr(fn["body"], f)} for fn in p["funs"]]
    return q


# ---------------------------------------------------------------- deterministic family: checker paths (C13)
# every entry: (label, expected verdict, statements of f0's body before the final `v0`, extra classes,
# import prefix). The bodies are trees, so every structural rewrite applies; the erroneous piece is raw text.

def _let(name, text):
    return ("let", ("pid", name), ("raw", text), None)

def _letp(pat, text):
    return ("let", ("praw", pat), ("raw", text), None)

PRIV = ("Priv", "class Priv(private val s: int, val t: int) {\n  function mk(): Priv = Priv.init(1, 2)\n}")
CMP = ("Cmp", "interface Cmp {\n  method cmp(): int\n}")
BD = ("Bd", "class Bd {\n  function <T: Cmp> use(x: T): int = 1\n}")

PATH_FAMILY = [
    # ---- accepted forms the random generator does not produce
    ("tuple-5", "accepted", [_letp("(t1, t2, t3, t4, t5)", "(1, 2, 3, 4, v0)")], [], ""),
    ("tuple-sizes-5-to-16", "accepted",
     [_let("u%d" % n, "(" + ", ".join(str(i) for i in range(1, n)) + ", v0)") for n in range(5, 17)], [], ""),
    ("string-concat", "accepted", [_let("t1", '"a" :: "b"'), _let("t2", "Process.println(t1 :: \"c\")")], [], ""),
    ("bound-satisfied", "accepted", [_let("t1", "Bd.use(Cm.init(v0))")], [CMP, BD, ("Cm", "class Cm(val c: int) : Cmp {\n  method cmp(): int = this.c\n}")], ""),
    # ---- expression-level diagnostics (each decides accept / reject)
    ("unresolved-class", "rejected", [_let("t1", "Nope.foo()")], [], ""),
    ("field-on-int", "rejected", [_let("t1", "v0.foo")], [], ""),
    ("method-targs-arity", "rejected", [_let("t1", "Main.id<int, int>(v0)")], [], ""),
    ("field-targs", "rejected", [_let("t1", "Box.init(1, 2).fa<int>")], [], ""),
    ("unknown-member", "rejected", [_let("t1", "Box.init(1, 2).nope")], [], ""),
    ("builtin-member-as-value", "rejected", [_let("t1", "Process.println")], [], ""),
    ("generic-function-as-value", "rejected", [_let("t1", "Main.id")], [], ""),
    ("call-non-function", "rejected", [_let("t1", "v0(1)")], [], ""),
    ("call-arity", "rejected", [_let("t1", "Main.inc(1, 2)")], [], ""),
    ("bound-violated", "rejected", [_let("t1", "Bd.use(v0)")], [CMP, BD], ""),
    ("if-let-irrefutable", "rejected", [_let("t1", "if let t2 = v0 { t2 } else { 0 }")], [], ""),
    ("match-non-exhaustive", "rejected", [_let("t1", "match Main.shOf(v0) { Ci(t2) -> t2 }")], [], ""),
    ("let-refutable", "rejected", [_letp("Ci(t1)", "Main.shOf(v0)")], [], ""),
    # ---- assignability / meet / instantiation arms (type_system.rs, typing_context.rs)
    ("fn-arity-annotation", "rejected", [("let", ("praw", "t1: (int, int) -> int"), ("raw", "(w1: int) -> w1"), None)], [], ""),
    ("nominal-targ-mismatch", "rejected", [("let", ("praw", "t1: Maybe<bool>"), ("raw", "Maybe.Just(v0)"), None)], [], ""),
    ("meet-return-mismatch", "rejected", [_let("t1", "Main.comb((w1, w2) -> true, 2)")], [], ""),
    ("meet-arity-mismatch", "rejected", [_let("t1", "Main.comb((w1) -> 1, 2)")], [], ""),
    ("meet-branch-conflict", "rejected", [_let("t1", "Main.orElse(if v0 < 5 { Maybe.Nothing() } else { Maybe.Just(true) }, 42)")], [], ""),
    ("annotation-targs-arity", "rejected", [("let", ("praw", "t1: Maybe<int, int>"), ("raw", "Maybe.Just(v0)"), None)], [], ""),
    ("annotation-targs-on-plain-class", "rejected", [("let", ("praw", "t1: Box<int>"), ("raw", "Box.init(1, v0)"), None)], [], ""),
    ("annotation-interface-as-targ", "rejected", [("let", ("praw", "t1: Maybe<Cmp>"), ("raw", "Maybe.Nothing()"), None)], [CMP], ""),
    ("annotation-bound-violated", "rejected", [("let", ("praw", "t1: Bx<int>"), ("raw", "Bx.init(v0)"), None)], [CMP, ("Bx", "class Bx<T: Cmp>(val v: T) {}")], ""),
    ("annotation-bound-satisfied", "accepted", [("let", ("praw", "t1: Bx<Cm>"), ("raw", "Bx.init(Cm.init(v0))"), None)],
     [CMP, ("Cm", "class Cm(val c: int) : Cmp {\n  method cmp(): int = this.c\n}"), ("Bx", "class Bx<T: Cmp>(val v: T) {}")], ""),
    ("diamond-interfaces", "accepted", [], [("Ia", "interface Ia {\n  method a(): int\n}"), ("Ib", "interface Ib : Ia {}"), ("Ic", "interface Ic : Ia {}"),
                                            ("Cd", "class Cd : Ib, Ic {\n  method a(): int = 1\n}")], ""),
    # ---- pattern diagnostics
    ("tuple-pattern-on-int", "rejected", [_letp("(t1, t2)", "v0")], [], ""),
    ("object-pattern-on-int", "rejected", [_letp("{ fa }", "v0")], [], ""),
    ("if-let-variant-on-int", "rejected", [_let("t1", "if let Ci(t2) = v0 { t2 } else { 0 }")], [], ""),
    ("object-pattern-duplicate-field", "rejected", [_letp("{ fa, fa as t2, fb as _ }", "Box.init(1, v0)")], [], ""),
    ("variant-pattern-on-int", "rejected", [_let("t1", "match v0 { Ci(t2) -> t2 }")], [], ""),
    ("invalid-pattern-nested", "rejected",
     [_let("t1", "match v0 { (t2, { fa, fb as _ }, Ci(t3), _, Re(t4, _) | Ci(t4)) -> 1 }")], [], ""),
    ("tuple-pattern-too-many", "rejected", [_letp("(t1, t2, t3)", "(1, v0)")], [], ""),
    ("tuple-pattern-too-few", "rejected", [_letp("(t1, t2)", "(1, 2, v0)")], [], ""),
    ("tuple-pattern-private-field", "rejected", [_letp("(t1, t2)", "Priv.mk()")], [PRIV], ""),
    ("object-pattern-private-field", "rejected", [_letp("{ s, t }", "Priv.mk()")], [PRIV], ""),
    ("object-pattern-unknown-field", "rejected", [_letp("{ fa, zz }", "Box.init(1, v0)")], [], ""),
    ("object-pattern-missing-field", "rejected", [_letp("{ fa }", "Box.init(1, v0)")], [], ""),
    ("variant-unknown-tag", "rejected", [_let("t1", "match Main.shOf(v0) { Zz(t2) -> t2, Ci(_) -> 1, Re(_, _) -> 2, Em -> 3 }")], [], ""),
    ("variant-surplus-element", "rejected", [_let("t1", "match Main.shOf(v0) { Ci(t2, t3) -> t2, Re(_, _) -> 2, Em -> 3 }")], [], ""),
    ("variant-too-few", "rejected", [_let("t1", "match Main.shOf(v0) { Ci(t2) -> t2, Re(t3) -> t3, Em -> 3 }")], [], ""),
    ("or-pattern-inconsistent-names", "rejected", [_let("t1", "match Main.shOf(v0) { Ci(t2) | Re(t3, _) -> 1, Em -> 3 }")], [], ""),
    ("or-pattern-inconsistent-types", "rejected", [_let("t1", "match Wr.of(v0) { Wa(t2) | Wb(t2) -> 1 }")], [], ""),
    # ---- declarations: interface conformance, hierarchy, imports
    ("iface-tparam-arity", "rejected", [], [("If1", "interface If1 {\n  method <T> m1(x: T): T\n}"), ("C1", "class C1 : If1 {\n  method m1(x: int): int = x\n}")], ""),
    ("iface-tparam-name", "rejected", [], [("If1", "interface If1 {\n  method <T> m1(x: T): T\n}"), ("C1", "class C1 : If1 {\n  method <U> m1(x: U): U = x\n}")], ""),
    ("iface-tparam-bound", "rejected", [], [CMP, ("If1", "interface If1 {\n  method <T: Cmp> m1(x: T): int\n}"), ("C1", "class C1 : If1 {\n  method <T> m1(x: T): int = 1\n}")], ""),
    ("iface-tparam-bound-different", "rejected", [], [CMP, ("Cmp2", "interface Cmp2 {\n  method cmp2(): int\n}"),
        ("If1", "interface If1 {\n  method <T: Cmp> m1(x: T): int\n}"), ("C1", "class C1 : If1 {\n  method <T: Cmp2> m1(x: T): int = 1\n}")], ""),
    ("iface-signature-mismatch", "rejected", [], [("If1", "interface If1 {\n  method m1(x: int): int\n}"), ("C1", "class C1 : If1 {\n  method m1(x: int): bool = true\n}")], ""),
    ("iface-private-member", "rejected", [], [("If1", "interface If1 {\n  method m1(x: int): int\n}"), ("C1", "class C1 : If1 {\n  private method m1(x: int): int = x\n}")], ""),
    ("iface-missing-member", "rejected", [], [("If1", "interface If1 {\n  method m1(x: int): int\n  method m2(): int\n}"), ("C1", "class C1 : If1 {\n  method m1(x: int): int = x\n}")], ""),
    ("iface-conforming", "accepted", [], [("If1", "interface If1 {\n  method <T> m1(x: T): T\n}"), ("C1", "class C1 : If1 {\n  method <T> m1(x: T): T = x\n}")], ""),
    ("function-in-interface", "rejected", [], [("If2", "interface If2 {\n  function f(): int\n}")], ""),
    ("cyclic-interfaces", "rejected", [], [("Ia", "interface Ia : Ib {}"), ("Ib", "interface Ib : Ia {}")], ""),
    ("class-extends-class", "rejected", [], [("C2", "class C2 : Box {}")], ""),
    ("import-missing-export", "rejected", [], [], "import { NoSuchClass } from std.option;\n"),
    ("import-unresolved-module", "rejected", [], [], "import { A } from no.such.mod;\n"),
]


# ---- bounds that mention other type parameters; three spellings of one instantiation
BOUNDS_LIB = [
    ("Conv", "interface Conv<T> {\n  method conv(): T\n}"),
    ("Pairing", "interface Pairing<X, Y> {\n  method pr(): int\n}"),
    CMP,
    ("Cm", "class Cm(val c: int) : Cmp {\n  method cmp(): int = this.c\n}"),
    ("Feet", "class Feet(val v: int) {}"),
    ("Meters", "class Meters(val v: int) : Conv<Feet> {\n  method conv(): Feet = Feet.init(this.v)\n}"),
    ("Selfy", "class Selfy(val v: int) : Conv<Selfy> {\n  method conv(): Selfy = Selfy.init(this.v)\n}"),
    ("Pm", "class Pm(val v: int) : Pairing<Pm, Feet> {\n  method pr(): int = this.v\n}"),
    ("LkLater", "class LkLater<A: Conv<B>, B>(val a: A, val b: B) {}"),
    ("LkEarlier", "class LkEarlier<A, B: Conv<A>>(val a: A, val b: B) {}"),
    ("LkSelf", "class LkSelf<A: Conv<A>, B>(val a: A, val b: B) {}"),
    ("LkPlain", "class LkPlain<A: Cmp, B>(val a: A, val b: B) {}"),
    ("LkBoth", "class LkBoth<A: Pairing<A, B>, B>(val a: A, val b: B) {}"),
    ("Lk3", "class Lk3<A: Conv<C>, B, C>(val a: A, val b: B, val c: C) {}"),
    ("Bf", "class Bf {\n  function <A: Conv<B>, B> later(a: A, b: B): int = 1\n  function <A, B: Conv<A>> earlier(a: A, b: B): int = 2\n}"),
]
# (label, callee, result type (None = int), type arguments, satisfying arguments, violating arguments)
BOUND_CASES = [
    ("later", "LkLater.init", "LkLater<Meters, Feet>", ["Meters", "Feet"], ["Meters.init(v0)", "Feet.init(1)"], ["Feet", "Feet"], ["Feet.init(v0)", "Feet.init(1)"]),
    ("earlier", "LkEarlier.init", "LkEarlier<Feet, Meters>", ["Feet", "Meters"], ["Feet.init(v0)", "Meters.init(1)"], ["Feet", "Feet"], ["Feet.init(v0)", "Feet.init(1)"]),
    ("self", "LkSelf.init", "LkSelf<Selfy, Feet>", ["Selfy", "Feet"], ["Selfy.init(v0)", "Feet.init(1)"], ["Feet", "Feet"], ["Feet.init(v0)", "Feet.init(1)"]),
    ("plain", "LkPlain.init", "LkPlain<Cm, Feet>", ["Cm", "Feet"], ["Cm.init(v0)", "Feet.init(1)"], ["Feet", "Feet"], ["Feet.init(v0)", "Feet.init(1)"]),
    ("both", "LkBoth.init", "LkBoth<Pm, Feet>", ["Pm", "Feet"], ["Pm.init(v0)", "Feet.init(1)"], ["Feet", "Feet"], ["Feet.init(v0)", "Feet.init(1)"]),
    ("three", "Lk3.init", "Lk3<Meters, int, Feet>", ["Meters", "int", "Feet"], ["Meters.init(v0)", "1", "Feet.init(2)"], ["Feet", "int", "Feet"], ["Feet.init(v0)", "1", "Feet.init(2)"]),
    ("fn-later", "Bf.later", None, ["Meters", "Feet"], ["Meters.init(v0)", "Feet.init(1)"], ["Feet", "Feet"], ["Feet.init(v0)", "Feet.init(1)"]),
    ("fn-earlier", "Bf.earlier", None, ["Feet", "Meters"], ["Feet.init(v0)", "Meters.init(1)"], ["Feet", "Feet"], ["Feet.init(v0)", "Feet.init(1)"]),
]


def _bound_entries():
    out = []
    for label, callee, ty, targs, sat_args, bad_targs, bad_args in BOUND_CASES:
        pid = ("pid", "t1", ty) if ty else ("pid", "t1")
        # satisfying: written inferred; the annotate rewrites produce the annotated / explicit spellings
        call = gc(callee, [("raw", a) for a in sat_args], targs)
        out.append(("bound-" + label + "-satisfied", "accepted", [("let", pid, call, False)], BOUNDS_LIB, ""))
        # violating: the three spellings must all be rejected
        bad_ty = ty.split("<")[0] + "<" + ", ".join(bad_targs) + ">" if ty else None
        bpid = ("pid", "t1", bad_ty) if ty else ("pid", "t1")
        for sp, ann, explicit in (("inferred", False, False), ("annotated", True, False), ("explicit", False, True)):
            if sp == "annotated" and not ty:
                continue
            bcall = gc(callee, [("raw", a) for a in bad_args], bad_targs, None, explicit)
            out.append(("bound-" + label + "-violated-" + sp, "rejected", [("let", bpid, bcall, ann)], BOUNDS_LIB, ""))
    return out


PATH_FAMILY += _bound_entries()


def path_program(entry):
    label, expect, stmts, extra, imports = entry
    body = ("block", list(stmts), ("var", "v0")) if stmts else ("bin", "+", ("var", "v0"), ("lit", 1))
    names = [n for n, _ in extra]
    return {"funs": [{"name": "f0", "params": ["v0"], "body": body}], "args": [[3]],
            "classes": LIB_ORDER + names + ["Main"], "split": None, "extra": dict(extra), "imports": imports,
            "forms": ["path-" + label], "broken": None if expect == "accepted" else "path", "path": (label, expect)}


# ---------------------------------------------------------------- sibling scopes (C13g / C15)
# A name bound in one scope (if-let pattern, match arm, lambda parameter, block-local let) and a
# SIBLING scope (else part, next arm, next lambda, statement after the block) that (a) binds the same
# name again or (b) mentions it. Generated with distinct names (the consistently renamed twin); the
# base program is the twin with the sibling's name merged into the first one.

def sibling_programs():
    V0 = ("var", "v0")
    opt = lambda e: ("raw2", "Opt.of(", [e], ")")
    so = lambda n: ("pvar", "So", [("pid", n)])
    lam1 = lambda n: ("lam", [(n, False)], ("bin", "+", ("var", n), ("lit", 1)))
    cases = [
        ("iflet-else-let", "accepted",
         ("iflet", so("a1"), opt(V0), ("var", "a1"), ("block", [("let", ("pid", "a2"), ("lit", 1), False)], ("var", "a2")))),
        ("iflet-else-lambda", "accepted",
         ("iflet", so("a1"), opt(V0), ("var", "a1"), gc("Main.ap", [lam1("a2"), ("lit", 2)]))),
        ("iflet-else-iflet", "accepted",
         ("iflet", so("a1"), opt(V0), ("var", "a1"),
          ("iflet", so("a2"), opt(("bin", "+", V0, ("lit", 1))), ("var", "a2"), ("lit", 0)))),
        ("iflet-else-match", "accepted",
         ("iflet", so("a1"), opt(V0), ("var", "a1"),
          ("match", ("raw2", "Main.shOf(", [V0], ")"),
           [(("pvar", "Ci", [("pid", "a2")]), ("var", "a2")), (("pvar", "Re", [("pwild",), ("pwild",)]), ("lit", 2)), (("pvar", "Em", []), ("lit", 3))]))),
        ("match-arms", "accepted",
         ("match", ("raw2", "Main.shOf(", [V0], ")"),
          [(("pvar", "Ci", [("pid", "a1")]), ("var", "a1")), (("pvar", "Re", [("pid", "a2"), ("pwild",)]), ("var", "a2")), (("pvar", "Em", []), ("lit", 0))])),
        ("lambda-params", "accepted", ("bin", "+", gc("Main.ap", [lam1("a1"), ("lit", 1)]), gc("Main.ap", [lam1("a2"), ("lit", 2)]))),
        ("block-then-statement", "accepted",
         ("block", [("let", ("pid", "t1"), ("block", [("let", ("pid", "a1"), V0, False)], ("var", "a1")), False),
                    ("let", ("pid", "a2"), ("var", "t1"), False)], ("var", "a2"))),
        # (b) the sibling only MENTIONS the name: unresolved in both spellings
        ("iflet-else-mentions", "rejected", ("iflet", so("a1"), opt(V0), ("var", "a1"), ("bin", "+", ("var", "a2"), ("lit", 1)))),
        ("match-arm-mentions", "rejected",
         ("match", ("raw2", "Main.shOf(", [V0], ")"),
          [(("pvar", "Ci", [("pid", "a1")]), ("var", "a1")), (("pvar", "Re", [("pwild",), ("pwild",)]), ("var", "a2")), (("pvar", "Em", []), ("lit", 0))])),
        ("block-then-mentions", "rejected",
         ("block", [("let", ("pid", "t1"), ("block", [("let", ("pid", "a1"), V0, False)], ("var", "a1")), False)],
          ("bin", "+", ("var", "t1"), ("var", "a2")))),
    ]
    out = []
    for label, expect, body in cases:
        twin = {"funs": [{"name": "f0", "params": ["v0"], "body": body}], "args": [[4]], "args2": [[7]],
                "classes": LIB_ORDER + ["Main"], "split": None, "forms": ["sibling-" + label],
                "broken": None if expect == "accepted" else "path", "path": ("sibling-" + label + "-twin", expect)}
        base = rename_name(twin, "a2", "a1")
        base["path"] = ("sibling-" + label, expect)
        base["unmerged"] = twin
        out.append(base)
    return out
